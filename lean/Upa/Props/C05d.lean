import Upa.Proofs.SetRepApiRec
import Upa.Props.C02b
/-
  C05d — the WHOLE setters of `upa::url` executed IN PLACE on the stored representation
  (`Impl.setRep`, Upa/Impl/SetRepApi.lean: the guards of url.h:1466-1605, then the state blocks of
  `url_parse` under a state override, every write through the `url_setter` operations of
  Upa/Impl/SetRep.lean, every decision read off the representation) agree with the record-level
  model of the setters (`Impl.setValid`, Upa/Impl/Api.lean, the one C03 ties to the Standard):

      RepFor r u  ⟹  RepFor (setRep … r).1 (setValid … u).1  ∧  (setRep … r).2 = (setValid … u).2

  for every setter but `href` (href parses a fresh object and move-assigns it: no in-place edit).
  `RepFor r u := r ≈ layout u ∧ r.wf` (C05b).  Composed with C05b_getters: after ANY history of setter
  calls every getter computed from the offsets of the edited representation is the getter of the
  record the Standard-conformant record-level setters produce.

  Hypotheses on the record (all decidable; `Proofs/SetRep.lean`, `Proofs/SetRepApiRec.lean`):
    RepOk u       RecWF u ∧ (null host, list path ⇒ path ≠ []) ∧ (opaque path ⇒ null host)      (C05b)
    file ⇒ host   `u.isFile → u.host.isSome`: needed by host / hostname only, and needed
                  (`C05d_setter_needs_file_host`); the C++ cannot reach a file URL with a null host
                  (`file_state` calls `set_empty_host()` first, url.h:2013-2017; the protocol setter
                  keeps specialness, url.h:1673-1676).  For histories the invariant is
                  `HostInv u := u.isSpecial → u.host.isSome` (kept by every setter).
    RecShape u    only for `Rep.toRecord`: the path field `hasOpaquePath` does not select is empty,
                  and no segment of a list path contains "/".
  No hypothesis on the IDNA parameter is needed: the host parser is the same function on both sides.
  (`Norm idna u` of C02 — true of every parsed URL under `IdnaStable` — implies all three.)
-/
namespace Upa.Props
open Upa Upa.Impl Upa.Proofs.C05 Upa.Proofs.SetRep Upa.Proofs.SetRepApi

/-- a special URL has a (non-null) host -/
def HostInv (u : Url) : Prop := u.isSpecial = true → u.host.isSome = true

instance (u : Url) : Decidable (HostInv u) := by unfold HostInv; infer_instance

theorem HostInv.file {u : Url} (h : HostInv u) : u.isFile = true → u.host.isSome = true :=
  fun hf => h (Proofs.C08.file_special hf)

/-- an IDNA stub for the evaluated examples (ASCII hosts take the fast path and never call it) -/
def c05dIdna : Idna := fun _ => none

/-! ## 1. one setter call -/

/-- Every setter but `href`, run in place on a representation of `u`, yields a representation of the
    record the record-level setter yields, and returns the same bool (also when it returns false
    after having written the host: `host = "h:99999"`). -/
theorem C05d_setter :
    ∀ (idna : Idna) (s : Setter) (e : Enc) (units : List Nat) (u : Url) (r : Rep),
      s ≠ .href → RepOk u → (u.isFile = true → u.host.isSome = true) → RepFor r u →
      RepFor (setRep idna s e units r).1 (setValid idna s e units u).1 ∧
      (setRep idna s e units r).2 = (setValid idna s e units u).2 :=
  fun idna s e units _ _ hs ok hfile h =>
    have k := sim_setter idna s e units hs ok (fun _ => hfile) h
    ⟨k.1, k.2.2⟩

/-- the hypothesis `file ⇒ host` is used by `host` and `hostname` only -/
theorem C05d_setter_no_host :
    ∀ (idna : Idna) (s : Setter) (e : Enc) (units : List Nat) (u : Url) (r : Rep),
      s ≠ .href → s ≠ .host → s ≠ .hostname → RepOk u → RepFor r u →
      RepFor (setRep idna s e units r).1 (setValid idna s e units u).1 ∧
      (setRep idna s e units r).2 = (setValid idna s e units u).2 :=
  fun idna s e units _ _ hs h1 h2 ok h =>
    have k := sim_setter idna s e units hs ok (fun hc => by rcases hc with hc | hc <;> contradiction) h
    ⟨k.1, k.2.2⟩

-- hypotheses satisfiable, and one evaluated instance per setter on
-- https://user:pw@example.org:8080/a/b?q=1#frag
example : RepOk c05Full ∧ HostInv c05Full ∧ RepFor (layout c05Full) c05Full := by decide
example :
    let run := fun (s : Setter) (v : String) => setRep c05dIdna s .u8 (asciiStr v) (layout c05Full)
    (run .protocol "HTTP:").1.norm = asciiStr "http://user:pw@example.org:8080/a/b?q=1#frag" ∧
    (run .protocol "HTTP:").1.schemeIdx = some 3 ∧
    (run .username "a b").1.norm = asciiStr "https://a%20b:pw@example.org:8080/a/b?q=1#frag" ∧
    (run .password "").1.norm = asciiStr "https://user@example.org:8080/a/b?q=1#frag" ∧
    (run .host "X.y:443").1.norm = asciiStr "https://user:pw@x.y/a/b?q=1#frag" ∧
    (run .host "X.y:443").1.partEnd = [5, 8, 12, 15, 16, 19, 19, 19, 23, 27, 32] ∧
    run .hostname "x:8" = (layout c05Full, false) ∧
    (run .host "x:99999").1.norm = asciiStr "https://user:pw@x:8080/a/b?q=1#frag" ∧
    (run .host "x:99999").2 = false ∧
    (run .port "\t0\n0099").1.norm = asciiStr "https://user:pw@example.org:99/a/b?q=1#frag" ∧
    (run .port "").1.norm = asciiStr "https://user:pw@example.org/a/b?q=1#frag" ∧
    (run .pathname "/../c d/./e/%2E%2e").1.norm = asciiStr "https://user:pw@example.org:8080/c%20d/?q=1#frag" ∧
    (run .pathname "/../c d/./e/%2E%2e").1.segCount = 2 ∧
    (run .search "?k=v w'").1.norm = asciiStr "https://user:pw@example.org:8080/a/b?k=v%20w%27#frag" ∧
    (run .hash "").1.norm = asciiStr "https://user:pw@example.org:8080/a/b?q=1" ∧
    (run .hash "").1.partEnd = [5, 8, 12, 15, 16, 27, 32, 32, 36, 40, 40] := by
  decide +kernel
-- an instance of the theorem, both sides evaluated
example :
    let x := setRep c05dIdna .host .u8 (asciiStr "X.y:443") (layout c05Full)
    let y := setValid c05dIdna .host .u8 (asciiStr "X.y:443") c05Full
    y.1 = { c05Full with host := some ⟨.domain, asciiStr "x.y"⟩, port := none } ∧ y.2 = true ∧
    x.2 = true ∧ x.1.equiv (layout y.1) ∧ x.1.wf := by decide +kernel

/-- `file ⇒ host` is needed: on the record {file, null host, path ["", "x"]} (`file:/.//x`, which no
    parse and no setter history produces) the host setter with "" runs `set_empty_host()`, which does
    not remove the "/." prefix (`hostDone` would); the record-level result is `file:////x` -/
theorem C05d_setter_needs_file_host :
    let u : Url := { scheme := sFile, host := none, path := [[], asciiStr "x"] }
    RepOk u ∧ ¬ HostInv u ∧ (layout u).norm = asciiStr "file:/.//x" ∧
    (setRep c05dIdna .host .u8 [] (layout u)).1.norm = asciiStr "file:///.//x" ∧
    (layout (setValid c05dIdna .host .u8 [] u).1).norm = asciiStr "file:////x" ∧
    ¬ RepFor (setRep c05dIdna .host .u8 [] (layout u)).1 (setValid c05dIdna .host .u8 [] u).1 := by
  decide +kernel

/-! ## 2. the invariants are kept -/

/-- `RepOk` is kept by every setter but `href` (also when the setter returns false), without any
    side condition; so is `HostInv`; so is `RecShape` -/
theorem C05d_repok_preserved :
    ∀ (idna : Idna) (s : Setter) (e : Enc) (units : List Nat) (u : Url), s ≠ .href →
      (RepOk u → RepOk (setValid idna s e units u).1) ∧
      (HostInv u → HostInv (setValid idna s e units u).1) ∧
      (RecShape u → RecShape (setValid idna s e units u).1) :=
  fun idna s e units u hs =>
    ⟨fun ok => repOk_setter idna s e units hs ok,
     fun hi => (hstep_setter idna s e units u hs).keeps hi,
     fun sh => recShape_setter idna s e units hs sh⟩

/-- the normal form of C02 (every parsed URL, under `IdnaStable`) implies all three -/
theorem C05d_norm_ok : ∀ (idna : Idna) (u : Url), Norm idna u → RepOk u ∧ HostInv u ∧ RecShape u := by
  intro idna u h
  obtain ⟨h1, h2, h3, h4, _, h6, h7, _, _, _, _, h12, _⟩ := h
  have hs : u.scheme ≠ [] := by
    intro hc; rw [hc] at h1; simp [Proofs.C02.schemeOk] at h1
  have hsp : HostInv u := fun hsp => by
    have := (h4 hsp).1
    cases hh : u.host with
    | none => exact absurd hh this
    | some x => rfl
  refine ⟨⟨⟨hs, fun hn => h6 (Or.inr (by simp [Url.hostText, hn]))⟩, fun hn ho => ?_, fun ho => (h2 ho).1⟩,
    hsp, fun ho => (h2 ho).2.1, fun ho => ⟨h3 ho, fun seg hseg c hc => ?_⟩⟩
  · cases hsp' : u.isSpecial with
    | true => exact (h4 hsp').2
    | false => exact h7 hsp' hn ho
  · have := h12 seg hseg
    simp only [Proofs.C02.segOk, Bool.and_eq_true, List.all_eq_true] at this
    have := this.1.1 c hc
    simp only [Proofs.C02.segCharOk, Bool.and_eq_true, bne_iff_ne, ne_eq] at this
    exact this.1.2

/-- in particular every URL the parser returns, and so the `href` setter keeps the invariants too -/
theorem C05d_repok_href :
    ∀ (idna : Idna), Proofs.C02b.IdnaStable idna → ∀ (e : Enc) (units : List Nat) (u : Url),
      RepOk u ∧ HostInv u ∧ RecShape u →
      RepOk (setValid idna .href e units u).1 ∧ HostInv (setValid idna .href e units u).1 ∧
        RecShape (setValid idna .href e units u).1 := by
  intro idna hi e units u h
  unfold setValid
  simp only
  cases hp : parse idna e units none with
  | none => exact h
  | some u' => exact C05d_norm_ok idna u' (C02_parse_norm idna hi e units none u' (Or.inl rfl) hp)

example : RepOk (setValid c05dIdna .pathname .u8 [] c05Prefix).1 ∧
    (setValid c05dIdna .pathname .u8 [] c05Prefix).1 = { c05Prefix with path := [[]] } := by decide +kernel

/-! ## 3. the record a representation stands for -/

/-- `Rep.toRecord` inverts `layout`, on every representation (zeros for never-started trailing
    parts included) of a record of the shape the parser and the setters produce -/
theorem C05d_toRecord : ∀ (u : Url) (r : Rep), RecWF u → RecShape u → RepFor r u → r.toRecord = u :=
  fun _ _ wf sh h => toRecord_of_repFor wf sh h

theorem C05d_toRecord_layout : ∀ u : Url, RecWF u → RecShape u → (layout u).toRecord = u :=
  fun u wf sh => toRecord_layout u wf sh

example : RecShape c05Full ∧ RecShape c05Prefix ∧ RecShape c05Opaque ∧ RecShape c05bMail := by decide
example : (layout c05Full).toRecord = c05Full ∧ c05PrefixRep.toRecord = c05Prefix ∧
    c05bHostOnlyRep.toRecord = c05bHostOnly ∧ (layout c05Opaque).toRecord = c05Opaque := by decide +kernel

/-- `RecShape` is needed: a "/" inside a segment is read back as a segment boundary, and the path
    field not selected by `hasOpaquePath` is not stored at all -/
theorem C05d_toRecord_needs_shape :
    let u : Url := { scheme := asciiStr "a", host := some ⟨.opaque, asciiStr "h"⟩, path := [asciiStr "x/y"] }
    let v : Url := { c05Opaque with path := [asciiStr "p"] }
    RepOk u ∧ ¬ RecShape u ∧ (layout u).toRecord = { u with path := [asciiStr "x", asciiStr "y"] } ∧
    RepOk v ∧ ¬ RecShape v ∧ (layout v).toRecord = c05Opaque := by decide +kernel

/-! ## 4. histories -/

/-- one call: (setter, encoding, code units) -/
abbrev Call := Setter × Enc × List Nat

/-- a history run in place on the representation; the returned bools are collected -/
def runRep (idna : Idna) (calls : List Call) (r : Rep) : Rep × List Bool :=
  calls.foldl (fun acc c => let x := setRep idna c.1 c.2.1 c.2.2 acc.1; (x.1, acc.2 ++ [x.2])) (r, [])

/-- the same history on the record -/
def runRec (idna : Idna) (calls : List Call) (u : Url) : Url × List Bool :=
  calls.foldl (fun acc c => let x := setValid idna c.1 c.2.1 c.2.2 acc.1; (x.1, acc.2 ++ [x.2])) (u, [])

theorem runRec_fst (idna : Idna) (calls : List Call) (u : Url) :
    (runRec idna calls u).1 = applySetters idna u calls := by
  unfold runRec applySetters
  suffices ∀ (l : List Bool), (calls.foldl (fun (acc : Url × List Bool) c =>
      let x := setValid idna c.1 c.2.1 c.2.2 acc.1; (x.1, acc.2 ++ [x.2])) (u, l)).1 =
      calls.foldl (fun u c => (setValid idna c.1 c.2.1 c.2.2 u).1) u from this []
  induction calls generalizing u with
  | nil => intro l; rfl
  | cons c cs ih => intro l; exact ih _ _

/-- Any history of setter calls (no `href`), run in place from any representation `r₀` of a record
    `u₀`, ends in a representation of the record the record-level setters end in, with the same
    sequence of returned bools; and the invariants hold again at the end. -/
theorem C05d_history :
    ∀ (idna : Idna) (calls : List Call) (u₀ : Url) (r₀ : Rep),
      (∀ c ∈ calls, c.1 ≠ .href) → RepOk u₀ → HostInv u₀ → RepFor r₀ u₀ →
      RepFor (runRep idna calls r₀).1 (runRec idna calls u₀).1 ∧
      (runRep idna calls r₀).2 = (runRec idna calls u₀).2 ∧
      RepOk (runRec idna calls u₀).1 ∧ HostInv (runRec idna calls u₀).1 := by
  intro idna calls u₀ r₀ hc ok hi h
  unfold runRep runRec
  suffices ∀ (l : List Bool) (u : Url) (r : Rep), RepOk u → HostInv u → RepFor r u →
      RepFor (calls.foldl (fun (acc : Rep × List Bool) c =>
          let x := setRep idna c.1 c.2.1 c.2.2 acc.1; (x.1, acc.2 ++ [x.2])) (r, l)).1
        (calls.foldl (fun (acc : Url × List Bool) c =>
          let x := setValid idna c.1 c.2.1 c.2.2 acc.1; (x.1, acc.2 ++ [x.2])) (u, l)).1 ∧
      (calls.foldl (fun (acc : Rep × List Bool) c =>
          let x := setRep idna c.1 c.2.1 c.2.2 acc.1; (x.1, acc.2 ++ [x.2])) (r, l)).2 =
        (calls.foldl (fun (acc : Url × List Bool) c =>
          let x := setValid idna c.1 c.2.1 c.2.2 acc.1; (x.1, acc.2 ++ [x.2])) (u, l)).2 ∧
      RepOk (calls.foldl (fun (acc : Url × List Bool) c =>
          let x := setValid idna c.1 c.2.1 c.2.2 acc.1; (x.1, acc.2 ++ [x.2])) (u, l)).1 ∧
      HostInv (calls.foldl (fun (acc : Url × List Bool) c =>
          let x := setValid idna c.1 c.2.1 c.2.2 acc.1; (x.1, acc.2 ++ [x.2])) (u, l)).1 from
    this [] u₀ r₀ ok hi h
  induction calls with
  | nil => intro l u r ok hi h; exact ⟨h, rfl, ok, hi⟩
  | cons c cs ih =>
    intro l u r ok hi h
    have hs : c.1 ≠ .href := hc c List.mem_cons_self
    obtain ⟨k1, k2⟩ := C05d_setter idna c.1 c.2.1 c.2.2 u r hs ok hi.file h
    obtain ⟨p1, p2, _⟩ := C05d_repok_preserved idna c.1 c.2.1 c.2.2 u hs
    simp only [List.foldl_cons]
    rw [k2]
    exact ih (fun d hd => hc d (List.mem_cons_of_mem _ hd)) _ _ _ (p1 ok) (p2 hi) k1

/-- from the from-scratch layout of the start record (what `url::parse` leaves, up to `≈`) -/
theorem C05d_history_layout :
    ∀ (idna : Idna) (calls : List Call) (u₀ : Url),
      (∀ c ∈ calls, c.1 ≠ .href) → RepOk u₀ → HostInv u₀ →
      RepFor (runRep idna calls (layout u₀)).1 (applySetters idna u₀ calls) ∧
      (runRep idna calls (layout u₀)).2 = (runRec idna calls u₀).2 := by
  intro idna calls u₀ hc ok hi
  obtain ⟨k1, k2, _⟩ := C05d_history idna calls u₀ (layout u₀) hc ok hi (C05b_layout u₀ ok.1)
  rw [runRec_fst] at k1
  exact ⟨k1, k2⟩

theorem recShape_applySetters (idna : Idna) (calls : List Call) (u₀ : Url)
    (hc : ∀ c ∈ calls, c.1 ≠ .href) (sh : RecShape u₀) : RecShape (applySetters idna u₀ calls) := by
  unfold applySetters
  induction calls generalizing u₀ with
  | nil => exact sh
  | cons c cs ih =>
    exact ih _ (fun d hd => hc d (List.mem_cons_of_mem _ hd))
      ((C05d_repok_preserved idna c.1 c.2.1 c.2.2 u₀ (hc c List.mem_cons_self)).2.2 sh)

/-- After any such history every getter computed from the offsets of the edited representation is
    the record-level getter of the record-level result (the one C03 ties to the Standard's setters);
    and `toRecord` reads that record back (for start records of the parser's shape). -/
theorem C05d_history_getters :
    ∀ (idna : Idna) (calls : List Call) (u₀ : Url) (r₀ : Rep),
      (∀ c ∈ calls, c.1 ≠ .href) → RepOk u₀ → HostInv u₀ → RepFor r₀ u₀ →
      let r := (runRep idna calls r₀).1
      let u := applySetters idna u₀ calls
      r.href = serialize u ∧ r.protocol = getProtocol u ∧ r.username = u.username ∧
      r.password = u.password ∧ r.host = getHost u ∧ r.hostname = getHostname u ∧
      r.port = getPort u ∧ r.pathname = pathText u ∧ r.path = getPath u ∧
      r.search = getSearch u ∧ r.hash = getHash u ∧
      r.serializeNoFragment = serialize u true ∧
      (RecShape u₀ → r.toRecord = u) := by
  intro idna calls u₀ r₀ hc ok hi h
  obtain ⟨k1, _, k3, _⟩ := C05d_history idna calls u₀ r₀ hc ok hi h
  rw [runRec_fst] at k1 k3
  obtain ⟨g1, g2, g3, g4, g5, g6, g7, g8, g9, g10, g11, g12⟩ := C05b_getters _ _ k3.1 k1
  exact ⟨g1, g2, g3, g4, g5, g6, g7, g8, g9, g10, g11, g12,
    fun sh => C05d_toRecord _ _ k3.1 (recShape_applySetters idna calls u₀ hc sh) k1⟩

/-- in particular from every URL the parser returns (its from-scratch layout is what `url::parse`
    leaves, up to `≈`): no hypothesis on the record is left, only `IdnaStable` of C02 on the IDNA
    parameter (through `C02_parse_norm`) -/
theorem C05d_history_parsed :
    ∀ (idna : Idna), Proofs.C02b.IdnaStable idna → ∀ (e₀ : Enc) (units₀ : List Nat) (u₀ : Url),
      parse idna e₀ units₀ none = some u₀ →
      ∀ calls : List Call, (∀ c ∈ calls, c.1 ≠ .href) →
      RepFor (runRep idna calls (layout u₀)).1 (applySetters idna u₀ calls) ∧
      (runRep idna calls (layout u₀)).2 = (runRec idna calls u₀).2 ∧
      (runRep idna calls (layout u₀)).1.toRecord = applySetters idna u₀ calls ∧
      (runRep idna calls (layout u₀)).1.href = serialize (applySetters idna u₀ calls) := by
  intro idna hi e₀ units₀ u₀ hp calls hc
  obtain ⟨ok, hinv, sh⟩ := C05d_norm_ok idna u₀ (C02_parse_norm idna hi e₀ units₀ none u₀ (Or.inl rfl) hp)
  obtain ⟨k1, k2⟩ := C05d_history_layout idna calls u₀ hc ok hinv
  have g := C05d_history_getters idna calls u₀ (layout u₀) hc ok hinv (C05b_layout u₀ ok.1)
  exact ⟨k1, k2, g.2.2.2.2.2.2.2.2.2.2.2.2 sh, g.1⟩

example : parse c05dIdna .u8 (asciiStr " HTTPS://user:pw@EXAMPLE.org:8080/x/../a/b?q=1#frag") none = some c05Full := by
  decide +kernel

/-- protocol "http", host "X.y:80" (default port: removed), pathname "/../c d/./e/..", search "?k=v w",
    hash "", username "", password "" ("@" dropped), port "0099", hostname "a:1" (refused) -/
def c05dCalls : List Call :=
  [(.protocol, .u8, asciiStr "http"), (.host, .u8, asciiStr "X.y:80"),
   (.pathname, .u8, asciiStr "/../c d/./e/.."), (.search, .u8, asciiStr "?k=v w"), (.hash, .u8, []),
   (.username, .u8, []), (.password, .u8, []), (.port, .u8, asciiStr "0099"),
   (.hostname, .u8, asciiStr "a:1")]

example : ∀ c ∈ c05dCalls, c.1 ≠ .href := by decide
example :
    (runRep c05dIdna c05dCalls (layout c05Full)).1.norm = asciiStr "http://x.y:99/c%20d/?k=v%20w" ∧
    (runRep c05dIdna c05dCalls (layout c05Full)).1.partEnd = [4, 7, 7, 7, 7, 10, 13, 13, 20, 28, 28] ∧
    (runRep c05dIdna c05dCalls (layout c05Full)).2 = [true, true, true, true, true, true, true, true, false] ∧
    (runRec c05dIdna c05dCalls c05Full).2 = [true, true, true, true, true, true, true, true, false] ∧
    (runRep c05dIdna c05dCalls (layout c05Full)).1.toRecord = applySetters c05dIdna c05Full c05dCalls ∧
    applySetters c05dIdna c05Full c05dCalls =
      { scheme := asciiStr "http", host := some ⟨.domain, asciiStr "x.y"⟩, port := some 99,
        path := [asciiStr "c%20d", []], query := some (asciiStr "k=v%20w") } := by decide +kernel
-- from a representation with never-started trailing parts (`s://h` as `url::parse` leaves it)
example :
    let calls : List Call := [(.port, .u8, asciiStr "8"), (.hash, .u8, asciiStr "#f"), (.port, .u8, [])]
    (runRep c05dIdna calls c05bHostOnlyRep).1.norm = asciiStr "s://h#f" ∧
    (runRep c05dIdna calls c05bHostOnlyRep).1.partEnd = [1, 4, 4, 4, 4, 5, 5, 5, 5, 5, 7] ∧
    RepFor (runRep c05dIdna calls c05bHostOnlyRep).1 (applySetters c05dIdna c05bHostOnly calls) := by
  decide +kernel

/-! ## 5. non-vacuity: the model bites -/

/-- the port setter WITHOUT `clear_part(PORT)` for the default port (url.h:1996-1999 dropped: the
    digits are always written) -/
def portSetterNoClear (e : Enc) (units : List Nat) (r : Rep) : Rep × Bool :=
  if r.canHaveUsernamePasswordPort then
    if units = [] then (clearPart r PORT, true)
    else
      let digits := (prep e units).takeWhile isDigit
      if digits ≠ [] then
        let d := stripLeadingZeros digits
        if d.length > 5 then (r, false)
        else if decimalValue d > 0xFFFF then (r, false)
        else (writePartFlag r PORT d, true)
      else (r, true)
  else (r, false)

/-- … agrees with the real one on "8081", but on "443" (the default port of https) it leaves
    `:443` in the string: not a representation of the record-level result -/
theorem C05d_bites_port_no_clear :
    portSetterNoClear .u8 (asciiStr "8081") (layout c05Full) =
      setRep c05dIdna .port .u8 (asciiStr "8081") (layout c05Full) ∧
    (setRep c05dIdna .port .u8 (asciiStr "443") (layout c05Full)).1.equiv
      (layout (setValid c05dIdna .port .u8 (asciiStr "443") c05Full).1) ∧
    (portSetterNoClear .u8 (asciiStr "443") (layout c05Full)).1.norm =
      asciiStr "https://user:pw@example.org:443/a/b?q=1#frag" ∧
    ¬ (portSetterNoClear .u8 (asciiStr "443") (layout c05Full)).1.equiv
      (layout (setValid c05dIdna .port .u8 (asciiStr "443") c05Full).1) := by decide +kernel

/-- the pathname setter WITHOUT `append_empty_path_segment()` at EOF with a null host
    (url.h:2178-2179 dropped) -/
def pathnameSetterNoAppend (e : Enc) (units : List Nat) (r : Rep) : Rep × Bool :=
  if !r.opaquePath then
    match prep e units with
    | [] => (commitPathBuf r {}, true)
    | p => pathStartStateRep r p
  else (r, false)

/-- … agrees with the real one on "/y", but on "" it turns `a:/.//x` into `a:` (which re-parses with
    an opaque path) where the record-level result is `a:/` -/
theorem C05d_bites_pathname_no_append :
    pathnameSetterNoAppend .u8 (asciiStr "/y") c05PrefixRep =
      setRep c05dIdna .pathname .u8 (asciiStr "/y") c05PrefixRep ∧
    (setRep c05dIdna .pathname .u8 [] c05PrefixRep).1.norm = asciiStr "a:/" ∧
    (setRep c05dIdna .pathname .u8 [] c05PrefixRep).1.equiv
      (layout (setValid c05dIdna .pathname .u8 [] c05Prefix).1) ∧
    (pathnameSetterNoAppend .u8 [] c05PrefixRep).1.norm = asciiStr "a:" ∧
    ¬ (pathnameSetterNoAppend .u8 [] c05PrefixRep).1.equiv
      (layout (setValid c05dIdna .pathname .u8 [] c05Prefix).1) := by decide +kernel

/-- the protocol setter WITHOUT the default-port reset (url.h:1690-1694 dropped) -/
theorem C05d_bites_protocol_no_port_reset :
    let u : Url := { c05Full with port := some 80 }
    let good := setRep c05dIdna .protocol .u8 (asciiStr "http") (layout u)
    let bad := saveScheme (layout u) (asciiStr "http")
    good.1.norm = asciiStr "http://user:pw@example.org/a/b?q=1#frag" ∧
    good.1.equiv (layout (setValid c05dIdna .protocol .u8 (asciiStr "http") u).1) ∧
    bad.norm = asciiStr "http://user:pw@example.org:80/a/b?q=1#frag" ∧
    ¬ bad.equiv (layout (setValid c05dIdna .protocol .u8 (asciiStr "http") u).1) := by decide +kernel

#print axioms C05d_setter
#print axioms C05d_setter_no_host
#print axioms C05d_setter_needs_file_host
#print axioms C05d_repok_preserved
#print axioms C05d_norm_ok
#print axioms C05d_repok_href
#print axioms C05d_toRecord
#print axioms C05d_toRecord_layout
#print axioms C05d_toRecord_needs_shape
#print axioms C05d_history
#print axioms C05d_history_layout
#print axioms C05d_history_getters
#print axioms C05d_history_parsed
#print axioms C05d_bites_port_no_clear
#print axioms C05d_bites_pathname_no_append
#print axioms C05d_bites_protocol_no_port_reset

end Upa.Props
