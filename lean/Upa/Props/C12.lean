import Upa.Proofs.Ipv6
import Upa.Proofs.Ipv6Parse
import Upa.Proofs.Ipv6Equiv
import Upa.Proofs.Ipv6Round
/-
  C12 — IPv6 parser / serializer: the code-shaped model (`Upa.Impl`, mirrors include/upa/url_ip.h
  `ipv6_parse` and src/url_ip.cpp `ipv6_serialize`) against the Standard (`Upa.Spec`).
-/
namespace Upa.Props
open Upa

/-! ### 1. serializer -/

/-- The C++ serializer (scan for the longest zero run with its "skip" behaviour, then print) produces
    the same text as the Standard's IPv6 serializer: the FIRST longest run of ≥ 2 zero pieces is
    compressed, runs of length 1 are not. -/
theorem C12_serialize : ∀ a : List Nat, a.length = 8 → (∀ x ∈ a, x < 65536) →
    Impl.ipv6Serialize a = Spec.ipv6Serialize a := by
  intro a h8 hx
  rcases Proofs.V6.serialize_form a h8 hx with ⟨h1, h2⟩ | ⟨pre, len, post, _, _, h1, h2⟩
  · rw [h1, h2]
  · rw [h1, h2]

-- hypotheses satisfiable, evaluated instances
example : ([1, 0, 0, 2, 0, 0, 0, 3] : List Nat).length = 8 ∧
    ∀ x ∈ ([1, 0, 0, 2, 0, 0, 0, 3] : List Nat), x < 65536 := by decide
example : Impl.ipv6Serialize [1, 0, 0, 2, 0, 0, 0, 3] = asciiStr "1:0:0:2::3" := by decide      -- longest run
example : Impl.ipv6Serialize [1, 0, 0, 2, 3, 0, 0, 3] = asciiStr "1::2:3:0:0:3" := by decide    -- first of equal runs
example : Impl.ipv6Serialize [0, 1, 0, 1, 0, 1, 0, 1] = asciiStr "0:1:0:1:0:1:0:1" := by decide -- runs of 1 stay
example : Impl.ipv6Serialize [0, 0, 0, 0, 0, 0, 0, 0] = asciiStr "::" := by decide
example : Impl.ipv6Serialize [1, 0, 0, 0, 0, 0, 0, 0] = asciiStr "1::" := by decide
example : Impl.ipv6Serialize [0, 0, 0, 0, 0, 0, 0, 1] = asciiStr "::1" := by decide
example : Spec.ipv6Serialize [0xabcd, 0x123, 0x10, 0, 0, 0, 0, 1] = asciiStr "abcd:123:10::1" := by decide

/-! ### 2. parser -/

/-- The C++ IPv6 parser (suffix based, bounded hex read, IPv4 tail after the main loop, pre-rejection
    of inputs shorter than 2, shift loop) computes exactly the Standard's IPv6 parser: failure on the
    same inputs, the same eight pieces otherwise. -/
theorem C12_parse : ∀ s : List Nat, Impl.ipv6Parse s = Spec.ipv6Parse s :=
  Proofs.V6.parse_eq

-- evaluated instances (both sides)
example : Impl.ipv6Parse (asciiStr "::") = some [0, 0, 0, 0, 0, 0, 0, 0] := by decide +kernel
example : Spec.ipv6Parse (asciiStr "::") = some [0, 0, 0, 0, 0, 0, 0, 0] := by decide +kernel
example : Impl.ipv6Parse (asciiStr "1::") = some [1, 0, 0, 0, 0, 0, 0, 0] := by decide +kernel
example : Impl.ipv6Parse (asciiStr "::1") = some [0, 0, 0, 0, 0, 0, 0, 1] := by decide +kernel
example : Impl.ipv6Parse (asciiStr "1:2:3:4:5:6:7:8") = some [1, 2, 3, 4, 5, 6, 7, 8] := by decide +kernel
example : Impl.ipv6Parse (asciiStr "::ffff:1.2.3.4") = some [0, 0, 0, 0, 0, 0xffff, 0x102, 0x304] := by
  decide +kernel
example : Spec.ipv6Parse (asciiStr "::ffff:1.2.3.4") = some [0, 0, 0, 0, 0, 0xffff, 0x102, 0x304] := by
  decide +kernel
example : Impl.ipv6Parse (asciiStr "1:2:3:4:5:6:1.2.3.4") = some [1, 2, 3, 4, 5, 6, 0x102, 0x304] := by
  decide +kernel
example : Impl.ipv6Parse (asciiStr "1::2::3") = none := by decide +kernel        -- two compressions
example : Spec.ipv6Parse (asciiStr "1::2::3") = none := by decide +kernel
example : Impl.ipv6Parse (asciiStr "1:2:3:4:5:6:7") = none := by decide +kernel  -- too few pieces
example : Spec.ipv6Parse (asciiStr "1:2:3:4:5:6:7") = none := by decide +kernel
example : Impl.ipv6Parse (asciiStr ":") = none ∧ Spec.ipv6Parse (asciiStr ":") = none := by decide +kernel
example : Impl.ipv6Parse (asciiStr "::1.2.3.256") = none := by decide +kernel    -- IPv4 part out of range
example : Impl.ipv6Parse (asciiStr "::01.2.3.4") = none := by decide +kernel     -- leading zero in IPv4 part
example : Impl.ipv6Parse (asciiStr "12345::") = none := by decide +kernel        -- more than 4 hex digits

/-! ### 3. round trip -/

/-- Parsing the serialization of ANY address (eight 16-bit pieces) gives the address back. -/
theorem C12_roundtrip : ∀ a : List Nat, a.length = 8 → (∀ x ∈ a, x < 65536) →
    Impl.ipv6Parse (Impl.ipv6Serialize a) = some a := by
  intro a h8 hx
  rcases Proofs.V6.serialize_form a h8 hx with ⟨h1, _⟩ | ⟨pre, len, post, ha, hlen, h1, _⟩
  · rw [h1]
    exact Proofs.V6.parse_joinC a h8 hx
  · rw [h1]
    have hl : pre.length + len + post.length = 8 := by
      have := congrArg List.length ha
      simp at this; omega
    have hpre : ∀ x ∈ pre, x < 65536 := fun x h => hx x (by rw [ha]; simp [h])
    have hpost : ∀ x ∈ post, x < 65536 := fun x h => hx x (by rw [ha]; simp [h])
    rw [Proofs.V6.parse_compressed pre post len hl hlen hpre hpost, ← ha]

example : Impl.ipv6Parse (Impl.ipv6Serialize [1, 0, 0, 2, 0, 0, 0, 3]) = some [1, 0, 0, 2, 0, 0, 0, 3] :=
  C12_roundtrip _ (by decide) (by decide)
example : Impl.ipv6Parse (Impl.ipv6Serialize [0, 0, 0, 0, 0, 0xffff, 0x102, 0x304]) =
    some [0, 0, 0, 0, 0, 0xffff, 0x102, 0x304] := by decide +kernel
example : Impl.ipv6Serialize [0, 0, 0, 0, 0, 0xffff, 0x102, 0x304] = asciiStr "::ffff:102:304" := by decide

/-! ### 4. range of the parser's result -/

/-- A successful parse yields exactly eight pieces, each a 16-bit value. -/
theorem C12_parse_range : ∀ s a, Impl.ipv6Parse s = some a → a.length = 8 ∧ ∀ x ∈ a, x < 65536 :=
  fun s a h => Proofs.V6.parse_good s a h

example : ∃ a, Impl.ipv6Parse (asciiStr "ffff:FFFF::255.255.255.255") = some a ∧ a.length = 8 ∧
    ∀ x ∈ a, x < 65536 :=
  ⟨[0xffff, 0xffff, 0, 0, 0, 0, 0xffff, 0xffff], by decide +kernel, by decide, by decide⟩

#print axioms C12_serialize
#print axioms C12_parse
#print axioms C12_roundtrip
#print axioms C12_parse_range

end Upa.Props
