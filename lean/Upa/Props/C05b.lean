import Upa.Proofs.SetRep
import Upa.Props.C05
/-
  C05b — the IN-PLACE edits of the stored representation by `detail::url_setter`
  (include/upa/url.h:2809-3008, on top of `url_serializer::replace_part` etc., url.h:2545-2806)
  commute with the from-scratch layout: editing the representation of a record `u` in place gives
  the representation of the edited record, up to the two encodings (`0` / string length) of the
  offsets of trailing parts that were never started.

  Operational model: `Upa/Impl/SetRep.lean` (`replacePart`, `setStartPart`/`setSavePart` = `writePart`,
  `clearPart`, `emptyHostRep`, `hostDone`/`writeHost`, `setEmptyHost`, `commitPath` with
  `adjustPathPrefix`, `saveScheme`, `stripTrailingSpacesRep`).

  `Rep.equiv a b` (`≈`): same string, flags, host type, segment count, scheme index, and the same
  offsets after replacing trailing zeros by the string length.
  `Rep.wf r`: 11 offsets; a zero offset follows only a zero offset or an offset equal to the string
  length; `pe HOST ≠ 0`; `portNotNull → pe PORT ≠ 0`.  (Without `wf`, `≈` does NOT preserve the
  getters, see `C05b_equiv_getters_needs_wf`.)

  `RepFor r u := r ≈ layout u ∧ r.wf` — "r is a representation of the record u".  Every theorem has
  the shape  `RepOk u → (guards of the C++ setter) → RepFor r u → RepFor (op r) u'`;
  `layout u` itself is such an `r` (`C05b_layout`), which gives the `layout`-to-`layout` corollaries.

  `RepOk u` (decidable, `Proofs/SetRep.lean`):
     RecWF u                                               (scheme ≠ "", null host ⇒ no credentials/port)
   ∧ (u.host = none → u.hasOpaquePath = false → u.path ≠ [])   (no "scheme:" with an empty list path)
   ∧ (u.hasOpaquePath = true → u.host = none)
-/
namespace Upa.Props
open Upa Upa.Impl Upa.Proofs.C05 Upa.Proofs.SetRep

/-- `r` is a (well-formed) representation of the record `u` -/
def RepFor (r : Rep) (u : Url) : Prop := r.equiv (layout u) ∧ r.wf

instance (r : Rep) (u : Url) : Decidable (RepFor r u) := by unfold RepFor; infer_instance

theorem repFor_iff (u : Url) (wf : RecWF u) (r : Rep) : RepFor r u ↔ Represents r u :=
  (represents_iff u wf r).symm

/-! ### concrete records -/

/-- a:/.//x with the offsets of QUERY and FRAGMENT never started, as `url::parse` leaves them -/
def c05PrefixRep : Rep := { layout c05Prefix with partEnd := [1, 2, 2, 2, 2, 2, 2, 4, 7, 0, 0] }

/-- s://h as `url::parse` leaves it: nothing after HOST was started -/
def c05bHostOnly : Url := { scheme := asciiStr "s", host := some ⟨.opaque, asciiStr "h"⟩ }
def c05bHostOnlyRep : Rep := { layout c05bHostOnly with partEnd := [1, 4, 4, 4, 4, 5, 0, 0, 0, 0, 0] }

/-- mailto:x␠␠ (opaque path with trailing spaces, no query, no fragment) -/
def c05bMail : Url :=
  { scheme := asciiStr "mailto", hasOpaquePath := true, opaquePath := asciiStr "x  " }

example : RepOk c05Full ∧ RepOk c05Prefix ∧ RepOk c05Opaque ∧ RepOk c05UserOnly ∧ RepOk c05bHostOnly ∧
    RepOk c05bMail := by decide
example : RepFor c05PrefixRep c05Prefix ∧ RepFor c05bHostOnlyRep c05bHostOnly ∧
    c05PrefixRep ≠ layout c05Prefix ∧ c05bHostOnlyRep ≠ layout c05bHostOnly := by decide

/-! ## 0. the layout represents its record; `≈` and the getters -/

theorem C05b_layout : ∀ u : Url, RecWF u → RepFor (layout u) u := fun u wf =>
  represents_equiv u wf (represents_layout u wf.1)

/-- `≈` preserves every getter of `Impl/Rep.lean`, on well-formed offset tables -/
theorem C05b_equiv_getters : ∀ a b : Rep, a.equiv b → a.wf → b.wf →
    a.href = b.href ∧ a.protocol = b.protocol ∧ a.username = b.username ∧
    a.password = b.password ∧ a.host = b.host ∧ a.hostname = b.hostname ∧
    a.port = b.port ∧ a.pathname = b.pathname ∧ a.path = b.path ∧
    a.search = b.search ∧ a.hash = b.hash ∧
    a.serializeNoFragment = b.serializeNoFragment := equiv_getters

/-- `wf` is needed: with the text of a query in the string but the QUERY offset still `0`, the
    representation is `≈` to the layout and `search()` / `path()` differ (the C++ never produces
    this: `save_part` sets the offset of every part it wrote) -/
theorem C05b_equiv_getters_needs_wf :
    let a : Rep := { layout c05Opaque with partEnd := [6, 7, 7, 7, 7, 7, 7, 7, 10, 0, 0] }
    a.equiv (layout c05Opaque) ∧ ¬ a.wf ∧ a.path ≠ (layout c05Opaque).path := by decide

/-- the getters on any representation of `u` are the record-level getters -/
theorem C05b_getters : ∀ (u : Url) (r : Rep), RecWF u → RepFor r u →
    r.href = serialize u ∧ r.protocol = getProtocol u ∧ r.username = u.username ∧
    r.password = u.password ∧ r.host = getHost u ∧ r.hostname = getHostname u ∧
    r.port = getPort u ∧ r.pathname = pathText u ∧ r.path = getPath u ∧
    r.search = getSearch u ∧ r.hash = getHash u ∧
    r.serializeNoFragment = serialize u true := fun u r wf h => by
  obtain ⟨g1, g2, g3, g4, g5, g6, g7, g8, g9, g10, g11, g12⟩ :=
    equiv_getters r (layout u) h.1 h.2 (C05b_layout u wf).2
  obtain ⟨c1, c2, c3, c4, c5, c6, c7, c8, c9, c10, c11⟩ := C05_getters u wf
  exact ⟨g1.trans (C05_layout_href u), g2.trans c1, g3.trans c2, g4.trans c3, g5.trans c4,
    g6.trans c5, g7.trans c6, g8.trans c7, g9.trans c8, g10.trans c9, g11.trans c10, g12.trans c11⟩

example :
    c05bHostOnlyRep.host = asciiStr "h" ∧ c05bHostOnlyRep.port = [] ∧ c05bHostOnlyRep.pathname = [] ∧
    c05bHostOnlyRep.path = [] ∧ c05bHostOnlyRep.search = [] ∧
    c05bHostOnlyRep.serializeNoFragment = asciiStr "s://h" := by decide

/-! ## 1. query, fragment, port -/

theorem C05b_write_query : ∀ (u : Url) (q : List Nat) (r : Rep), RepOk u → RepFor r u →
    RepFor (writePartFlag r QUERY q) { u with query := some q } := fun u q r ok h => by
  have wf' : RecWF { u with query := some q } := ok.1
  exact represents_equiv _ wf' (write_query u q ((repFor_iff u ok.1 r).mp h))

theorem C05b_clear_query : ∀ (u : Url) (r : Rep), RepOk u → RepFor r u →
    RepFor (clearPart r QUERY) { u with query := none } := fun u r ok h => by
  have wf' : RecWF { u with query := none } := ok.1
  exact represents_equiv _ wf' (clear_query u ((repFor_iff u ok.1 r).mp h))

theorem C05b_write_fragment : ∀ (u : Url) (f : List Nat) (r : Rep), RepOk u → RepFor r u →
    RepFor (writePartFlag r FRAGMENT f) { u with fragment := some f } := fun u f r ok h => by
  have wf' : RecWF { u with fragment := some f } := ok.1
  exact represents_equiv _ wf' (write_fragment u f ((repFor_iff u ok.1 r).mp h))

theorem C05b_clear_fragment : ∀ (u : Url) (r : Rep), RepOk u → RepFor r u →
    RepFor (clearPart r FRAGMENT) { u with fragment := none } := fun u r ok h => by
  have wf' : RecWF { u with fragment := none } := ok.1
  exact represents_equiv _ wf' (clear_fragment u ((repFor_iff u ok.1 r).mp h))

/-- the port block of the parser (url.h:1990-1995): `start_part(PORT)`, digits, `save_part`, flag -/
theorem C05b_write_port : ∀ (u : Url) (p : Nat) (r : Rep), RepOk u → u.host.isSome → RepFor r u →
    RepFor (writePartFlag r PORT (toDecimal p)) { u with port := some p } := fun u p r ok hh h => by
  have wf' : RecWF { u with port := some p } :=
    ⟨ok.1.1, fun hn => by rw [show ({ u with port := some p } : Url).host = u.host from rfl] at hn
                          rw [hn] at hh; simp at hh⟩
  exact represents_equiv _ wf' (write_port u p ((repFor_iff u ok.1 r).mp h) hh)

theorem C05b_clear_port : ∀ (u : Url) (r : Rep), RepOk u → RepFor r u →
    RepFor (clearPart r PORT) { u with port := none } := fun u r ok h => by
  have wf' : RecWF { u with port := none } :=
    ⟨ok.1.1, fun hn => ⟨(ok.1.2 hn).1, (ok.1.2 hn).2.1, rfl⟩⟩
  exact represents_equiv _ wf' (clear_port u ok.1 ((repFor_iff u ok.1 r).mp h))

-- evaluated: https://user:pw@example.org:8080/a/b?q=1#frag
example : (writePartFlag (layout c05Full) QUERY (asciiStr "zz")).norm =
      asciiStr "https://user:pw@example.org:8080/a/b?zz#frag" ∧
    (writePartFlag (layout c05Full) QUERY (asciiStr "zz")).partEnd =
      [5, 8, 12, 15, 16, 27, 32, 32, 36, 39, 44] := by decide
example : (writePartFlag (layout c05Full) FRAGMENT []).norm =
      asciiStr "https://user:pw@example.org:8080/a/b?q=1#" ∧
    (clearPart (layout c05Full) FRAGMENT).norm = asciiStr "https://user:pw@example.org:8080/a/b?q=1" ∧
    (clearPart (layout c05Full) FRAGMENT).partEnd = [5, 8, 12, 15, 16, 27, 32, 32, 36, 40, 40] ∧
    (clearPart (layout c05Full) FRAGMENT).fragmentNotNull = false := by decide
-- the fragment is the last part: it is cut off and re-serialised, its offset restarts from 0
example : (writePartFlag (clearPart (layout c05Full) FRAGMENT) QUERY (asciiStr "y")).partEnd =
      [5, 8, 12, 15, 16, 27, 32, 32, 36, 38, 0] ∧
    (writePartFlag (clearPart (layout c05Full) FRAGMENT) QUERY (asciiStr "y")).norm =
      asciiStr "https://user:pw@example.org:8080/a/b?y" := by decide
example : (clearPart (layout c05Full) PORT).norm = asciiStr "https://user:pw@example.org/a/b?q=1#frag" ∧
    (clearPart (layout c05Full) PORT).partEnd = [5, 8, 12, 15, 16, 27, 27, 27, 31, 35, 40] ∧
    (writePartFlag (layout c05Full) PORT (toDecimal 9)).norm =
      asciiStr "https://user:pw@example.org:9/a/b?q=1#frag" := by decide
-- parts that were never started: `find_last_part`, then the skipped offsets are filled
example : (writePartFlag c05bHostOnlyRep QUERY (asciiStr "8")).norm = asciiStr "s://h?8" ∧
    (writePartFlag c05bHostOnlyRep QUERY (asciiStr "8")).partEnd = [1, 4, 4, 4, 4, 5, 5, 5, 5, 7, 0] ∧
    (writePartFlag c05bHostOnlyRep PORT (toDecimal 8)).norm = asciiStr "s://h:8" ∧
    (writePartFlag c05bHostOnlyRep PORT (toDecimal 8)).partEnd = [1, 4, 4, 4, 4, 5, 7, 0, 0, 0, 0] ∧
    clearPart c05bHostOnlyRep PORT = c05bHostOnlyRep := by decide

/-! ## 2. username, password (`canHaveUsernamePasswordPort`: the host is non-empty) -/

theorem C05b_write_username : ∀ (u : Url) (t : List Nat) (r : Rep) (x : Host), RepOk u →
    u.host = some x → x.text ≠ [] → RepFor r u →
    RepFor (writePart r USERNAME t) { u with username := t } := fun u t r x ok hh hx h => by
  have wf' : RecWF { u with username := t } :=
    ⟨ok.1.1, fun hn => by rw [show ({ u with username := t } : Url).host = u.host from rfl, hh] at hn
                          simp at hn⟩
  exact represents_equiv _ wf' (write_username u t ((repFor_iff u ok.1 r).mp h) hh hx)

theorem C05b_write_password : ∀ (u : Url) (t : List Nat) (r : Rep) (x : Host), RepOk u →
    u.host = some x → x.text ≠ [] → RepFor r u →
    RepFor (writePart r PASSWORD t) { u with password := t } := fun u t r x ok hh hx h => by
  have wf' : RecWF { u with password := t } :=
    ⟨ok.1.1, fun hn => by rw [show ({ u with password := t } : Url).host = u.host from rfl, hh] at hn
                          simp at hn⟩
  exact represents_equiv _ wf' (write_password u t ((repFor_iff u ok.1 r).mp h) hh hx)

example : (writePart (layout c05Full) USERNAME (asciiStr "bob")).norm =
      asciiStr "https://bob:pw@example.org:8080/a/b?q=1#frag" ∧
    (writePart (layout c05Full) USERNAME (asciiStr "bob")).partEnd =
      [5, 8, 11, 14, 15, 26, 31, 31, 35, 39, 44] := by decide
-- "@" removed when both become empty, inserted when credentials appear
example :
    let r1 := writePart (layout c05Full) USERNAME []
    let r2 := writePart r1 PASSWORD []
    let r3 := writePart r2 PASSWORD (asciiStr "pp")
    r1.norm = asciiStr "https://:pw@example.org:8080/a/b?q=1#frag" ∧
    r2.norm = asciiStr "https://example.org:8080/a/b?q=1#frag" ∧
    r2.partEnd = [5, 8, 8, 8, 8, 19, 24, 24, 28, 32, 37] ∧
    r3.norm = asciiStr "https://:pp@example.org:8080/a/b?q=1#frag" ∧
    r3.partEnd = [5, 8, 8, 11, 12, 23, 28, 28, 32, 36, 41] := by decide
example : (writePart c05bHostOnlyRep USERNAME (asciiStr "u")).norm = asciiStr "s://u@h" ∧
    (writePart c05bHostOnlyRep USERNAME (asciiStr "u")).partEnd = [1, 4, 5, 5, 6, 7, 0, 0, 0, 0, 0] := by
  decide

/-- the hypothesis "host non-empty" is needed (and is the guard of `url::username`): on `s://` the
    USERNAME part is the last one, it is re-serialised through `url_serializer::start_part`, and no
    "@" is written -/
theorem C05b_username_empty_host_counterexample :
    let u : Url := { scheme := asciiStr "s", host := some ⟨.empty, []⟩ }
    RepOk u ∧ (writePart (layout u) USERNAME (asciiStr "u")).norm = asciiStr "s://u" ∧
    (layout { u with username := asciiStr "u" }).norm = asciiStr "s://u@" ∧
    ¬ (writePart (layout u) USERNAME (asciiStr "u")).equiv (layout { u with username := asciiStr "u" }) := by
  decide

/-! ## 3. host (`!has_opaque_path()`) -/

/-- `hostStart()`; serialised host; `hostDone(ht)`.  Includes null → non-null ("//" inserted through
    `replace_part(HOST, "://" + host, SCHEME_SEP, 3)`, "/." removed) -/
theorem C05b_write_host : ∀ (u : Url) (hd : Host) (r : Rep), RepOk u → u.hasOpaquePath = false →
    RepFor r u →
    RepFor (writeHost r hd.text (hostKindCode hd.kind)) { u with host := some hd } :=
  fun u hd r ok ho h => by
  have wf' : RecWF { u with host := some hd } := ⟨ok.1.1, fun hn => by simp at hn⟩
  exact represents_equiv _ wf' (write_host u hd ok ((repFor_iff u ok.1 r).mp h) ho)

/-- `set_empty_host()` of the file host state (the host of a file URL is never null) -/
theorem C05b_set_empty_host : ∀ (u : Url) (r : Rep), RepOk u → u.host.isSome → RepFor r u →
    RepFor (setEmptyHost r) { u with host := some emptyHost } := fun u r ok hh h => by
  have wf' : RecWF { u with host := some emptyHost } := ⟨ok.1.1, fun hn => by simp at hn⟩
  exact represents_equiv _ wf' (set_empty_host u ((repFor_iff u ok.1 r).mp h) hh)

/-- `url_setter::empty_host()` ("localhost" in a file URL) -/
theorem C05b_empty_host : ∀ (u : Url) (r : Rep), RepOk u → u.host.isSome → RepFor r u →
    RepFor (emptyHostRep r) { u with host := some emptyHost } := fun u r ok hh h => by
  have wf' : RecWF { u with host := some emptyHost } := ⟨ok.1.1, fun hn => by simp at hn⟩
  exact represents_equiv _ wf' (empty_host u ((repFor_iff u ok.1 r).mp h) hh)

-- a:/.//x, host := h  ⟶  a://h//x
example : (writeHost c05PrefixRep (asciiStr "h") 2).norm = asciiStr "a://h//x" ∧
    (writeHost c05PrefixRep (asciiStr "h") 2).partEnd = [1, 4, 4, 4, 4, 5, 5, 5, 8, 0, 0] ∧
    (writeHost c05PrefixRep (asciiStr "h") 2).hostNotNull = true ∧
    (writeHost c05PrefixRep (asciiStr "h") 2).hostType = 2 := by decide
example : (writeHost (layout c05Full) (asciiStr "h") 2).norm = asciiStr "https://user:pw@h:8080/a/b?q=1#frag" ∧
    (writeHost c05bHostOnlyRep (asciiStr "hh") 1).norm = asciiStr "s://hh" ∧
    (writeHost c05bHostOnlyRep (asciiStr "hh") 1).partEnd = [1, 4, 4, 4, 4, 6, 0, 0, 0, 0, 0] ∧
    (emptyHostRep (layout c05Full)).norm = asciiStr "https://user:pw@:8080/a/b?q=1#frag" := by decide

/-- the second conjunct of `RepOk` is needed: on a record with a null host and an EMPTY list path
    ("a:", which no parse produces: the path of a host-less non-opaque URL has at least one segment)
    HOST is the last part, `url_setter::start_part` re-serialises it through
    `url_serializer::start_part` with `last_pt_ = HOST_START`, and "//" is not written -/
theorem C05b_host_null_empty_path_counterexample :
    let u : Url := { scheme := asciiStr "a" }
    RecWF u ∧ ¬ RepOk u ∧ (writeHost (layout u) (asciiStr "h") 1).norm = asciiStr "a:h" ∧
    (layout { u with host := some ⟨.opaque, asciiStr "h"⟩ }).norm = asciiStr "a://h" := by decide

/-! ## 4. path (`commit_path`, list paths) -/

/-- `commit_path()` with the segments accumulated in `strp_`.  `hp`: the first segment does not start
    with "/" (segments are split at "/"); it is needed because the C++ decides on the "/." prefix
    from the first two characters of the serialised path (`C05b_path_slash_segment_counterexample`) -/
theorem C05b_commit_path : ∀ (u : Url) (p : List (List Nat)) (r : Rep), RepOk u →
    u.hasOpaquePath = false → p.head?.bind List.head? ≠ some 0x2F → RepFor r u →
    RepFor (commitPath r (pathText { u with path := p }) p.length) { u with path := p } :=
  fun u p r ok ho hp h => by
  have wf' : RecWF { u with path := p } := ok.1
  exact represents_equiv _ wf' (commit_path u p ((repFor_iff u ok.1 r).mp h) ho hp)

-- a:/.//x, pathname := /a ⟶ a:/a ("/." removed); then pathname := //a ⟶ a:/.//a ("/." inserted)
example :
    let r1 := commitPath c05PrefixRep (asciiStr "/a") 1
    let r2 := commitPath r1 (asciiStr "//a") 2
    r1.norm = asciiStr "a:/a" ∧ r1.partEnd = [1, 2, 2, 2, 2, 2, 2, 2, 4, 0, 0] ∧ r1.segCount = 1 ∧
    r2.norm = asciiStr "a:/.//a" ∧ r2.partEnd = [1, 2, 2, 2, 2, 2, 2, 4, 7, 0, 0] ∧ r2.segCount = 2 := by
  decide
example : (commitPath c05bHostOnlyRep (asciiStr "/a") 1).norm = asciiStr "s://h/a" ∧
    (commitPath c05bHostOnlyRep (asciiStr "/a") 1).partEnd = [1, 4, 4, 4, 4, 5, 5, 5, 7, 0, 0] ∧
    (commitPath (layout c05Full) (asciiStr "//x") 2).norm =
      asciiStr "https://user:pw@example.org:8080//x?q=1#frag" := by decide

/-- the buffer of the setter while the path is rebuilt: after pushing the segments of `p`
    (`start_path_segment`/`save_path_segment`) `strp_` is the serialised path and `path_seg_end_` has
    one entry per segment; `url_setter::shorten_path` acts on it as `url::get_shorten_path`
    ("shorten a URL's path") acts on the record; and `commit_path` on the buffer is the `commitPath`
    of `C05b_commit_path` -/
theorem C05b_path_buffer : ∀ (u : Url) (p : List (List Nat)),
    (PathBuf.ofPath p).strp = p.flatMap (fun seg => 0x2F :: seg) ∧
    (PathBuf.ofPath p).segEnd.length = p.length ∧
    (PathBuf.ofPath u.path).shorten u.isFile = PathBuf.ofPath (shortenPath u).path ∧
    (u.hasOpaquePath = false → ∀ r : Rep,
      commitPathBuf r (PathBuf.ofPath p) = commitPath r (pathText { u with path := p }) p.length) :=
  fun u p => by
  refine ⟨?_, ?_, shorten_ofPath u, fun ho r => commitPathBuf_ofPath r u p ho⟩
  · rw [ofPath_eq, slashed_flatten]
  · rw [ofPath_eq]; simp [slashed]

example : PathBuf.ofPath [asciiStr "a", asciiStr "bc"] = { strp := asciiStr "/a/bc", segEnd := [2, 5] } ∧
    (PathBuf.ofPath [asciiStr "a", asciiStr "bc"]).shorten false = { strp := asciiStr "/a", segEnd := [2] } ∧
    (PathBuf.ofPath [asciiStr "C:"]).shorten true = PathBuf.ofPath [asciiStr "C:"] ∧
    (PathBuf.ofPath [asciiStr "C:"]).shorten false = {} ∧
    (commitPathBuf c05PrefixRep (PathBuf.ofPath [[], asciiStr "a"])).norm = asciiStr "a:/.//a" := by
  decide

theorem C05b_path_slash_segment_counterexample :
    let p : List (List Nat) := [asciiStr "/x", asciiStr "y"]
    RepOk c05Prefix ∧
    (commitPath (layout c05Prefix) (pathText { c05Prefix with path := p }) p.length).norm =
      asciiStr "a:/.//x/y" ∧
    (layout { c05Prefix with path := p }).norm = asciiStr "a://x/y" := by decide

/-! ## 5. scheme -/

theorem C05b_save_scheme : ∀ (u : Url) (s : List Nat) (r : Rep), RepOk u → s ≠ [] → RepFor r u →
    RepFor (saveScheme r s) { u with scheme := s } := fun u s r ok hs h => by
  have wf' : RecWF { u with scheme := s } := ⟨hs, ok.1.2⟩
  exact represents_equiv _ wf' (save_scheme u s ((repFor_iff u ok.1 r).mp h) hs)

example : (saveScheme (layout c05Full) (asciiStr "http")).norm =
      asciiStr "http://user:pw@example.org:8080/a/b?q=1#frag" ∧
    (saveScheme (layout c05Full) (asciiStr "http")).partEnd = [4, 7, 11, 14, 15, 26, 31, 31, 35, 39, 44] ∧
    (saveScheme (layout c05Full) (asciiStr "http")).schemeIdx = some 3 ∧
    (saveScheme c05PrefixRep (asciiStr "bc")).partEnd = [2, 3, 3, 3, 3, 3, 3, 5, 8, 0, 0] := by decide

/-! ## 6. potentially strip trailing spaces from an opaque path -/

theorem C05b_strip_trailing_spaces : ∀ (u : Url) (r : Rep), RepOk u → RepFor r u →
    RepFor (stripTrailingSpacesRep r) (stripTrailingSpaces u) := fun u r ok h => by
  have wf' : RecWF (stripTrailingSpaces u) := by
    unfold stripTrailingSpaces; split
    · exact ok.1
    · exact ok.1
  exact represents_equiv _ wf' (strip_spaces u ok ((repFor_iff u ok.1 r).mp h))

example : (layout c05bMail).norm = asciiStr "mailto:x  " ∧
    (stripTrailingSpacesRep (layout c05bMail)).norm = asciiStr "mailto:x" ∧
    (stripTrailingSpacesRep (layout c05bMail)).partEnd = [6, 7, 7, 7, 7, 7, 7, 7, 8, 8, 8] ∧
    stripTrailingSpacesRep (layout c05Opaque) = layout c05Opaque := by decide
-- the search setter with "": clear_part(QUERY), then strip
example :
    let u : Url := { c05bMail with query := some (asciiStr "q") }
    (stripTrailingSpacesRep (clearPart (layout u) QUERY)).norm = asciiStr "mailto:x" ∧
    (stripTrailingSpacesRep (clearPart (layout u) QUERY)).equiv
      (layout (stripTrailingSpaces { u with query := none })) := by decide

/-! ## 7. the `layout`-to-`layout` corollaries -/

theorem C05b_layout_to_layout : ∀ u : Url, RepOk u →
    (∀ q, (writePartFlag (layout u) QUERY q).equiv (layout { u with query := some q })) ∧
    (clearPart (layout u) QUERY).equiv (layout { u with query := none }) ∧
    (∀ f, (writePartFlag (layout u) FRAGMENT f).equiv (layout { u with fragment := some f })) ∧
    (clearPart (layout u) FRAGMENT).equiv (layout { u with fragment := none }) ∧
    (clearPart (layout u) PORT).equiv (layout { u with port := none }) ∧
    (stripTrailingSpacesRep (layout u)).equiv (layout (stripTrailingSpaces u)) ∧
    (∀ s, s ≠ [] → (saveScheme (layout u) s).equiv (layout { u with scheme := s })) ∧
    (u.hasOpaquePath = false →
      (∀ hd : Host, (writeHost (layout u) hd.text (hostKindCode hd.kind)).equiv
        (layout { u with host := some hd })) ∧
      (∀ p : List (List Nat), p.head?.bind List.head? ≠ some 0x2F →
        (commitPath (layout u) (pathText { u with path := p }) p.length).equiv
          (layout { u with path := p }))) ∧
    (u.host.isSome →
      (∀ p, (writePartFlag (layout u) PORT (toDecimal p)).equiv (layout { u with port := some p })) ∧
      (setEmptyHost (layout u)).equiv (layout { u with host := some emptyHost }) ∧
      (emptyHostRep (layout u)).equiv (layout { u with host := some emptyHost })) ∧
    (∀ x : Host, u.host = some x → x.text ≠ [] →
      (∀ t, (writePart (layout u) USERNAME t).equiv (layout { u with username := t })) ∧
      (∀ t, (writePart (layout u) PASSWORD t).equiv (layout { u with password := t }))) :=
  fun u ok => by
  have h0 := C05b_layout u ok.1
  exact ⟨fun q => (C05b_write_query u q _ ok h0).1, (C05b_clear_query u _ ok h0).1,
    fun f => (C05b_write_fragment u f _ ok h0).1, (C05b_clear_fragment u _ ok h0).1,
    (C05b_clear_port u _ ok h0).1, (C05b_strip_trailing_spaces u _ ok h0).1,
    fun s hs => (C05b_save_scheme u s _ ok hs h0).1,
    fun ho => ⟨fun hd => (C05b_write_host u hd _ ok ho h0).1,
      fun p hp => (C05b_commit_path u p _ ok ho hp h0).1⟩,
    fun hh => ⟨fun p => (C05b_write_port u p _ ok hh h0).1, (C05b_set_empty_host u _ ok hh h0).1,
      (C05b_empty_host u _ ok hh h0).1⟩,
    fun x hh hx => ⟨fun t => (C05b_write_username u t _ x ok hh hx h0).1,
      fun t => (C05b_write_password u t _ x ok hh hx h0).1⟩⟩

/-- after an edit the getters are those of the edited record (one instance; the same holds for every
    operation above, by `C05b_getters`) -/
theorem C05b_getters_after_write_username : ∀ (u : Url) (t : List Nat) (r : Rep) (x : Host), RepOk u →
    u.host = some x → x.text ≠ [] → RepFor r u →
    let r' := writePart r USERNAME t
    let u' : Url := { u with username := t }
    r'.href = serialize u' ∧ r'.username = t ∧ r'.password = u.password ∧ r'.host = getHost u ∧
    r'.pathname = pathText u ∧ r'.search = getSearch u ∧ r'.hash = getHash u :=
  fun u t r x ok hh hx h => by
  have wf' : RecWF { u with username := t } :=
    ⟨ok.1.1, fun hn => by rw [show ({ u with username := t } : Url).host = u.host from rfl, hh] at hn
                          simp at hn⟩
  obtain ⟨g1, _, g3, g4, g5, _, _, g8, _, g10, g11, _⟩ :=
    C05b_getters _ _ wf' (C05b_write_username u t r x ok hh hx h)
  exact ⟨g1, g3, g4, g5, g8, g10, g11⟩

/-! ## 8. non-vacuity: the model bites -/

/-- `replace_part` WITHOUT the shift of the later offsets (url.h:2800-2804 deleted) -/
def replacePartNoShift (r : Rep) (lastPt firstPt : Nat) (str : List Nat) (len0 : Nat) : Rep :=
  let b := r.partPos firstPt
  let l := r.pe lastPt - b
  { r with norm := r.norm.take b ++ str ++ r.norm.drop (b + l),
           partEnd := fillRange r.partEnd firstPt lastPt (b + len0) }

/-- … then clearing the query of https://user:pw@example.org:8080/a/b?q=1#frag leaves stale QUERY
    and FRAGMENT offsets: not a representation of the new record -/
theorem C05b_bites_no_shift :
    let bad := (replacePartNoShift (layout c05Full) QUERY QUERY [] 0).setNull QUERY
    let good := clearPart (layout c05Full) QUERY
    good.equiv (layout { c05Full with query := none }) ∧
    bad.norm = good.norm ∧ bad.partEnd = [5, 8, 12, 15, 16, 27, 32, 32, 36, 40, 45] ∧
    good.partEnd = [5, 8, 12, 15, 16, 27, 32, 32, 36, 36, 41] ∧
    ¬ bad.equiv (layout { c05Full with query := none }) ∧ bad.hash ≠ asciiStr "#frag" := by decide

/-- `commit_path` that forgets `path_segment_count_` (url.h:2947 deleted) -/
def commitPathNoCount (r : Rep) (pathText : List Nat) : Rep :=
  let r1 := { r with partEnd := fillUnsetDown r.partEnd r.norm.length PATH }
  adjustPathPrefix (replacePart1 r1 PATH pathText)

theorem C05b_bites_no_count :
    let u' : Url := { c05Prefix with path := [asciiStr "a"] }
    (commitPath c05PrefixRep (pathText u') 1).equiv (layout u') ∧
    ¬ (commitPathNoCount c05PrefixRep (pathText u')).equiv (layout u') ∧
    -- and the stale count makes the next "/." decision wrong: a:/a with pathname //b needs "/."
    (commitPathNoCount c05PrefixRep (asciiStr "/a")).segCount = 2 := by decide

/-- `≈` is not the total relation on representations of the same string: only TRAILING zeros are
    identified with the string length -/
example :
    ¬ (layout c05Full).equiv { layout c05Full with partEnd := [5, 8, 12, 15, 16, 27, 32, 32, 36, 41, 45] } ∧
    ¬ (layout c05Full).equiv { layout c05Full with partEnd := [5, 8, 12, 15, 16, 27, 0, 32, 36, 40, 45] } ∧
    (layout c05Full).equiv { layout c05Full with partEnd := [5, 8, 12, 15, 16, 27, 32, 32, 36, 40, 0] } ∧
    ¬ ({ layout c05Full with partEnd := [5, 8, 12, 15, 16, 27, 32, 32, 36, 40, 0] } : Rep).wf ∧
    (layout c05Prefix).equiv c05PrefixRep := by decide

#print axioms C05b_layout
#print axioms C05b_equiv_getters
#print axioms C05b_equiv_getters_needs_wf
#print axioms C05b_getters
#print axioms C05b_write_query
#print axioms C05b_clear_query
#print axioms C05b_write_fragment
#print axioms C05b_clear_fragment
#print axioms C05b_write_port
#print axioms C05b_clear_port
#print axioms C05b_write_username
#print axioms C05b_write_password
#print axioms C05b_username_empty_host_counterexample
#print axioms C05b_write_host
#print axioms C05b_set_empty_host
#print axioms C05b_empty_host
#print axioms C05b_host_null_empty_path_counterexample
#print axioms C05b_commit_path
#print axioms C05b_path_buffer
#print axioms C05b_path_slash_segment_counterexample
#print axioms C05b_save_scheme
#print axioms C05b_strip_trailing_spaces
#print axioms C05b_layout_to_layout
#print axioms C05b_getters_after_write_username
#print axioms C05b_bites_no_shift
#print axioms C05b_bites_no_count

end Upa.Props
