import Upa.Proofs.C01Closed
import Upa.Props.C07
/-
  C01 — the assembled theorem.  (Separate file because the simulation proofs import Props/C01.lean for
  `UnitsOk` and the input-conversion lemma.)

  `Impl.parse` is the code-shaped block parser (one function per `if (state == …)` block of
  url_parser::url_parse, tied to the C++ by the correspondence check); `Spec.apiParse` is the URL
  Standard's basic URL parser as the per-code-point state machine with pointer, buffer and flags.
  Proved by simulation, one lemma per state (Proofs/C01Run, C01Seg, C01Tail, C01Auth, C01AuthClosed,
  C01Head, C01Closed), for every input in every encoding and every base, under the two hypotheses on the
  IDNA parameter of C07 (`IdnaOk`: properties of UTS #46 ToASCII, validated against ICU by testing).
-/
namespace Upa.Props
open Upa

/-- parsing conforms to the Standard: success exactly when the Standard's parser succeeds, and the same
    URL record (hence the same href, origin, protocol, username, password, host, hostname, port,
    pathname, search, hash: all are functions of the record, `Impl/Api.lean`) -/
theorem C01_parse_conforms (idna : Idna) (h : IdnaOk idna) (e : Enc) (units : List Nat) (base : Option Url)
    (hu : UnitsOk e units) : Impl.parse idna e units base = Spec.apiParse idna e units base :=
  Upa.Proofs.C01.C01_parse_conforms_closed idna h.ascii h.persist e units base hu

#print axioms C01_parse_conforms
end Upa.Props
