import Upa.Spec.Api
/-
  URL Standard §4.5 URL serializing, §4.7 Origin, §6.1 the getter steps of the URL class, and HTML's
  "ASCII serialization of an origin" — transcribed step by step, independently of the record-level
  getters of `Upa/Impl/Api.lean` (which mirror the C++ and are compared with these in Props/C01c.lean).

  Representation note: a host is stored as (kind, serialized text) — the host serializer (§3.6: IPv4 →
  IPv4 serializer, IPv6 → "[" … "]", otherwise the host itself) has already run when the host parser
  returns (`Spec.hostParse`), so "host, serialized" is `h.text` here.
-/
namespace Upa.Spec

/-- §4.5 URL path serializer -/
def urlPathSerialize (u : Url) : List Nat :=
  -- 1. If url has an opaque path, then return url's path.
  if u.hasOpaquePath then u.opaquePath
  else
    -- 2. Let output be the empty string.  3. For each segment of url's path: append U+002F (/) followed by segment to output.
    u.path.foldl (fun out seg => out ++ 0x2F :: seg) []


/-- §4.5 URL serializer -/
def urlSerialize (u : Url) (excludeFragment : Bool) : List Nat :=
  -- 1. Let output be url's scheme and U+003A (:) concatenated.
  let output := u.scheme ++ [0x3A]
  -- 2. If url's host is non-null:
  let output :=
    match u.host with
    | some h =>
      -- 2.1 Append "//" to output.
      let output := output ++ [0x2F, 0x2F]
      -- 2.2 If url includes credentials, then:
      let output :=
        if includesCredentials u then
          -- 2.2.1 Append url's username to output.
          let output := output ++ u.username
          -- 2.2.2 If url's password is not the empty string, then append U+003A (:), followed by url's password, to output.
          let output := if u.password ≠ [] then output ++ 0x3A :: u.password else output
          -- 2.2.3 Append U+0040 (@) to output.
          output ++ [0x40]
        else output
      -- 2.3 Append url's host, serialized, to output.
      let output := output ++ h.text
      -- 2.4 If url's port is non-null, append U+003A (:) followed by url's port, serialized, to output.
      match u.port with
      | some p => output ++ 0x3A :: toDecimal p
      | none => output
    | none => output
  -- 3. If url's host is null, url does not have an opaque path, url's path's size is greater than 1, and url's path[0]
  --    is the empty string, then append U+002F (/) followed by U+002E (.) to output.
  let output :=
    if u.host.isNone ∧ ¬ u.hasOpaquePath ∧ u.path.length > 1 ∧ u.path.head? = some [] then output ++ [0x2F, 0x2E] else output
  -- 4. Append the result of URL path serializing url to output.
  let output := output ++ urlPathSerialize u
  -- 5. If url's query is non-null, append U+003F (?), followed by url's query, to output.
  let output := match u.query with | some q => output ++ 0x3F :: q | none => output
  -- 6. If exclude fragment is false and url's fragment is non-null, then append U+0023 (#), followed by url's fragment, to output.
  let output :=
    if excludeFragment then output else match u.fragment with | some f => output ++ 0x23 :: f | none => output
  -- 7. Return output.
  output

/-- an origin: opaque, or a tuple (scheme, host, port, domain = null) -/
inductive Origin where
  | opaque
  | tuple (scheme : List Nat) (host : Option Host) (port : Option Nat)
  deriving DecidableEq, Repr


/-- §4.7: the origin of a URL whose scheme is not "blob" -/
def originNonBlob (u : Url) : Origin :=
  -- "ftp", "http", "https", "ws", "wss": return the tuple origin (url's scheme, url's host, url's port, null).
  if u.scheme = asciiStr "ftp" ∨ u.scheme = asciiStr "http" ∨ u.scheme = asciiStr "https" ∨ u.scheme = asciiStr "ws" ∨ u.scheme = asciiStr "wss" then
    .tuple u.scheme u.host u.port
  -- "file": unfortunate as it is, this is left as an exercise to the reader. When in doubt, return a new opaque origin.
  -- Otherwise: return a new opaque origin.
  else .opaque

/-- §4.7 origin.  The library has no blob URL store: a blob URL entry is always null (step 1 never
    applies), exactly as the C++ comments say. -/
def origin (idna : Idna) (u : Url) : Origin :=
  if u.scheme = asciiStr "blob" then
    -- 2. Let pathURL be the result of parsing the result of URL path serializing url.
    match apiParse idna .u8 (urlPathSerialize u) none with
    -- 3. If pathURL is failure, then return a new opaque origin.
    | none => .opaque
    -- 4. If pathURL's scheme is "http", "https", or "file", then return pathURL's origin.  5. Return a new opaque origin.
    | some pu =>
      if pu.scheme = asciiStr "http" ∨ pu.scheme = asciiStr "https" ∨ pu.scheme = asciiStr "file" then originNonBlob pu else .opaque
  else originNonBlob u

/-- HTML §7.1.1 "ASCII serialization of an origin" (for a host that is already ASCII: the serialized host) -/
def originSerialize : Origin → List Nat
  -- 1. If origin is an opaque origin, then return "null".
  | .opaque => asciiStr "null"
  -- 2. Otherwise, let result be origin's scheme.  3. Append "://" to result.  4. Append origin's host, serialized, to result.
  -- 5. If origin's port is non-null, append a U+003A COLON character (:), and origin's port, serialized, to result.
  | .tuple scheme host port =>
    scheme ++ [0x3A, 0x2F, 0x2F] ++ (match host with | some h => h.text | none => []) ++
      (match port with | some p => 0x3A :: toDecimal p | none => [])

/-! §6.1 URL class, getter steps -/
def getHref (u : Url) : List Nat := urlSerialize u false
def getOrigin (idna : Idna) (u : Url) : List Nat := originSerialize (origin idna u)
def getProtocol (u : Url) : List Nat := u.scheme ++ [0x3A]
def getUsername (u : Url) : List Nat := u.username
def getPassword (u : Url) : List Nat := u.password
def getHost (u : Url) : List Nat :=
  match u.host with
  -- 2. If url's host is null, then return the empty string.
  | none => []
  | some h =>
    match u.port with
    -- 3. If url's port is null, return url's host, serialized.
    | none => h.text
    -- 4. Return url's host, serialized, followed by U+003A (:) and url's port, serialized.
    | some p => h.text ++ 0x3A :: toDecimal p
def getHostname (u : Url) : List Nat := match u.host with | none => [] | some h => h.text
def getPort (u : Url) : List Nat := match u.port with | none => [] | some p => toDecimal p
def getPathname (u : Url) : List Nat := urlPathSerialize u
def getSearch (u : Url) : List Nat :=
  -- 1. If this's URL's query is either null or the empty string, then return the empty string.
  match u.query with
  | none => []
  | some q => if q = [] then [] else 0x3F :: q
def getHash (u : Url) : List Nat :=
  match u.fragment with
  | none => []
  | some f => if f = [] then [] else 0x23 :: f

end Upa.Spec
