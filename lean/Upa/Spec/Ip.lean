import Upa.Basic
/-
  URL Standard §3.5: IPv4 number parser, ends-in-a-number checker, IPv4 parser, IPv4 serializer,
  IPv6 parser, IPv6 serializer (compress = first longest run of ≥ 2 zero pieces).
-/
namespace Upa.Spec

/-- digit value in radix R ∈ {8,10,16}, or none -/
def digitVal (R : Nat) (c : Nat) : Option Nat :=
  if R = 16 then (if isHex c then some (hexVal c) else none)
  else if 0x30 ≤ c ∧ c < 0x30 + R then some (c - 0x30) else none

/-- all radix-R digits → mathematical value -/
def radixValue (R : Nat) : List Nat → Nat → Option Nat
  | [], acc => some acc
  | c :: cs, acc => match digitVal R c with
    | some d => radixValue R cs (acc * R + d)
    | none => none

/-- IPv4 number parser (validation-error flag omitted): none = failure -/
def ipv4Number (inp : List Nat) : Option Nat :=
  match inp with
  | [] => none                                            -- 1
  | 0x30 :: c1 :: rest =>
      if c1 = 0x58 ∨ c1 = 0x78 then                       -- 4: "0x"/"0X"
        (if rest = [] then some 0 else radixValue 16 rest 0)
      else radixValue 8 (c1 :: rest) 0                    -- 5: leading "0" (≥ 2 code points)
  | cs => radixValue 10 cs 0

def isDot (c : Nat) : Bool := c == 0x2E

/-- ends-in-a-number checker -/
def endsInANumber (s : List Nat) : Bool :=
  let parts := splitOnP isDot s
  let parts := if parts.getLast? = some [] then
      (if parts.length = 1 then [] else parts.dropLast) else parts
  match parts.getLast? with
  | none => false
  | some last =>
    if last ≠ [] ∧ last.all isDigit then true
    else (ipv4Number last).isSome

def pow256 : Nat → Nat
  | 0 => 1
  | n+1 => 256 * pow256 n

/-- IPv4 parser: none = failure -/
def ipv4Parse (s : List Nat) : Option Nat :=
  let parts := splitOnP isDot s
  let parts := if parts.getLast? = some [] ∧ parts.length > 1 then parts.dropLast else parts
  if parts.length > 4 then none
  else match parts.mapM ipv4Number with
    | none => none
    | some nums =>
      if nums.dropLast.any (fun n => decide (n > 255)) then none
      else match nums.getLast? with
        | none => none
        | some last =>
          if last ≥ pow256 (5 - nums.length) then none
          else
            let rec sum : List Nat → Nat → Nat
              | [], _ => 0
              | n :: ns, i => n * pow256 (3 - i) + sum ns (i + 1)
            some (last + sum nums.dropLast 0)

/-- IPv4 serializer -/
def ipv4Serialize (n : Nat) : List Nat :=
  toDecimal (n / 16777216 % 256) ++ [0x2E] ++ toDecimal (n / 65536 % 256) ++ [0x2E] ++
  toDecimal (n / 256 % 256) ++ [0x2E] ++ toDecimal (n % 256)

/-! ### IPv6 parser — pointer machine as in the Standard. `inp` is the whole input, `p` the pointer. -/

structure V6 where
  addr : List Nat := [0,0,0,0,0,0,0,0]
  pieceIndex : Nat := 0
  compress : Option Nat := none

def cAt (inp : List Nat) (p : Nat) : Option Nat := inp[p]?

/-- step 6.5: the embedded IPv4 part; `p` points at its first digit. Returns the state or failure. -/
def ipv6V4Part (inp : List Nat) : Nat → Nat → Nat → V6 → Option V6
  | 0, _, _, _ => none
  | fuel+1, p, numbersSeen, st =>
    match cAt inp p with
    | none => if numbersSeen = 4 then some st else none           -- 6.5.6 / loop exit
    | some c =>
      -- 6.5.5.2
      let p? : Option Nat :=
        if numbersSeen > 0 then (if c = 0x2E ∧ numbersSeen < 4 then some (p + 1) else none) else some p
      match p? with
      | none => none
      | some p =>
        match cAt inp p with
        | none => none                                              -- 6.5.5.3
        | some c =>
          if !isDigit c then none
          else
            -- 6.5.5.4: read digits
            let rec digits : Nat → Nat → Option Nat → Option (Nat × Nat)
              | 0, _, _ => none
              | f+1, p, piece =>
                match cAt inp p with
                | some d =>
                  if isDigit d then
                    let n := d - 0x30
                    match piece with
                    | none => digits f (p + 1) (some n)
                    | some 0 => none
                    | some v => if v * 10 + n > 255 then none else digits f (p + 1) (some (v * 10 + n))
                  else piece.map (fun v => (v, p))
                | none => piece.map (fun v => (v, p))
            match digits (inp.length + 1) p none with
            | none => none
            | some (v, p) =>
              let st := { st with addr := st.addr.set st.pieceIndex (st.addr.getD st.pieceIndex 0 * 0x100 + v) }
              let numbersSeen := numbersSeen + 1
              let st := if numbersSeen = 2 ∨ numbersSeen = 4 then { st with pieceIndex := st.pieceIndex + 1 } else st
              ipv6V4Part inp fuel p numbersSeen st

/-- step 6 main loop -/
def ipv6Loop (inp : List Nat) : Nat → Nat → V6 → Option V6
  | 0, _, _ => none
  | fuel+1, p, st =>
    match cAt inp p with
    | none => some st
    | some c =>
      if st.pieceIndex = 8 then none                                  -- 6.1
      else if c = 0x3A then                                           -- 6.2
        if st.compress.isSome then none
        else ipv6Loop inp fuel (p + 1) { st with pieceIndex := st.pieceIndex + 1, compress := some (st.pieceIndex + 1) }
      else
        -- 6.3/6.4: value, length
        let rec hex : Nat → Nat → Nat → Nat → Nat × Nat × Nat
          | 0, p, v, l => (p, v, l)
          | f+1, p, v, l =>
            match cAt inp p with
            | some d => if l < 4 ∧ isHex d then hex f (p + 1) (v * 0x10 + hexVal d) (l + 1) else (p, v, l)
            | none => (p, v, l)
        let (p, value, length) := hex 5 p 0 0
        match cAt inp p with
        | some 0x2E =>                                                 -- 6.5
          if length = 0 then none
          else
            let p := p - length
            if st.pieceIndex > 6 then none
            else ipv6V4Part inp (inp.length + 2) p 0 st
        | some 0x3A =>                                                 -- 6.6
          if (cAt inp (p + 1)).isNone then none
          else ipv6Loop inp fuel (p + 1) { st with addr := st.addr.set st.pieceIndex value, pieceIndex := st.pieceIndex + 1 }
        | some _ => none                                               -- 6.7
        | none => ipv6Loop inp fuel p { st with addr := st.addr.set st.pieceIndex value, pieceIndex := st.pieceIndex + 1 }

def swapAt (l : List Nat) (i j : Nat) : List Nat :=
  (l.set i (l.getD j 0)).set j (l.getD i 0)

/-- step 7: swaps -/
def ipv6Swaps (compress : Nat) : Nat → Nat → List Nat → List Nat
  | _, 0, a => a
  | 0, _, a => a
  | pieceIndex+1, swaps+1, a =>
    ipv6Swaps compress pieceIndex swaps (swapAt a (pieceIndex + 1) (compress + (swaps + 1) - 1))

/-- IPv6 parser: none = failure, else eight 16-bit pieces -/
def ipv6Parse (inp : List Nat) : Option (List Nat) :=
  let start : Option (Nat × V6) :=
    if cAt inp 0 = some 0x3A then                                       -- 5
      (if cAt inp 1 = some 0x3A then some (2, { pieceIndex := 1, compress := some 1 }) else none)
    else some (0, {})
  match start with
  | none => none
  | some (p, st) =>
    match ipv6Loop inp (inp.length + 2) p st with
    | none => none
    | some st =>
      match st.compress with
      | some cmp => some (ipv6Swaps cmp 7 (st.pieceIndex - cmp) st.addr)  -- 7
      | none => if st.pieceIndex ≠ 8 then none else some st.addr          -- 8

/-! ### IPv6 serializer -/

/-- length of the run of zeros starting at the head -/
def zeroRunLen : List Nat → Nat
  | 0 :: r => zeroRunLen r + 1
  | _ => 0

/-- "find the IPv6 address compressed piece index": index of the first longest run of zero pieces
    with length > 1, or none. `best = (index, len)`. -/
def findCompressAux : List Nat → Nat → Option (Nat × Nat) → Option (Nat × Nat)
  | [], _, best => best
  | a :: r, i, best =>
    let len := zeroRunLen (a :: r)
    let better : Bool := match best with | none => true | some (_, bl) => decide (len > bl)
    let best := if len > 1 ∧ better = true then some (i, len) else best
    findCompressAux r (i + 1) best

def findCompress (a : List Nat) : Option Nat := (findCompressAux a 0 none).map (·.1)

def ipv6SerAux (compress : Option Nat) : List Nat → Nat → Bool → List Nat
  | [], _, _ => []
  | a :: r, i, ignore0 =>
    if ignore0 ∧ a = 0 then ipv6SerAux compress r (i + 1) true
    else if compress = some i then
      (if i = 0 then [0x3A, 0x3A] else [0x3A]) ++ ipv6SerAux compress r (i + 1) true
    else toHexLower a ++ (if i ≠ 7 then [0x3A] else []) ++ ipv6SerAux compress r (i + 1) false

/-- IPv6 serializer (without brackets) -/
def ipv6Serialize (a : List Nat) : List Nat := ipv6SerAux (findCompress a) a 0 false

end Upa.Spec
