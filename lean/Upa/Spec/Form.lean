import Upa.Basic
import Upa.Spec.Sets
import Upa.Spec.Encoding
import Upa.Spec.Percent
/-
  URL Standard §5: application/x-www-form-urlencoded parsing and serializing, and the
  URLSearchParams list algorithms (§6.2).  Names and values are scalar value strings.
-/
namespace Upa.Spec

abbrev Pair := List Nat × List Nat

/-- split at the first occurrence of `sep` (name, value); value empty when there is none -/
def splitFirst (sep : Nat) : List Nat → List Nat × List Nat
  | [] => ([], [])
  | c :: cs => if c = sep then ([], cs) else let (a, b) := splitFirst sep cs; (c :: a, b)

def plusToSpace (l : List Nat) : List Nat := l.map (fun c => if c = 0x2B then 0x20 else c)

/-- application/x-www-form-urlencoded parser on a byte sequence -/
def urlencodedParse (bytes : List Nat) : List Pair :=
  (splitOnP (· == 0x26) bytes).filterMap fun piece =>
    if piece = [] then none
    else
      let (name, value) := splitFirst 0x3D piece
      some (utf8Decode (percentDecodeBytes (plusToSpace name)),
            utf8Decode (percentDecodeBytes (plusToSpace value)))

/-- urlencoded byte serializer -/
def urlencodedSerializeBytes (bytes : List Nat) : List Nat :=
  bytes.flatMap fun b =>
    if b = 0x20 then [0x2B]
    else if urlencodedSet b then pctByte b else [b]

def intercalateAmp : List (List Nat) → List Nat
  | [] => []
  | [x] => x
  | x :: xs => x ++ 0x26 :: intercalateAmp xs

/-- application/x-www-form-urlencoded serializer -/
def urlencodedSerialize (l : List Pair) : List Nat :=
  intercalateAmp (l.map fun (n, v) =>
    urlencodedSerializeBytes (utf8Encode n) ++ 0x3D :: urlencodedSerializeBytes (utf8Encode v))

/-! URLSearchParams list algorithms -/
def spAppend (l : List Pair) (n v : List Nat) : List Pair := l ++ [(n, v)]
def spDelete (l : List Pair) (n : List Nat) : List Pair := l.filter (fun p => p.1 ≠ n)
def spDelete2 (l : List Pair) (n v : List Nat) : List Pair := l.filter (fun p => ¬ (p.1 = n ∧ p.2 = v))
def spGet (l : List Pair) (n : List Nat) : Option (List Nat) := (l.find? (fun p => p.1 = n)).map (·.2)
def spGetAll (l : List Pair) (n : List Nat) : List (List Nat) := (l.filter (fun p => p.1 = n)).map (·.2)
def spHas (l : List Pair) (n : List Nat) : Bool := l.any (fun p => p.1 = n)
def spHas2 (l : List Pair) (n v : List Nat) : Bool := l.any (fun p => p.1 = n ∧ p.2 = v)
/-- set: first match gets the value, the others are removed; append when there is none -/
def spSet (l : List Pair) (n v : List Nat) : List Pair :=
  if l.any (fun p => p.1 = n) then
    let rec go : List Pair → Bool → List Pair
      | [], _ => []
      | p :: ps, seen =>
        if p.1 = n then (if seen then go ps true else (n, v) :: go ps true) else p :: go ps seen
    go l false
  else l ++ [(n, v)]

/-- lexicographic "less than" on code unit lists -/
def lexLt : List Nat → List Nat → Bool
  | [], [] => false
  | [], _ :: _ => true
  | _ :: _, [] => false
  | a :: as, b :: bs => if a < b then true else if a > b then false else lexLt as bs

/-- sort: stable, by the names' UTF-16 code units -/
def spSort (l : List Pair) : List Pair :=
  l.mergeSort (fun p q => !lexLt (utf16Encode q.1) (utf16Encode p.1))

end Upa.Spec
