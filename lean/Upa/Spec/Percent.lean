import Upa.Basic
import Upa.Spec.Sets
import Upa.Spec.Encoding
/-
  URL Standard §1.3: percent-encode a byte, percent-decode a byte sequence, string percent-decode,
  UTF-8 percent-encode a scalar value / a string using a percent-encode set.
-/
namespace Upa.Spec

/-- percent-decode a byte sequence -/
def percentDecodeBytes : List Nat → List Nat
  | [] => []
  | [b] => [b]
  | [b, c] => [b, c]
  | b :: r@(h1 :: h2 :: r') =>
    if b = 0x25 ∧ isHex h1 ∧ isHex h2 then (hexVal h1 * 16 + hexVal h2) :: percentDecodeBytes r'
    else b :: percentDecodeBytes r

/-- string percent-decode: UTF-8 encode, then percent-decode -/
def stringPercentDecode (s : List Nat) : List Nat := percentDecodeBytes (utf8Encode s)

/-- UTF-8 percent-encode a scalar value using a percent-encode set -/
def utf8PercentEncodeChar (inSet : Nat → Bool) (c : Nat) : List Nat :=
  if inSet c then (utf8EncodeChar c).flatMap pctByte else [c]

/-- UTF-8 percent-encode a string -/
def utf8PercentEncode (inSet : Nat → Bool) (s : List Nat) : List Nat :=
  s.flatMap (utf8PercentEncodeChar inSet)

end Upa.Spec
