import Upa.Impl.Url
import Upa.Spec.Host
import Upa.Spec.Percent
/-
  URL Standard (snapshot 27 Sep 2023) §4.4 "basic URL parser" as the Standard writes it: a state
  machine over a pointer into the input with `buffer`, `atSignSeen`, `insideBrackets`,
  `passwordTokenSeen` and an optional state override, one `step` per run of the machine on the code
  point at the pointer.  Used as the executable Standard-shaped oracle (three-way comparison
  C++ / Impl / Spec) and as the reference for the block lemmas of C01.
  The URL record type is shared with `Impl` (`Upa.Url`).
-/
namespace Upa.Spec

open Upa.Impl (isSpecialScheme defaultPort sFile)

inductive State where
  | schemeStart | scheme | noScheme | specialRelativeOrAuthority | pathOrAuthority | relative
  | relativeSlash | specialAuthoritySlashes | specialAuthorityIgnoreSlashes | authority | host | hostname
  | port | file | fileSlash | fileHost | pathStart | path | opaquePath | query | fragment
  deriving DecidableEq, Repr

structure Cfg where
  url : Url
  state : State
  buffer : List Nat := []
  atSignSeen : Bool := false
  insideBrackets : Bool := false
  passwordTokenSeen : Bool := false
  /-- pointer; `Int` because "decrease pointer by 1" at position 0 followed by the loop's increment is legal -/
  p : Int := 0

inductive StepResult where
  | continue (c : Cfg)
  | done (u : Url)          -- "return" (also used for the override early returns: nothing more happens)
  | failure (u : Url)

def isSpecial (u : Url) : Bool := isSpecialScheme u.scheme
def includesCredentials (u : Url) : Bool := u.username ≠ [] || u.password ≠ []

def isWindowsDriveLetter : List Nat → Bool
  | [a, b] => isAlpha a && (b == 0x3A || b == 0x7C)
  | _ => false
def isNormalizedWindowsDriveLetter : List Nat → Bool
  | [a, b] => isAlpha a && b == 0x3A
  | _ => false
/-- "starts with a Windows drive letter" -/
def startsWithWindowsDriveLetter (s : List Nat) : Bool :=
  decide (s.length ≥ 2) && isWindowsDriveLetter (s.take 2) &&
    (decide (s.length = 2) || (match s[2]? with | some c => c == 0x2F || c == 0x5C || c == 0x3F || c == 0x23 | none => false))

/-- shorten a URL's path -/
def shorten (u : Url) : Url :=
  if u.scheme = sFile ∧ u.path.length = 1 ∧ (match u.path.head? with | some s => isNormalizedWindowsDriveLetter s | none => false) = true then u
  else { u with path := u.path.dropLast }

def lowerStr (s : List Nat) : List Nat := s.map toLower
def isSingleDot (b : List Nat) : Bool := let l := lowerStr b; l == asciiStr "." || l == asciiStr "%2e"
def isDoubleDot (b : List Nat) : Bool :=
  let l := lowerStr b
  l == asciiStr ".." || l == asciiStr ".%2e" || l == asciiStr "%2e." || l == asciiStr "%2e%2e"

def emptyHost : Host := { kind := .empty, text := [] }

/-- one run of the state machine; `c` = code point at the pointer (none = EOF), `rem` = remaining -/
def step (idna : Idna) (inp : Array Nat) (base : Option Url) (ov : Option State) (k : Cfg) : StepResult :=
  let url := k.url
  let c : Option Nat := if k.p < 0 then none else inp[k.p.toNat]?
  /- `remHead` = first code point of "remaining"; `fromP ()` = the input from the pointer on
     (only the file states look further ahead than one code point) -/
  let remHead : Option Nat := if k.p + 1 < 0 then none else inp[(k.p + 1).toNat]?
  let fromP (_ : Unit) : List Nat := (inp.extract k.p.toNat inp.size).toList
  let isC (x : Nat) : Bool := c == some x
  match k.state with
  | .schemeStart =>
    match c with
    | some ch =>
      if isAlpha ch then .continue { k with buffer := k.buffer ++ [toLower ch], state := .scheme }
      else if ov.isNone then .continue { k with state := .noScheme, p := k.p - 1 }
      else .failure url
    | none => if ov.isNone then .continue { k with state := .noScheme, p := k.p - 1 } else .failure url
  | .scheme =>
    match c with
    | some ch =>
      if isAlpha ch || isDigit ch || ch == 0x2B || ch == 0x2D || ch == 0x2E then
        .continue { k with buffer := k.buffer ++ [toLower ch] }
      else if ch = 0x3A then
        if ov.isSome ∧ (isSpecial url != isSpecialScheme k.buffer) then .done url
        else if ov.isSome ∧ (includesCredentials url || url.port.isSome) ∧ k.buffer = sFile then .done url
        else if ov.isSome ∧ url.scheme = sFile ∧ url.host = some emptyHost then .done url
        else
          let url := { url with scheme := k.buffer }
          if ov.isSome then
            .done (if url.port.isSome ∧ url.port = defaultPort url.scheme then { url with port := none } else url)
          else
            let k := { k with url := url, buffer := [] }
            if url.scheme = sFile then .continue { k with state := .file }
            else if isSpecial url ∧ (base.map (·.scheme)) = some url.scheme then
              .continue { k with state := .specialRelativeOrAuthority }
            else if isSpecial url then .continue { k with state := .specialAuthoritySlashes }
            else if remHead = some 0x2F then .continue { k with state := .pathOrAuthority, p := k.p + 1 }
            else .continue { k with url := { url with hasOpaquePath := true, opaquePath := [] }, state := .opaquePath }
      else if ov.isNone then .continue { k with buffer := [], state := .noScheme, p := -1 }
      else .failure url
    | none =>
      if ov.isNone then .continue { k with buffer := [], state := .noScheme, p := -1 } else .failure url
  | .noScheme =>
    match base with
    | none => .failure url
    | some b =>
      if b.hasOpaquePath ∧ ¬ isC 0x23 then .failure url
      else if b.hasOpaquePath then
        .continue { k with url := { url with scheme := b.scheme, hasOpaquePath := true, opaquePath := b.opaquePath,
                                             path := b.path, query := b.query, fragment := some [] },
                           state := .fragment }
      else if b.scheme ≠ sFile then .continue { k with state := .relative, p := k.p - 1 }
      else .continue { k with state := .file, p := k.p - 1 }
  | .specialRelativeOrAuthority =>
    if isC 0x2F ∧ remHead = some 0x2F then .continue { k with state := .specialAuthorityIgnoreSlashes, p := k.p + 1 }
    else .continue { k with state := .relative, p := k.p - 1 }
  | .pathOrAuthority =>
    if isC 0x2F then .continue { k with state := .authority }
    else .continue { k with state := .path, p := k.p - 1 }
  | .relative =>
    match base with
    | none => .failure url
    | some b =>
      let url := { url with scheme := b.scheme }
      if isC 0x2F then .continue { k with url := url, state := .relativeSlash }
      else if isSpecial url ∧ isC 0x5C then .continue { k with url := url, state := .relativeSlash }
      else
        let url := { url with username := b.username, password := b.password, host := b.host, port := b.port,
                              hasOpaquePath := b.hasOpaquePath, opaquePath := b.opaquePath, path := b.path,
                              query := b.query }
        if isC 0x3F then .continue { k with url := { url with query := some [] }, state := .query }
        else if isC 0x23 then .continue { k with url := { url with fragment := some [] }, state := .fragment }
        else if c.isSome then
          .continue { k with url := shorten { url with query := none }, state := .path, p := k.p - 1 }
        else .continue { k with url := url }
  | .relativeSlash =>
    match base with
    | none => .failure url
    | some b =>
      if isSpecial url ∧ (isC 0x2F ∨ isC 0x5C) then .continue { k with state := .specialAuthorityIgnoreSlashes }
      else if isC 0x2F then .continue { k with state := .authority }
      else
        .continue { k with url := { url with username := b.username, password := b.password, host := b.host, port := b.port },
                           state := .path, p := k.p - 1 }
  | .specialAuthoritySlashes =>
    if isC 0x2F ∧ remHead = some 0x2F then .continue { k with state := .specialAuthorityIgnoreSlashes, p := k.p + 1 }
    else .continue { k with state := .specialAuthorityIgnoreSlashes, p := k.p - 1 }
  | .specialAuthorityIgnoreSlashes =>
    if ¬ isC 0x2F ∧ ¬ isC 0x5C then .continue { k with state := .authority, p := k.p - 1 }
    else .continue k
  | .authority =>
    if isC 0x40 then
      let buffer := if k.atSignSeen then asciiStr "%40" ++ k.buffer else k.buffer
      -- for each code point in buffer
      let rec loop : List Nat → Bool → List Nat → List Nat → Bool × List Nat × List Nat
        | [], pw, user, pass => (pw, user, pass)
        | cp :: r, pw, user, pass =>
          if cp = 0x3A ∧ pw = false then loop r true user pass
          else
            let enc := utf8PercentEncodeChar userinfoSet cp
            if pw then loop r pw user (pass ++ enc) else loop r pw (user ++ enc) pass
      let (pw, user, pass) := loop buffer k.passwordTokenSeen url.username url.password
      .continue { k with url := { url with username := user, password := pass }, atSignSeen := true,
                         passwordTokenSeen := pw, buffer := [] }
    else if c.isNone ∨ isC 0x2F ∨ isC 0x3F ∨ isC 0x23 ∨ (isSpecial url ∧ isC 0x5C) then
      if k.atSignSeen ∧ k.buffer = [] then .failure url
      else .continue { k with p := k.p - (k.buffer.length + 1), buffer := [], state := .host }
    else .continue { k with buffer := k.buffer ++ c.toList }
  | .host | .hostname =>
    if ov.isSome ∧ url.scheme = sFile then .continue { k with p := k.p - 1, state := .fileHost }
    else if isC 0x3A ∧ k.insideBrackets = false then
      if k.buffer = [] then .failure url
      else if ov = some .hostname then .done url
      else match hostParse idna k.buffer (!isSpecial url) with
        | none => .failure url
        | some h => .continue { k with url := { url with host := some h }, buffer := [], state := .port }
    else if c.isNone ∨ isC 0x2F ∨ isC 0x3F ∨ isC 0x23 ∨ (isSpecial url ∧ isC 0x5C) then
      let k := { k with p := k.p - 1 }
      if isSpecial url ∧ k.buffer = [] then .failure url
      else if ov.isSome ∧ k.buffer = [] ∧ (includesCredentials url || url.port.isSome) then .done url
      else match hostParse idna k.buffer (!isSpecial url) with
        | none => .failure url
        | some h =>
          let url := { url with host := some h }
          if ov.isSome then .done url
          else .continue { k with url := url, buffer := [], state := .pathStart }
    else
      let ib := if isC 0x5B then true else if isC 0x5D then false else k.insideBrackets
      .continue { k with insideBrackets := ib, buffer := k.buffer ++ c.toList }
  | .port =>
    if (match c with | some ch => isDigit ch | none => false) then .continue { k with buffer := k.buffer ++ c.toList }
    else if c.isNone ∨ isC 0x2F ∨ isC 0x3F ∨ isC 0x23 ∨ (isSpecial url ∧ isC 0x5C) ∨ ov.isSome then
      let r : Option Url :=
        if k.buffer ≠ [] then
          let port := decimalValue k.buffer
          if port > 65535 then none
          else some (if defaultPort url.scheme = some port then { url with port := none } else { url with port := some port })
        else some url
      match r with
      | none => .failure url
      | some url =>
        if ov.isSome then .done url
        else .continue { k with url := url, buffer := [], state := .pathStart, p := k.p - 1 }
    else .failure url
  | .file =>
    let url := { url with scheme := sFile, host := some emptyHost }
    if isC 0x2F ∨ isC 0x5C then .continue { k with url := url, state := .fileSlash }
    else match base with
      | some b =>
        if b.scheme = sFile then
          let url := { url with host := b.host, path := b.path, query := b.query }
          if isC 0x3F then .continue { k with url := { url with query := some [] }, state := .query }
          else if isC 0x23 then .continue { k with url := { url with fragment := some [] }, state := .fragment }
          else if c.isSome then
            let url := { url with query := none }
            let url := if !startsWithWindowsDriveLetter (fromP ()) then shorten url else { url with path := [] }
            .continue { k with url := url, state := .path, p := k.p - 1 }
          else .continue { k with url := url }
        else .continue { k with url := url, state := .path, p := k.p - 1 }
      | none => .continue { k with url := url, state := .path, p := k.p - 1 }
  | .fileSlash =>
    if isC 0x2F ∨ isC 0x5C then .continue { k with state := .fileHost }
    else
      let url := match base with
        | some b =>
          if b.scheme = sFile then
            let url := { url with host := b.host }
            if !startsWithWindowsDriveLetter (fromP ()) ∧
               (match b.path.head? with | some s => isNormalizedWindowsDriveLetter s | none => false) = true then
              { url with path := url.path ++ [b.path.head!] }
            else url
          else url
        | none => url
      .continue { k with url := url, state := .path, p := k.p - 1 }
  | .fileHost =>
    if c.isNone ∨ isC 0x2F ∨ isC 0x5C ∨ isC 0x3F ∨ isC 0x23 then
      let k := { k with p := k.p - 1 }
      if ov.isNone ∧ isWindowsDriveLetter k.buffer then .continue { k with state := .path }
      else if k.buffer = [] then
        let url := { url with host := some emptyHost }
        if ov.isSome then .done url else .continue { k with url := url, state := .pathStart }
      else match hostParse idna k.buffer (!isSpecial url) with
        | none => .failure url
        | some h =>
          let h := if h.text = asciiStr "localhost" then emptyHost else h
          let url := { url with host := some h }
          if ov.isSome then .done url
          else .continue { k with url := url, buffer := [], state := .pathStart }
    else .continue { k with buffer := k.buffer ++ c.toList }
  | .pathStart =>
    if isSpecial url then
      .continue { k with state := .path, p := if ¬ isC 0x2F ∧ ¬ isC 0x5C then k.p - 1 else k.p }
    else if ov.isNone ∧ isC 0x3F then .continue { k with url := { url with query := some [] }, state := .query }
    else if ov.isNone ∧ isC 0x23 then .continue { k with url := { url with fragment := some [] }, state := .fragment }
    else if c.isSome then .continue { k with state := .path, p := if ¬ isC 0x2F then k.p - 1 else k.p }
    else if ov.isSome ∧ url.host.isNone then .continue { k with url := { url with path := url.path ++ [[]] } }
    else .continue k
  | .path =>
    let isSep : Bool := isC 0x2F || (isSpecial url && isC 0x5C)
    if c.isNone ∨ isSep ∨ (ov.isNone ∧ (isC 0x3F ∨ isC 0x23)) then
      let url :=
        if isDoubleDot k.buffer then
          let url := shorten url
          if !isSep then { url with path := url.path ++ [[]] } else url
        else if isSingleDot k.buffer ∧ !isSep then { url with path := url.path ++ [[]] }
        else if !isSingleDot k.buffer then
          let buffer :=
            if url.scheme = sFile ∧ url.path = [] ∧ isWindowsDriveLetter k.buffer then
              [k.buffer.head!, 0x3A] else k.buffer
          { url with path := url.path ++ [buffer] }
        else url
      let k := { k with url := url, buffer := [] }
      if isC 0x3F then .continue { k with url := { url with query := some [] }, state := .query }
      else if isC 0x23 then .continue { k with url := { url with fragment := some [] }, state := .fragment }
      else .continue k
    else
      .continue { k with buffer := k.buffer ++ (match c with | some ch => utf8PercentEncodeChar pathSet ch | none => []) }
  | .opaquePath =>
    if isC 0x3F then .continue { k with url := { url with query := some [] }, state := .query }
    else if isC 0x23 then .continue { k with url := { url with fragment := some [] }, state := .fragment }
    else match c with
      | some ch => .continue { k with url := { url with opaquePath := url.opaquePath ++ utf8PercentEncodeChar c0ControlSet ch } }
      | none => .continue k
  | .query =>
    if (ov.isNone ∧ isC 0x23) ∨ c.isNone then
      let set := if isSpecial url then specialQuerySet else querySet
      let q := (url.query.getD []) ++ utf8PercentEncode set k.buffer
      let url := { url with query := some q }
      let k := { k with url := url, buffer := [] }
      if isC 0x23 then .continue { k with url := { url with fragment := some [] }, state := .fragment }
      else .continue k
    else .continue { k with buffer := k.buffer ++ c.toList }
  | .fragment =>
    match c with
    | some ch => .continue { k with url := { url with fragment := some ((url.fragment.getD []) ++ utf8PercentEncodeChar fragmentSet ch) } }
    | none => .continue k

/-- "Keep running the state machine by switching on state. If after a run pointer points to the EOF code
    point, go to the next step. Otherwise, increase pointer by 1 and continue." -/
def run (idna : Idna) (inp : Array Nat) (base : Option Url) (ov : Option State) : Nat → Cfg → Option Url × Url
  | 0, k => (none, k.url)
  | fuel+1, k =>
    match step idna inp base ov k with
    | .done u => (some u, u)
    | .failure u => (none, u)
    | .continue k' =>
      if k'.p ≥ (inp.size : Int) then (some k'.url, k'.url)
      else run idna inp base ov fuel { k' with p := k'.p + 1 }

/-- basic URL parser on the preprocessed input (leading/trailing C0-or-space stripped when no url is
    given, ASCII tab/newline removed).  Returns (some url | none for failure, url as left behind). -/
def basicParse (idna : Idna) (inp : List Nat) (base : Option Url) (url : Url) (ov : Option State) : Option Url × Url :=
  run idna inp.toArray base ov (4 * inp.length + 16) { url := url, state := ov.getD .schemeStart }

end Upa.Spec
