import Upa.Basic
/-
  Encoding Standard "UTF-8 decode without BOM" (the UTF-8 decoder's handler, error mode
  replacement), Infra "convert to scalar value string" for UTF-16, and the UTF-8 encoder.
-/
namespace Upa.Spec

structure Utf8State where
  cp : Nat := 0
  needed : Nat := 0
  seen : Nat := 0
  lower : Nat := 0x80
  upper : Nat := 0xBF

/-- one run of the UTF-8 decoder's handler on `byte`; returns new state and emitted code points.
    "prepend byte to stream" (reprocess) is performed by the recursive call in the needed ≠ 0 / out of
    range case: the byte is handled again with a reset state (which cannot reprocess again). -/
def utf8Step0 (b : Nat) : Utf8State × List Nat :=
  if b ≤ 0x7F then ({}, [b])
  else if 0xC2 ≤ b ∧ b ≤ 0xDF then ({ needed := 1, cp := b &&& 0x1F }, [])
  else if 0xE0 ≤ b ∧ b ≤ 0xEF then
    ({ needed := 2, cp := b &&& 0xF,
       lower := if b = 0xE0 then 0xA0 else 0x80, upper := if b = 0xED then 0x9F else 0xBF }, [])
  else if 0xF0 ≤ b ∧ b ≤ 0xF4 then
    ({ needed := 3, cp := b &&& 0x7,
       lower := if b = 0xF0 then 0x90 else 0x80, upper := if b = 0xF4 then 0x8F else 0xBF }, [])
  else ({}, [0xFFFD])

def utf8Step (st : Utf8State) (b : Nat) : Utf8State × List Nat :=
  if st.needed = 0 then utf8Step0 b
  else if b < st.lower ∨ b > st.upper then
    -- reset, reprocess byte, return error
    let (st', out) := utf8Step0 b
    (st', 0xFFFD :: out)
  else
    let cp := (st.cp <<< 6) ||| (b &&& 0x3F)
    if st.seen + 1 = st.needed then ({}, [cp])
    else ({ st with cp := cp, seen := st.seen + 1, lower := 0x80, upper := 0xBF }, [])

def utf8DecodeAux : Utf8State → List Nat → List Nat
  | st, [] => if st.needed ≠ 0 then [0xFFFD] else []
  | st, b :: bs => let (st', out) := utf8Step st b; out ++ utf8DecodeAux st' bs

/-- UTF-8 decode without BOM -/
def utf8Decode (bytes : List Nat) : List Nat := utf8DecodeAux {} bytes

def isSurrogate (c : Nat) : Bool := decide (0xD800 ≤ c) && decide (c ≤ 0xDFFF)
def isLeadSurrogate (c : Nat) : Bool := decide (0xD800 ≤ c) && decide (c ≤ 0xDBFF)
def isTrailSurrogate (c : Nat) : Bool := decide (0xDC00 ≤ c) && decide (c ≤ 0xDFFF)

/-- Infra: code unit string → scalar value string (unpaired surrogates become U+FFFD) -/
def utf16Decode : List Nat → List Nat
  | [] => []
  | [c] => [if isSurrogate c then 0xFFFD else c]
  | c :: r@(t :: r1) =>
    if isLeadSurrogate c && isTrailSurrogate t then
      (0x10000 + (c - 0xD800) * 0x400 + (t - 0xDC00)) :: utf16Decode r1
    else (if isSurrogate c then 0xFFFD else c) :: utf16Decode r

/-- the library's documented UTF-32 rule: surrogates and values above U+10FFFF become U+FFFD -/
def utf32Decode (l : List Nat) : List Nat :=
  l.map (fun c => if isSurrogate c || decide (c > 0x10FFFF) then 0xFFFD else c)

def isScalar (c : Nat) : Bool := decide (c ≤ 0x10FFFF) && !isSurrogate c

/-- Encoding Standard UTF-8 encoder for one scalar value -/
def utf8EncodeChar (cp : Nat) : List Nat :=
  if cp ≤ 0x7F then [cp]
  else if cp ≤ 0x7FF then [0xC0 + cp / 64, 0x80 + cp % 64]
  else if cp ≤ 0xFFFF then [0xE0 + cp / 4096, 0x80 + cp / 64 % 64, 0x80 + cp % 64]
  else [0xF0 + cp / 262144, 0x80 + cp / 4096 % 64, 0x80 + cp / 64 % 64, 0x80 + cp % 64]

def utf8Encode (s : List Nat) : List Nat := s.flatMap utf8EncodeChar

def utf16EncodeChar (cp : Nat) : List Nat :=
  if cp ≤ 0xFFFF then [cp] else [0xD800 + (cp - 0x10000) / 0x400, 0xDC00 + (cp - 0x10000) % 0x400]

def utf16Encode (s : List Nat) : List Nat := s.flatMap utf16EncodeChar

def decode : Enc → List Nat → List Nat
  | .u8 => utf8Decode
  | .u16 => utf16Decode
  | .u32 => utf32Decode

def encode : Enc → List Nat → List Nat
  | .u8 => utf8Encode
  | .u16 => utf16Encode
  | .u32 => id

end Upa.Spec
