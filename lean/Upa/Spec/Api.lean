import Upa.Spec.UrlParser
import Upa.Spec.Form
import Upa.Impl.Api
/-
  URL Standard §6.1 URL class: constructor / parse, the attribute setters, written over the
  Standard-shaped basic URL parser.  Arguments: code units in encoding `e`; they are converted to a
  scalar value string as property C10 prescribes (ASCII tab/newline code units are removed by the
  parser before ill-formed subsequences are determined; for the values that never reach the parser
  the plain conversion is used).
-/
namespace Upa.Spec

open Upa.Impl (Setter doTrim removeWs)

/-- the scalar value string the basic URL parser works on -/
def parserInput (e : Enc) (units : List Nat) : List Nat := decode e (removeWs units)

def apiParse (idna : Idna) (e : Enc) (units : List Nat) (base : Option Url) : Option Url :=
  (basicParse idna (parserInput e (doTrim units)) base {} none).1

def cannotHaveUsernamePasswordPort (u : Url) : Bool :=
  u.host.isNone || u.host == some emptyHost || u.scheme == Upa.Impl.sFile

def stripTrailingSpaces (u : Url) : Url :=
  if u.hasOpaquePath ∧ u.fragment.isNone ∧ u.query.isNone then
    { u with opaquePath := (u.opaquePath.reverse.dropWhile (· == 0x20)).reverse }
  else u

def apiSet (idna : Idna) (s : Setter) (e : Enc) (units : List Nat) (u : Url) : Url :=
  match s with
  | .href => match apiParse idna e units none with | some u' => u' | none => u
  | .protocol => (basicParse idna (parserInput e units ++ [0x3A]) none u (some .schemeStart)).2
  | .username =>
    if cannotHaveUsernamePasswordPort u then u
    else { u with username := utf8PercentEncode userinfoSet (decode e units) }
  | .password =>
    if cannotHaveUsernamePasswordPort u then u
    else { u with password := utf8PercentEncode userinfoSet (decode e units) }
  | .host => if u.hasOpaquePath then u else (basicParse idna (parserInput e units) none u (some .host)).2
  | .hostname => if u.hasOpaquePath then u else (basicParse idna (parserInput e units) none u (some .hostname)).2
  | .port =>
    if cannotHaveUsernamePasswordPort u then u
    else if units = [] then { u with port := none }
    else (basicParse idna (parserInput e units) none u (some .port)).2
  | .pathname =>
    if u.hasOpaquePath then u
    else (basicParse idna (parserInput e units) none { u with path := [] } (some .pathStart)).2
  | .search =>
    match units with
    | [] => stripTrailingSpaces { u with query := none }
    | c :: r =>
      let input := if c = 0x3F then r else units
      (basicParse idna (parserInput e input) none { u with query := some [] } (some .query)).2
  | .hash =>
    match units with
    | [] => stripTrailingSpaces { u with fragment := none }
    | c :: r =>
      let input := if c = 0x23 then r else units
      (basicParse idna (parserInput e input) none { u with fragment := some [] } (some .fragment)).2

end Upa.Spec
