import Upa.Basic
import Upa.Spec.Sets
import Upa.Spec.Encoding
import Upa.Spec.Percent
import Upa.Spec.Ip
import Upa.Impl.Host
/-
  URL Standard §3.5 host parser, opaque-host parser.  `idna` = "domain to ASCII" with beStrict false
  (failure and the empty result are both `none`); it receives the domain as UTF-16 code units, the
  form in which UTS #46 implementations take it.
-/
namespace Upa.Spec

def opaqueHostParse (s : List Nat) : Option Host :=
  if s.any forbiddenHost then none
  else
    let t := utf8PercentEncode c0ControlSet s
    -- the Standard's caller turns the empty opaque host into the empty host
    some { kind := if t = [] then .empty else .opaque, text := t }

/-- host parser; `s` non-empty unless isOpaque -/
def hostParse (idna : Idna) (s : List Nat) (isOpaque : Bool) : Option Host :=
  match s with
  | [] => if isOpaque then some { kind := .empty, text := [] } else none
  | c0 :: _ =>
    if c0 = 0x5B then                                         -- 1
      if s.getLast? ≠ some 0x5D then none
      else (ipv6Parse (s.drop 1).dropLast).map fun a =>
        { kind := .ipv6, text := [0x5B] ++ ipv6Serialize a ++ [0x5D] }
    else if isOpaque then opaqueHostParse s                    -- 2
    else
      let domain := utf8Decode (stringPercentDecode s)         -- 4
      match idna (utf16Encode domain) with                     -- 5, 6
      | none => none
      | some ascii =>
        if ascii.any forbiddenDomain then none                 -- 7
        else if endsInANumber ascii then                       -- 8
          (ipv4Parse ascii).map fun n => { kind := .ipv4, text := ipv4Serialize n }
        else some { kind := .domain, text := ascii }           -- 9

end Upa.Spec
