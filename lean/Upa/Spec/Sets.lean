import Upa.Basic
/-
  URL Standard (snapshot 27 Sep 2023) §1.3 percent-encode sets, §3.1 forbidden host / domain code
  points, Infra code point classes.  Predicates say "c IS IN the percent-encode set".
  The library stores the complements restricted to one byte ("no-encode sets"); `Upa.Props.C13`
  proves the regenerated tables equal `noEncode <set>`.
-/
namespace Upa.Spec

def c0ControlSet (c : Nat) : Bool := decide (c ≤ 0x1F) || decide (c > 0x7E)
def fragmentSet (c : Nat) : Bool := c0ControlSet c || c == 0x20 || c == 0x22 || c == 0x3C || c == 0x3E || c == 0x60
def querySet (c : Nat) : Bool := c0ControlSet c || c == 0x20 || c == 0x22 || c == 0x23 || c == 0x3C || c == 0x3E
def specialQuerySet (c : Nat) : Bool := querySet c || c == 0x27
def pathSet (c : Nat) : Bool := querySet c || c == 0x3F || c == 0x60 || c == 0x7B || c == 0x7D
def userinfoSet (c : Nat) : Bool :=
  pathSet c || c == 0x2F || c == 0x3A || c == 0x3B || c == 0x3D || c == 0x40 || c == 0x5B || c == 0x5C
    || c == 0x5D || c == 0x5E || c == 0x7C
def componentSet (c : Nat) : Bool :=
  userinfoSet c || c == 0x24 || c == 0x25 || c == 0x26 || c == 0x2B || c == 0x2C
/-- application/x-www-form-urlencoded percent-encode set -/
def urlencodedSet (c : Nat) : Bool :=
  componentSet c || c == 0x21 || c == 0x27 || c == 0x28 || c == 0x29 || c == 0x7E
/-- library-documented: path set plus `%` -/
def rawPathSet (c : Nat) : Bool := pathSet c || c == 0x25
/-- library-documented: raw path set plus `:` `\` `|` -/
def posixPathSet (c : Nat) : Bool := rawPathSet c || c == 0x3A || c == 0x5C || c == 0x7C

def forbiddenHost (c : Nat) : Bool :=
  c == 0x00 || c == 0x09 || c == 0x0A || c == 0x0D || c == 0x20 || c == 0x23 || c == 0x2F || c == 0x3A
    || c == 0x3C || c == 0x3E || c == 0x3F || c == 0x40 || c == 0x5B || c == 0x5C || c == 0x5D
    || c == 0x5E || c == 0x7C
def forbiddenDomain (c : Nat) : Bool := forbiddenHost c || decide (c ≤ 0x1F) || c == 0x25 || c == 0x7F

/-- The library's membership test of a *no-encode* set: one byte, not in the percent-encode set.
    Code points above U+00FF are never members (`is_8bit` guard). -/
def noEncode (encodeSet : Nat → Bool) (c : Nat) : Bool := decide (c < 256) && !encodeSet c

/-- library helper class: ASCII domain character = 0x20..0x7F minus forbidden domain code points -/
def asciiDomainChar (c : Nat) : Bool := decide (0x20 ≤ c) && decide (c ≤ 0x7F) && !forbiddenDomain c
/-- library helper class: characters that may occur in an IPv4 host -/
def ipv4Char (c : Nat) : Bool := isHex c || c == 0x2E || c == 0x58 || c == 0x78

/-- urlencoded serializer, byte rule: what `kEncByte[b]` must be. `0x25` means "percent-encode". -/
def urlencodedByte (b : Nat) : Nat :=
  if b == 0x20 then 0x2B
  else if isAlpha b || isDigit b || b == 0x2A || b == 0x2D || b == 0x2E || b == 0x5F then b
  else 0x25

end Upa.Spec
