/-
  Basic vocabulary shared by the models.  Code units, bytes and code points are plain `Nat`
  (an `abbrev` over `Nat` blinds `omega`).  Strings are `List Nat`.
-/
namespace Upa

/-- ASCII digit `0-9`  (detail::is_ascii_digit) -/
def isDigit (c : Nat) : Bool := decide (0x30 ≤ c) && decide (c ≤ 0x39)
/-- ASCII alpha (detail::is_ascii_alpha) -/
def isAlpha (c : Nat) : Bool :=
  (decide (0x61 ≤ c) && decide (c ≤ 0x7A)) || (decide (0x41 ≤ c) && decide (c ≤ 0x5A))
/-- ASCII hex digit -/
def isHex (c : Nat) : Bool :=
  isDigit c || (decide (0x41 ≤ c) && decide (c ≤ 0x46)) || (decide (0x61 ≤ c) && decide (c ≤ 0x66))
/-- scheme code point after the first: ASCII alphanumeric, `+`, `-`, `.` -/
def isSchemeChar (c : Nat) : Bool := isAlpha c || isDigit c || c == 0x2B || c == 0x2D || c == 0x2E

/-- value of a hex digit (only meaningful when `isHex c`) -/
def hexVal (c : Nat) : Nat :=
  if c ≤ 0x39 then c - 0x30 else if c ≤ 0x46 then c - 0x41 + 10 else c - 0x61 + 10

/-- upper-case hex digit of `n < 16` (kHexCharLookup) -/
def hexDigitUpper (n : Nat) : Nat := if n < 10 then 0x30 + n else 0x41 + (n - 10)
/-- lower-case hex digit of `n < 16` (util::unsigned_to_str digit table) -/
def hexDigitLower (n : Nat) : Nat := if n < 10 then 0x30 + n else 0x61 + (n - 10)

/-- util::ascii_to_lower_char -/
def toLower (c : Nat) : Nat := if 0x41 ≤ c ∧ c ≤ 0x5A then c + 0x20 else c

/-- `%XX` (append_percent_encoded_byte) -/
def pctByte (b : Nat) : List Nat := [0x25, hexDigitUpper (b / 16), hexDigitUpper (b % 16)]

/-- Input character widths: char/char8_t, char16_t, char32_t/wchar_t(Linux). -/
inductive Enc where
  | u8 | u16 | u32
  deriving DecidableEq, Repr

/-- decimal digits of a number, most significant first (util::unsigned_to_str base 10). -/
def toDigitsAux (base : Nat) (digit : Nat → Nat) : Nat → Nat → List Nat → List Nat
  | 0, _, acc => acc
  | fuel+1, n, acc =>
    let acc' := digit (n % base) :: acc
    if n / base = 0 then acc' else toDigitsAux base digit fuel (n / base) acc'

def toDecimal (n : Nat) : List Nat := toDigitsAux 10 (fun d => 0x30 + d) (n + 1) n []
def toHexLower (n : Nat) : List Nat := toDigitsAux 16 hexDigitLower (n + 1) n []

/-- value of a string of decimal digits (port_from_str) -/
def decimalValue (s : List Nat) : Nat := s.foldl (fun acc c => acc * 10 + (c - 0x30)) 0

/-- split on a separator predicate ("strictly split"): always returns at least one piece. -/
def splitOnP (p : Nat → Bool) : List Nat → List (List Nat)
  | [] => [[]]
  | c :: cs =>
    if p c then [] :: splitOnP p cs
    else match splitOnP p cs with
      | [] => [[c]]          -- unreachable
      | h :: t => (c :: h) :: t

def startsWith (pre s : List Nat) : Bool := pre.isPrefixOf s

def asciiStr (s : String) : List Nat := s.toList.map Char.toNat

end Upa
