import Upa.Impl.SetRepApi
import Upa.Impl.UpdateRep
import Upa.Impl.ParseRep
import Upa.Impl.Fault
/-
  C20 on the operational model: the in-place edits of `Impl/SetRep.lean`, the whole setters of
  `Impl/SetRepApi.lean` and the params write-back of `Impl/UpdateRep.lean` once more, with ALLOCATION
  FAILURE made explicit.  Same functions, same structure, suffix `X`; every primitive of the C++ that
  can allocate - and therefore throw `std::bad_alloc` / `std::length_error` - is marked, IN PROGRAM
  ORDER, together with the stored representation (`Rep`: `norm_url_`, `part_end_`, flags,
  `path_segment_count_`, `scheme_inf_`) the url object has at that moment.

  Line numbers: include/upa/url.h of /repo as of this writing (url_serializer 2558-2851, url_setter
  2854-3053, the setters 1488-1643, url_parse 1651-2369), include/upa/url_host.h 158-361,
  include/upa/url_search_params-inl.h 25-40.

  What can throw (marked `mayThrow` / `appendNormX` / `appendUnitsX` below):
    * growth of `norm_url_`: `append` / `+=` / `push_back` / `replace`;
    * growth of the setter's temporaries `strp_` (std::string) and `path_seg_end_` (std::vector), of the
      parser's `simple_buffer`s (white space removal, copy of a self-referential argument, the host
      parser's `buff_uc` / `buff_utf8` / `buff_ascii`), `strp_.reserve` (url.h:1671 -> 2859-2861), the
      `std::basic_string` temporary of url.h:1518 / 1536, `parse_search_params()` (url.h:1620);
  and what cannot: `resize` to a smaller size, `clear`, `pop_back`, assignments to offsets / flags /
  counters / `scheme_inf_`, `find_last_not_of`.  `std::string::append / replace / push_back / reserve`
  have the strong guarantee: when they throw the string is unchanged.  `util::checked_diff` of
  url.h:2843 sits AFTER the `replace` and the `fill` of `replace_part`; it throws only when
  `|len - l| > PTRDIFF_MAX`, impossible for the sizes of two live strings, and is not marked.
  There is no `try`/`catch` in the code modelled HERE (the setters, `url_setter`, `url_search_params::update`):
  a failure only aborts, so the control flow up to the failing primitive does not depend on the
  schedule.  The one handler of the library is in `url::do_parse` (url.h:1438-1464, since the repairs
  of F13 / F15 and commit 46fa9a3: `catch (...) { reset_record(); throw; }` around `new_url()`,
  `url_parse` and `parse_search_params()`); it is modelled in `Impl/ParseRepExc.lean` (`doParseExc`),
  properties in `Props/C20c.lean`.

  A computation `X α` is therefore given by the list `pts` of the representations the url object
  has at the 1st, 2nd, ... throwing primitive the call passes (each BEFORE that primitive takes
  effect: strong guarantee) and the value `val` it returns when none fails.  `X.run m k` is the run
  under the schedule "the k-th throwing primitive fails": `threw pts[k]`, or `done val` when `k` is
  `none` or beyond the last primitive.  The laws that make this the usual threading of a failure
  counter through `pure` / `>>=` / `mayThrow` are `Props/C20b.lean`, `C20b_threading`.

  A text appended piecewise (percent-encoding appends unit by unit or in short runs; `util::append`,
  `append_tr`, `ipv4_serialize`, ... in longer ones) is modelled unit by unit (`appendUnitsX`): one
  throwing primitive per code unit, the units before it being in the string.  Whatever the real
  chunking, the string at a failure is the old string plus a prefix of the text - a state of this
  model.  Likewise primitives that only grow temporaries are counted generously (one per code unit
  of the text); they all carry the SAME representation, so only their presence matters for
  `failStates`.

  `Props/C20b.lean`: `val` is the function of SetRep.lean / SetRepApi.lean / UpdateRep.lean, and every
  element of `pts` has its offsets in bounds and ascending (`OffsetsOk`).  That is NOT enough for
  `url::host()` (unguarded `part_end_[HOST or PORT] - part_end_[HOST_START]`): the states
  `url_setter::start_part` leaves between its cut (offset of the part zeroed, non-null flag still on)
  and `save_part` break it when the part is HOST or PORT, i.e. when the host / port is the LAST part
  of the URL (`C20b_host_view_counterexample`; confirmed on the real library).

  For a checker: `failStates idna s e units r = (setRepT idna s e units r).pts`
  (`Proofs.SetRepExc.failStates_setter_eq`); evaluating `pts` directly is linear, `failStates` runs the
  setter once per failure point.
-/
namespace Upa.Impl

/-! ### computations that pass throwing primitives -/

/-- how a call ends -/
inductive Res (α : Type) where
  /-- it returned -/
  | done (a : α)
  /-- an exception left it; `r`: the stored representation of the url object at that moment -/
  | threw (r : Rep)
  deriving DecidableEq, Repr

abbrev Outcome := Res Rep

/-- `pts`: the representation at each throwing primitive passed, in program order; `val`: the value
    returned when no primitive fails -/
structure X (α : Type) where
  pts : List Rep
  val : α

instance : Monad X where
  pure a := ⟨[], a⟩
  bind m f := ⟨m.pts ++ (f m.val).pts, (f m.val).val⟩

/-- a primitive that can throw; if it does, the url object is left as `r` -/
def mayThrow (r : Rep) : X Unit := ⟨[r], ()⟩

/-- `n` such primitives in a row, none of which touches the url object -/
def mayThrowN (n : Nat) (r : Rep) : X Unit := ⟨List.replicate n r, ()⟩

/-- the run in which the `k`-th (0-based) throwing primitive fails (`none`: no failure); second
    component: the number of throwing primitives passed -/
def X.run {α : Type} (m : X α) : Option Nat → Res α × Nat
  | none => (.done m.val, m.pts.length)
  | some k =>
    match m.pts[k]? with
    | some r => (.threw r, k)
    | none => (.done m.val, m.pts.length)

/-- the representations a failure can leave behind, by failure point `k = 0, 1, ...` -/
def X.failStates {α : Type} (m : X α) : List Rep :=
  (List.range (m.run none).2).filterMap fun k =>
    match (m.run (some k)).1 with
    | .threw r => some r
    | .done _ => none

/-! ### `norm_url_` growth -/

/-- ONE call of `norm_url_.append(t)` / `+= c` / `push_back(c)`: it throws with the string unchanged,
    or the text is appended -/
def appendNormX (r : Rep) (t : List Nat) : X Rep := do
  mayThrow r
  pure { r with norm := r.norm ++ t }

/-- a text appended to `norm_url_` unit by unit -/
def appendUnitsX (r : Rep) : List Nat → X Rep
  | [] => pure r
  | c :: t => do
    let r1 ← appendNormX r [c]
    appendUnitsX r1 t

/-! ### url_serializer: replace_part, start_part, save_part -/

/-- url_serializer::replace_part(last_pt, str, len, first_pt, len0) (url.h:2835-2851): the only
    throwing primitive is `norm_url_.replace(b, l, str, len)` (2840); the `fill` (2841) and the shift
    loop (2844-2850) come after it -/
def replacePartX (r : Rep) (lastPt firstPt : Nat) (str : List Nat) (len0 : Nat) : X Rep := do
  mayThrow r                                           -- 2840
  pure (replacePart r lastPt firstPt str len0)         -- 2841-2850

/-- url_serializer::replace_part(new_pt, str, len) (url.h:2831-2833) -/
def replacePart1X (r : Rep) (pt : Nat) (str : List Nat) : X Rep := replacePartX r pt pt str 0

/-- the seeded change `c20_r3_offsets_before_replace`: the `fill` of 2841 moved in front of the
    `replace` of 2840.  Without a failure nothing changes; a failing `replace` leaves the offsets of
    `first_pt .. last_pt - 1` rewritten and the string as it was. -/
def replacePartOffsetsFirstX (r : Rep) (lastPt firstPt : Nat) (str : List Nat) (len0 : Nat) : X Rep := do
  let b := r.partPos firstPt
  mayThrow { r with partEnd := fillRange r.partEnd firstPt lastPt (b + len0) }
  pure (replacePart r lastPt firstPt str len0)

/-- the first switch of url_serializer::start_part (url.h:2612-2639): the delimiter in front of the
    new part is appended by `norm_url_.append("//")` (2616), `+= ':'` (2620), `+= '@'` (2629);
    `part_end_[PASSWORD]` is written (2623) BEFORE the `+= '@'` of 2629.  Second component:
    `fill_start_pt`. -/
def serSwitch1X (r : Rep) (lastPt newPt : Nat) : X (Rep × Nat) :=
  if lastPt = SCHEME then do
    let r' ← (if newPt ≤ HOST then appendNormX r [0x2F, 0x2F] else pure r)             -- 2616
    pure (r', lastPt + 1)
  else if lastPt = USERNAME then
    if newPt = PASSWORD then do
      let r' ← appendNormX r [0x3A]                                                     -- 2620
      pure (r', lastPt + 1)
    else do
      let r' := { r with partEnd := r.partEnd.set PASSWORD r.norm.length }              -- 2623
      let r'' ← (if newPt = HOST then appendNormX r' [0x40] else pure r')               -- 2629
      pure (r'', HOST_START)
  else if lastPt = PASSWORD then do
    let r' ← (if newPt = HOST then appendNormX r [0x40] else pure r)                   -- 2629
    pure (r', lastPt + 1)
  else pure (r, lastPt + 1)

/-- url_serializer::start_part (url.h:2609-2660) with `last_pt_ = lastPt`: the first switch;
    `fill_parts_offset` (2641) BEFORE the `+= ':' / '?' / '#'` of the second switch (2645-2651). -/
def serStartPartX (r : Rep) (lastPt newPt : Nat) : X Rep :=
  if lastPt = PATH ∧ newPt = PATH then pure r          -- 2634-2637: continue on path
  else do
    let r1 ← serSwitch1X r lastPt newPt
    let r2 := r1.1
    -- 2641
    let r3 := { r2 with partEnd := fillRange r2.partEnd r1.2 newPt r2.norm.length }
    -- second switch, 2643-2654
    let d : List Nat :=
      if newPt = PORT then [0x3A] else if newPt = QUERY then [0x3F]
      else if newPt = FRAGMENT then [0x23] else []
    if d = [] then pure r3 else appendNormX r3 d

/-! ### url_setter: start_part / save_part -/

/-- url_setter::start_part (url.h:2876-2916).  In the `use_strp_` branch only the temporary `strp_`
    is assigned (2886 / 2892 / 2895); in the other branch the string is cut and the offsets of
    `new_pt` and of the parts behind it are zeroed (2904-2909: `resize` to a smaller size and
    assignments, nothing throws) BEFORE `url_serializer::start_part` appends. -/
def setStartPartX (r : Rep) (newPt : Nat) : X Open :=
  if r.pe newPt ≠ 0 then
    -- is there any part after new_pt?  (2881)
    if newPt < FRAGMENT ∧ r.pe newPt < r.norm.length then do
      let strp : List Nat :=
        if newPt = HOST then (if r.partLen SCHEME_SEP < 3 then [0x3A, 0x2F, 0x2F] else [])
        else if newPt = PASSWORD ∨ newPt = PORT then [0x3A]
        else if newPt = QUERY then [0x3F]
        else []
      (if strp = [] then pure () else mayThrow r)       -- `strp_ = "://"` / `':'` / `'?'`
      pure { rep := r, useStrp := true, strp := strp, currPt := newPt }
    else do
      -- remove new_pt part (2904-2909)
      let lastPt := newPt - 1
      let pe1 := r.partEnd.set newPt 0
      let r1 := { r with norm := r.norm.take (r.pe lastPt),
                         partEnd := pe1.take (newPt + 1) ++ setWhileNonzero 0 (pe1.drop (newPt + 1)) }
      let r2 ← serStartPartX r1 lastPt newPt            -- 2915
      pure { rep := r2, useStrp := false, strp := [], currPt := newPt }
  else do
    -- 2911, 2915
    let r2 ← serStartPartX r (findLastPart r newPt) newPt
    pure { rep := r2, useStrp := false, strp := [], currPt := newPt }

/-- appending to the string returned by `start_part`: to the temporary `strp_` (the url object is
    untouched) or to `norm_url_` itself -/
def Open.appendX (o : Open) (t : List Nat) : X Open :=
  if o.useStrp then do
    mayThrowN t.length o.rep
    pure { o with strp := o.strp ++ t }
  else do
    let r ← appendUnitsX o.rep t
    pure { o with rep := r }

/-- url_setter::save_part (url.h:2918-2954): `strp_ += '@'` (2932) grows the temporary; every branch
    ends in ONE `replace_part` -/
def setSavePartX (o : Open) : X Rep :=
  let r := o.rep
  if o.useStrp then
    if o.currPt = HOST then
      if r.partLen SCHEME_SEP < 3 then
        replacePartX r HOST SCHEME_SEP o.strp 3                                -- 2923
      else replacePart1X r HOST o.strp                                         -- 2925
    else
      let emptyVal : Bool := decide (o.strp.length ≤ kPartStart.getD o.currPt 0)
      let isCred : Bool := o.currPt == USERNAME || o.currPt == PASSWORD
      if isCred && !emptyVal && !r.hasCredentials then do
        mayThrow r                                                             -- 2932
        let s := o.strp ++ [0x40]
        replacePartX r HOST_START o.currPt s (s.length - 1)                    -- 2934
      else if isCred && emptyVal &&
          r.isEmpty (if o.currPt = USERNAME then PASSWORD else USERNAME) then
        replacePartX r HOST_START o.currPt [] 0                                -- 2938
      else
        let s := if (o.currPt == PASSWORD || o.currPt == PORT) && emptyVal then [] else o.strp
        replacePart1X r o.currPt s                                             -- 2943-2945
  else pure (serSavePart r o.currPt)                                           -- 2952: an assignment

/-- `start_part(pt)`; append `text`; `save_part()` -/
def writePartX (r : Rep) (pt : Nat) (text : List Nat) : X Rep := do
  let o ← setStartPartX r pt
  let o ← o.appendX text
  setSavePartX o

/-- … and `set_flag(1u << pt)` (url.h:2040, 2329, 2365; url_search_params-inl.h:36) -/
def writePartFlagX (r : Rep) (pt : Nat) (text : List Nat) : X Rep := do
  let r1 ← writePartX r pt text
  pure (r1.setNotNull pt)

/-! ### clear / empty -/

/-- url_setter::clear_part (url.h:2956-2961): `replace_part`, THEN the flag -/
def clearPartX (r : Rep) (pt : Nat) : X Rep :=
  if r.pe pt ≠ 0 then do
    let r1 ← replacePart1X r pt []
    pure (r1.setNull pt)
  else pure r

/-- url_setter::empty_part (url.h:2963-2967) -/
def emptyPartX (r : Rep) (pt : Nat) : X Rep :=
  if r.pe pt ≠ 0 then replacePart1X r pt [] else pure r

/-- url_setter::empty_host (url.h:2969-2972) -/
def emptyHostRepX (r : Rep) : X Rep := do
  let r1 ← emptyPartX r HOST
  pure (r1.setHostType 0)

/-! ### host -/

/-- url_serializer::hostDone (url.h:2739-2748): the setter's `save_part`, the host type, and THEN
    the removal of a "/." prefix by another `replace_part` -/
def hostDoneX (o : Open) (ht : Nat) : X Rep := do
  let r0 ← setSavePartX o                                                      -- 2740
  let r := r0.setHostType ht                                                   -- 2741
  if !r.isEmpty PATH_PREFIX then replacePart1X r PATH_PREFIX [] else pure r    -- 2744-2747

/-- `hostStart()`; append the serialised host; `hostDone(ht)` -/
def writeHostX (r : Rep) (text : List Nat) (ht : Nat) : X Rep := do
  let o ← setStartPartX r HOST
  let o ← o.appendX text
  hostDoneX o ht

/-- url_serializer::set_empty_host (url.h:2716-2720) -/
def setEmptyHostX (r : Rep) : X Rep := do
  let r1 ← writePartX r HOST []
  pure (r1.setHostType 0)

/-! ### path -/

/-- url_serializer::adjust_path_prefix (url.h:2693-2704) -/
def adjustPathPrefixX (r : Rep) : X Rep :=
  let pathname := r.partView PATH
  let newPrefix : List Nat :=
    if !r.hostNotNull && decide (r.segCount > 1) &&
        (decide (pathname.length > 1) && pathname.getD 0 0 == 0x2F && pathname.getD 1 0 == 0x2F)
    then [0x2F, 0x2E] else []
  if r.isEmpty PATH_PREFIX != newPrefix.isEmpty then replacePart1X r PATH_PREFIX newPrefix else pure r

/-- url_setter::commit_path (url.h:2984-2996): the offsets of never-started parts up to PATH are
    filled (2986-2989) BEFORE `replace_part(PATH, strp_)` (2991); the segment count is written
    (2992) BEFORE `adjust_path_prefix` replaces once more (2995) -/
def commitPathX (r : Rep) (pathText : List Nat) (segCount : Nat) : X Rep := do
  let r1 := { r with partEnd := fillUnsetDown r.partEnd r.norm.length PATH }
  let r2 ← replacePart1X r1 PATH pathText
  let r3 := { r2 with segCount := segCount }
  adjustPathPrefixX r3

/-- url_setter: `start_path_segment()` (`strp_ += '/'`, url.h:2976); the segment text appended to
    `strp_`; `save_path_segment()` (`path_seg_end_.push_back`, 2981).  Only temporaries of the setter
    grow: the url object stays `r`. -/
def PathBuf.pushX (r : Rep) (b : PathBuf) (seg : List Nat) : X PathBuf := do
  mayThrowN (seg.length + 2) r
  pure (b.push seg)

/-- url_setter::commit_path on the buffer -/
def commitPathBufX (r : Rep) (b : PathBuf) : X Rep := commitPathX r b.strp b.segEnd.length

/-! ### scheme -/

/-- url_setter::save_scheme (url.h:2869-2872): `replace_part(SCHEME, strp_)`, THEN `set_scheme` -/
def saveSchemeX (r : Rep) (s : List Nat) : X Rep := do
  let r1 ← replacePart1X r SCHEME s
  let r2 := { r1 with partEnd := r1.partEnd.set SCHEME s.length }
  pure { r2 with schemeIdx := schemeIndex (r2.partView SCHEME) }

/-! ### url_parse under a state override -/

/-- the head of url_parser::url_parse (url.h:1657-1672): white space removal into `buff_no_ws`
    (`reserve`, 971), copy of a self-referential argument (1663), `urls.reserve(length + 32)` (1671,
    `strp_.reserve` for the setter) -/
def preludeX (r : Rep) : X Unit := mayThrowN 3 r

/-- scheme_start_state / scheme_state under a state override (url.h:1683-1743): the scheme is pushed
    to `strp_` char by char (1714), `save_scheme` (1731), and THEN `clear_part(PORT)` (1738) -/
def protocolRepX (r : Rep) (p : List Nat) : X (Rep × Bool) :=
  match p with
  | [] => pure (r, false)
  | c0 :: r0 =>
    if !isAlpha c0 then pure (r, false)
    else
      let body := r0.takeWhile isSchemeChar
      let rest := r0.dropWhile isSchemeChar
      let isScheme := match rest with
        | c :: _ => c == 0x3A
        | [] => true
      if !isScheme then pure (r, false)
      else do
        let scheme := (c0 :: body).map (· ||| 0x20)
        mayThrowN scheme.length r                                              -- 1714
        let inf := schemeIndex scheme
        if r.isSpecialScheme != inf.isSome then pure (r, false)
        else if inf == some 4 && (r.hasCredentials || r.portNotNull) then pure (r, false)
        else if r.isFileScheme && r.isEmpty HOST then pure (r, false)
        else do
          let r1 ← saveSchemeX r scheme                                        -- 1731
          let dp := schemeInfDefaultPort inf
          let r2 ← (if dp.isSome && r1.portInt == dp then clearPartX r1 PORT else pure r1)   -- 1738
          pure (r2, true)

/-- host_parser::parse_host (url_host.h:158-361) writing through `hostStart` / `hostDone`.  Its
    buffers (`buff_uc`, `buff_utf8`, `buff_ascii`, url_host.h:217-267) grow before anything is
    written; `hostStart()` is called only once the host is known to be valid. -/
def parseHostRepX (idna : Idna) (r : Rep) (s : List Nat) : X (Rep × Bool) :=
  let isOpaque := !r.isSpecialScheme
  match s with
  | [] => do
    let r1 ← writeHostX r [] 0                                                 -- url_host.h:170-171
    pure (r1, isOpaque)
  | _ => do
    mayThrowN (s.length + 1) r                                                 -- the buffers
    match parseHost idna s isOpaque with
    | none => pure (r, false)
    | some h => do
      let r1 ← writeHostX r h.text (hostKindCode h.kind)
      pure (r1, true)

/-- port_state under a state override (url.h:2011-2056) -/
def portStateRepX (r : Rep) (p : List Nat) : X (Rep × Bool) :=
  let digits := p.takeWhile isDigit
  if digits ≠ [] then
    let d := stripLeadingZeros digits
    if d.length > 5 then pure (r, false)
    else
      let port := decimalValue d
      if port > 0xFFFF then pure (r, false)
      else if r.schemeIdx.isNone || schemeInfDefaultPort r.schemeIdx != some port then do
        let r1 ← writePartFlagX r PORT d                                       -- 2038-2040
        pure (r1, true)
      else do
        let r1 ← clearPartX r PORT                                             -- 2043
        pure (r1, true)
  else pure (r, true)

/-- file_host_state under a state override (url.h:2146-2181) -/
def fileHostStateRepX (idna : Idna) (r : Rep) (p : List Nat) : X (Rep × Bool) :=
  let buf := p.takeWhile (fun c => !isSpecialAuthorityEnd c)
  if buf = [] then do
    let r1 ← setEmptyHostX r                                                   -- 2152
    pure (r1, true)
  else do
    let res ← parseHostRepX idna r buf                                         -- 2167
    if !res.2 then pure res
    else if res.1.partView HOST == sLocalhost then do
      let r1 ← emptyHostRepX res.1                                             -- 2173
      pure (r1, true)
    else pure res

/-- host_state / hostname_state under a state override (url.h:1950-2009): the host is written
    (`parse_host`, 1994), and THEN the port (port_state) -/
def hostStateRepX (idna : Idna) (hostnameOnly : Bool) (r : Rep) (p : List Nat) : X (Rep × Bool) :=
  if r.isFileScheme then fileHostStateRepX idna r p
  else
    let isEndC := if r.isSpecialScheme then isSpecialAuthorityEnd else isAuthorityEnd
    let auth := p.takeWhile (fun c => !isEndC c)
    let afterAuth := p.dropWhile (fun c => !isEndC c)
    let scan := hostScan auth false
    let hostPart := scan.1
    let portPart := scan.2
    let isPort := portPart.isSome
    if hostPart = [] && (isPort || r.isSpecialScheme) then pure (r, false)
    else if hostPart = [] && (r.hasCredentials || r.portNotNull) then pure (r, false)
    else if isPort && hostnameOnly then pure (r, false)
    else do
      let res ← parseHostRepX idna r hostPart
      if !res.2 then pure res
      else
        match portPart with
        | some pp => portStateRepX res.1 (pp ++ afterAuth)
        | none => pure res

/-- one iteration of the loop of url_parser::parse_path (url.h:2410-2448) on the setter's buffer -/
def pathSegmentBufX (r : Rep) (isFile : Bool) (b : PathBuf) (seg : List Nat) (isLast : Bool) : X PathBuf :=
  if doubleDot seg then
    let b := b.shorten isFile                          -- `pop_back`, `clear`, `resize` down: no throw
    if isLast then b.pushX r [] else pure b
  else if singleDot seg then
    if isLast then b.pushX r [] else pure b
  else
    match seg with
    | [a, c] =>
      if isFile && b.segEnd.isEmpty && isWindowsDrive a c then b.pushX r [a, 0x3A]
      else b.pushX r (percentEncode pathNoEnc seg)
    | _ => b.pushX r (percentEncode pathNoEnc seg)

def pathSegmentsBufX (r : Rep) (isFile : Bool) (b : PathBuf) : List (List Nat) → X PathBuf
  | [] => pure b
  | [seg] => pathSegmentBufX r isFile b seg true
  | seg :: rest => do
    let b1 ← pathSegmentBufX r isFile b seg false
    pathSegmentsBufX r isFile b1 rest

def parsePathBufX (r : Rep) (s : List Nat) : X PathBuf :=
  let segs := if r.isSpecialScheme then splitOnP isSlash s else splitOnP (· == 0x2F) s
  pathSegmentsBufX r r.isFileScheme {} segs

/-- path_start_state / path_state under a state override (url.h:2186-2253): the new path is built in
    the setter's temporaries, and THEN `commit_path` -/
def pathStartStateRepX (r : Rep) (p : List Nat) : X (Rep × Bool) :=
  if r.isSpecialScheme then do
    let p' := match p with
      | c :: rest => if isSlash c then rest else p
      | [] => p
    let b ← parsePathBufX r p'
    let r1 ← commitPathBufX r b
    pure (r1, true)
  else
    match p with
    | c :: rest => do
      let p' := if c = 0x2F then rest else p
      let b ← parsePathBufX r p'
      let r1 ← commitPathBufX r b
      pure (r1, true)
    | [] => do
      let b : PathBuf ← (if !r.hostNotNull then PathBuf.pushX r {} [] else pure {})   -- 2223-2224
      let r1 ← commitPathBufX r b                                              -- 2226
      pure (r1, true)

/-- query_state under a state override (url.h:2280-2329) -/
def queryStateRepX (r : Rep) (p : List Nat) : X (Rep × Bool) := do
  let cpset := if r.isSpecialScheme then specialQueryNoEnc else queryNoEnc
  let r1 ← writePartFlagX r QUERY (percentEncode cpset p)
  pure (r1, true)

/-- fragment_state (url.h:2340-2366) -/
def fragmentStateRepX (r : Rep) (p : List Nat) : X (Rep × Bool) := do
  let r1 ← writePartFlagX r FRAGMENT (percentEncode fragmentNoEnc p)
  pure (r1, true)

/-! ### the setters -/

/-- the setters of `upa::url` (url.h:1500-1643) but `href`, with their throwing primitives.
    `username` / `password`: the `std::basic_string` copy of a self-referential argument (1518, 1536)
    comes first.  `search`: `parse_search_params()` (1620) runs after the url has been edited. -/
def setRepT (idna : Idna) (s : Setter) (e : Enc) (units : List Nat) (r : Rep) : X (Rep × Bool) :=
  match s with
  | .href => pure (r, false)
  | .protocol => do preludeX r; protocolRepX r (prep e units)
  | .username =>
    if r.canHaveUsernamePasswordPort then do
      mayThrow r                                                               -- 1518
      let r1 ← writePartX r USERNAME (percentEncode userinfoNoEnc (decode e units))   -- 1520-1523
      pure (r1, true)
    else pure (r, false)
  | .password =>
    if r.canHaveUsernamePasswordPort then do
      mayThrow r                                                               -- 1536
      let r1 ← writePartX r PASSWORD (percentEncode userinfoNoEnc (decode e units))   -- 1538-1541
      pure (r1, true)
    else pure (r, false)
  | .host => if !r.opaquePath then do preludeX r; hostStateRepX idna false r (prep e units) else pure (r, false)
  | .hostname => if !r.opaquePath then do preludeX r; hostStateRepX idna true r (prep e units) else pure (r, false)
  | .port =>
    if r.canHaveUsernamePasswordPort then
      if units = [] then do
        let r1 ← clearPartX r PORT                                             -- 1579
        pure (r1, true)
      else do preludeX r; portStateRepX r (prep e units)
    else pure (r, false)
  | .pathname => if !r.opaquePath then do preludeX r; pathStartStateRepX r (prep e units) else pure (r, false)
  | .search =>
    match units with
    | [] => do
      let r1 ← clearPartX r QUERY                                              -- 1610
      pure (stripTrailingSpacesRep r1, true)                                   -- 1612-1613: no throw
    | c :: rest => do
      preludeX r
      let res ← queryStateRepX r (prep e (if c = 0x3F then rest else units))   -- 1617
      mayThrow res.1                                                           -- 1620
      pure res
  | .hash =>
    match units with
    | [] => do
      let r1 ← clearPartX r FRAGMENT                                           -- 1635
      pure (stripTrailingSpacesRep r1, true)                                   -- 1636
    | c :: rest => do preludeX r; fragmentStateRepX r (prep e (if c = 0x23 then rest else units))

/-- a setter under the schedule "the `k`-th throwing primitive fails": how the call ends (with the
    representation it leaves) and how many throwing primitives it passed -/
def setRepX (idna : Idna) (s : Setter) (e : Enc) (units : List Nat) (r : Rep) (k : Option Nat) :
    Outcome × Nat :=
  match (setRepT idna s e units r).run k with
  | (.done x, n) => (.done x.1, n)
  | (.threw r', n) => (.threw r', n)

/-- every representation a failing setter call can leave behind -/
def failStates (idna : Idna) (s : Setter) (e : Enc) (units : List Nat) (r : Rep) : List Rep :=
  (List.range (setRepX idna s e units r none).2).filterMap fun k =>
    match (setRepX idna s e units r (some k)).1 with
    | .threw r' => some r'
    | .done _ => none

/-! ### url_search_params::update (url_search_params-inl.h:25-40) -/

def updateRepT (r : Rep) (l : List BPair) : X Rep :=
  if l = [] then do
    let r1 ← clearPartX r QUERY                                                -- 31
    pure (stripTrailingSpacesRep r1)                                           -- 32
  else writePartFlagX r QUERY (formSerialize l)                                -- 34-37

def updateRepSerT (r : Rep) (ser : List Nat) : X Rep :=
  if ser.isEmpty then do
    let r1 ← clearPartX r QUERY
    pure (stripTrailingSpacesRep r1)
  else writePartFlagX r QUERY ser

def updateRepX (r : Rep) (l : List BPair) (k : Option Nat) : Outcome × Nat := (updateRepT r l).run k

def updateRepSerX (r : Rep) (ser : List Nat) (k : Option Nat) : Outcome × Nat := (updateRepSerT r ser).run k

def updateFailStates (r : Rep) (l : List BPair) : List Rep := (updateRepT r l).failStates

def updateSerFailStates (r : Rep) (ser : List Nat) : List Rep := (updateRepSerT r ser).failStates

/-! ### href / safe_assign on the representation

  The step-list model of `Impl/Fault.lean` instantiated with the stored representation:
  the target object is (`Rep`, VALID_FLAG, the owned `url_search_params` if it was created).
    url::href (url.h:1488-1498):        url u; if (u.do_parse(..) == ok) { safe_assign(std::move(u)); return true; }
    url::safe_assign (url.h:1102-1117): `url_search_params params(&other)` is built (1109) BEFORE
                                        `move_record(other)` (1110), which cannot throw (1119-1128:
                                        string move-assignment, array / pointer / integer copies,
                                        `reset_record`), as `move_params` cannot. -/
namespace FaultRep
open Fault

/-- a url object: its record and its params object -/
structure ObjR where
  rep : Rep
  /-- VALID_FLAG of `flags_` (not part of `Rep`) -/
  valid : Bool
  /-- `search_params_ptr_` -/
  sp : Option Params
  deriving DecidableEq, Repr

/-- locals: `url u` of `href` = `other` of `safe_assign`; `url_search_params params(&other)` -/
structure TempsR where
  u : ObjR
  params : Params := {}
  deriving DecidableEq, Repr

abbrev RStep := Step ObjR TempsR

/-- a step of `u.do_parse(...)` (url.h:1493): whatever it does, it writes the temporary `u` only -/
def parseStepR (f : ObjR → ObjR) : RStep :=
  { mayThrow := true, eff := .mutTemp fun s => { s.temp with u := f s.temp.u } }

/-- `url_search_params params(&other)` (url.h:1109, url_search_params-inl.h:19-22) -/
def buildParamsR : RStep :=
  { mayThrow := true, eff := .mutTemp fun s =>
      { s.temp with params := { list := formParse false (s.temp.u.rep.partView QUERY), isSorted := false } } }

/-- `move_record(other)` (url.h:1119-1128) -/
def moveRecordR : RStep :=
  { mayThrow := false, eff := .mutTarget fun s =>
      { target := { s.target with rep := s.temp.u.rep, valid := s.temp.u.valid },
        temp := { s.temp with u := { s.temp.u with rep := Rep.cleared, valid := false } } } }

/-- `search_params_ptr_->move_params(std::move(params))` (url.h:1111) -/
def moveParamsLocalR : RStep :=
  { mayThrow := false, eff := .mutTarget fun s =>
      { target := { s.target with sp := some s.temp.params },
        temp := { s.temp with params := { list := [], isSorted := s.temp.params.isSorted } } } }

/-- `search_params_ptr_->move_params(std::move(*other.search_params_ptr_))` (url.h:1106) -/
def moveParamsOtherR : RStep :=
  { mayThrow := false, eff := .mutTarget fun s =>
      { target := { s.target with sp := some (s.temp.u.sp.getD {}) },
        temp := { s.temp with u := { s.temp.u with sp := some { list := [], isSorted := (s.temp.u.sp.getD {}).isSorted } } } } }

/-- url::safe_assign, by which of the two objects has a params object -/
def safeAssignStepsR (thisHasParams otherHasParams : Bool) : List RStep :=
  match thisHasParams, otherHasParams with
  | true, true => [moveRecordR, moveParamsOtherR]
  | true, false => [buildParamsR, moveRecordR, moveParamsLocalR]
  | false, _ => [moveRecordR]

/-- url::href: the parse phase (any number of steps on the temporary), then `safe_assign` if the
    parser returned ok; the fresh `u` has no params object -/
def hrefStepsR (parse : List (ObjR → ObjR)) (valid : Bool) (thisHasParams : Bool) : List RStep :=
  parse.map parseStepR ++ (if valid then safeAssignStepsR thisHasParams false else [])

/-- … with the parse phase of the operational parser `parseRep` (`Impl/ParseRep.lean`) as one step -/
def hrefStepsOf (idna : Idna) (e : Enc) (units : List Nat) (thisHasParams : Bool) : List RStep :=
  hrefStepsR
    [fun o => match parseRep idna e units none with
      | some r => { o with rep := r, valid := true }
      | none => o]
    (parseRep idna e units none).isSome thisHasParams

end FaultRep

end Upa.Impl
