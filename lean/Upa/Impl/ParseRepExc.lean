import Upa.Impl.SetRepExc
import Upa.Impl.ObjRep
/-
  C20 once more on the operational model: `url::do_parse` (include/upa/url.h:1419-1471) on an EXISTING
  object, whatever its stored members are - a valid url, a moved-from / cleared / failed one, or the
  half-edited object an exception inside a setter left behind (`failStates`, Impl/SetRepExc.lean) - and
  with ALLOCATION FAILURE inside the parse made explicit, `catch (...)` handler included.

  `Impl/ParseRep.lean` (`parseRep`) starts the serializer on `Ser.new`, i.e. on the default
  representation `Rep.cleared`; `Impl/ObjRep.lean` (`RObj.parse`) keeps `rep := none` for every
  invalid object.  Neither can say what the parser does with LEFT-OVER members.  Here the object is
  `FaultRep.ObjR` (Impl/SetRepExc.lean): the raw members ALWAYS present (`rep`), VALID_FLAG (`valid`),
  the params object (`sp`).

    url_serializer::new_url (url.h:729-732)      if (!url_.empty()) url_.clear();
    url::empty (url.h:1292-1294)                 return norm_url_.empty();
    url::clear (url.h:1397-1404)                 norm_url_.clear(); part_end_.fill(0); scheme_inf_ = nullptr;
                                                 flags_ = INITIAL_FLAGS; path_segment_count_ = 0; clear_search_params();
    url::reset_record (url.h:1140-1146)          the same without clear_search_params(); noexcept
    url::do_parse (url.h:1419-1471)
        1422-1429   base == this / input is own data: a copy is made, do_parse is called again
        1433-1435   old_params.swap(search_params_ptr_->params_)     (no throw; the list is cleared by clear() anyway)
        1438        try {
        1439-1442     url_serializer urls(*this); urls.new_url();
        1445-1446     invalid base object: res = invalid_base
        1449-1452     do_trim; res = url_parser::url_parse(urls, first, last, base);
        1454-1459     if (res == ok) { set_flag(VALID_FLAG); parse_search_params(); }
        1460-1464   } catch (...) { reset_record(); throw; }
        1465-1469   if (res != ok) reset_record();
      Since commit 46fa9a3 the block 1454-1459 is INSIDE the `try`; before, it followed the handler
      (`doParseParamsOutsideTry` below keeps that version: a failing `parse_search_params()` left a
      VALID url whose params object was not rebuilt from its query - found with this model, see
      `Props/C20c.lean`, `C20c_params_outside_try_bites`).

  NOTE `new_url` tests ONLY `norm_url_`: members of an object whose string is empty are NOT reset.
  `Rep.newUrl` / `ObjR.newUrl` say exactly that; `Props/C20c.lean` shows what it means
  (`C20c_parse_ignores_state_partial`, `C20c_newUrl_leak`) and that every state the library can
  be left in has either a non-empty string or all members reset.

  Throwing primitives of one `do_parse` call, in program order (the schedule `k` counts them):
    * `pre` primitives BEFORE the `try` (the copies of url.h:1423 / 1427): the object is untouched;
    * the primitives of `url_parse` INSIDE the `try`: white space removal (url.h:1676-1686),
      `urls.reserve` (1691), every `norm_url_` growth of the serializer (`start_part`, `append`,
      `append_parts`, …), the host parser's buffers.  They are modelled ABSTRACTLY by `trace`: the list
      of the representations the object has at these primitives, in program order.  NOTHING is assumed
      about `trace` (the theorems of Props/C20c hold for every list, in particular for the real
      one): the handler does not look at the half-built url;
    * `parse_search_params()` (url.h:1458), the LAST primitive inside the `try`, when the parse succeeded
      and the object owns a params object: `params_ = do_parse(false, query)` builds a new list first
      (url_search_params.h:520-523), so a failure leaves the list as `new_url` left it - and the
      handler resets the record.
-/
namespace Upa.Impl
open FaultRep

/-! ### on the representation -/

/-- url::empty (url.h:1292-1294) -/
def Rep.emptyUrl (r : Rep) : Bool := r.norm.isEmpty

/-- url_serializer::new_url (url.h:729-732) on the record members: `if (!url_.empty()) url_.clear();` -/
def Rep.newUrl (r : Rep) : Rep := if r.emptyUrl then r else Rep.cleared

/-- url::reset_record (url.h:1140-1146) -/
def Rep.resetRecord (_ : Rep) : Rep := Rep.cleared

/-- `url_serializer urls(*this); urls.new_url(); do_trim; url_parse(urls, …)` on an object whose record
    members are `r` (url.h:1439-1452); `parseRep` is the case `r = Rep.cleared` -/
def parseRepOn (idna : Idna) (r : Rep) (e : Enc) (units : List Nat) (base : Option Rep) : Option Rep :=
  urlParseSer idna base ⟨r.newUrl, SCHEME⟩ (prep e (doTrim units))

/-! ### on the object -/

/-- url::clear_search_params (url.h:1274-1277, url_search_params.h:505-508) -/
def clearSp : Option Params → Option Params
  | some _ => some { list := [], isSorted := true }
  | none => none

/-- url::parse_search_params (url.h:1279-1282, url_search_params.h:520-523) -/
def parseSp (r : Rep) : Option Params → Option Params
  | some _ => some { list := formParse false (r.partView QUERY), isSorted := false }
  | none => none

/-- url_serializer::new_url on the object: `clear()` also resets VALID_FLAG (`flags_ = INITIAL_FLAGS`)
    and clears the params -/
def FaultRep.ObjR.newUrl (o : ObjR) : ObjR :=
  if o.rep.emptyUrl then o else { rep := Rep.cleared, valid := false, sp := clearSp o.sp }

/-- url::reset_record on the object: the params object is not touched -/
def FaultRep.ObjR.resetRecord (o : ObjR) : ObjR := { o with rep := o.rep.resetRecord, valid := false }

/-- how a `do_parse` call ends -/
inductive ParseEnd where
  /-- it returned `validation_errc::ok` (`true`) or an error (`false`) -/
  | returned (ok : Bool)
  /-- an exception left it -/
  | threw
  deriving DecidableEq, Repr

/-- the body of the `try` block after `new_url` (url.h:1445-1452) as a computation with throwing
    primitives: `base = some none` is an invalid base object (the parser does not run); otherwise the
    object passes the representations `trace` while `url_parse` runs and the result is `parseRepOn` -/
def tryBodyT (idna : Idna) (r : Rep) (e : Enc) (units : List Nat) (base : Option (Option Rep))
    (trace : List Rep) : X (Option Rep) :=
  match base with
  | some none => pure none
  | _ => ⟨trace, parseRepOn idna r e units (base.bind id)⟩

/-- url.h:1454-1459 and 1465-1469.  `paramsHandler`: what happens to the object when
    `parse_search_params()` throws - the `catch (...)` block (`ObjR.resetRecord`) in the library, nothing
    (`id`) when the call stood outside the `try` -/
def parseFinish (paramsHandler : ObjR → ObjR) (o1 : ObjR) (res : Option Rep) (spFails : Bool) : ObjR × ParseEnd :=
  match res with
  | some r' =>
    let o2 : ObjR := { o1 with rep := r', valid := true }                       -- 1455
    if spFails && o1.sp.isSome then (paramsHandler o2, .threw)                  -- 1458 throws
    else ({ o2 with sp := parseSp r' o1.sp }, .returned true)                   -- 1458
  | none => (o1.resetRecord, .returned false)                                   -- 1468

/-- `url::do_parse` on the object `o` under the schedule "the `k`-th throwing primitive fails"
    (`none`: no failure).  `handler`: what the `catch (...)` block does to the object before it
    rethrows when a primitive of `url_parse` fails; `paramsHandler`: the same for `parse_search_params()`. -/
def doParseWith (handler paramsHandler : ObjR → ObjR) (idna : Idna) (o : ObjR) (e : Enc) (units : List Nat)
    (base : Option (Option Rep)) (pre : Nat) (trace : List Rep) (k : Option Nat) : ObjR × ParseEnd :=
  let o1 := o.newUrl                                                            -- 1442
  let body := tryBodyT idna o.rep e units base trace
  match k with
  | none => parseFinish paramsHandler o1 body.val false
  | some i =>
    if i < pre then (o, .threw)                                                 -- 1423 / 1427
    else
      match body.run (some (i - pre)) with
      | (.threw half, _) => (handler { o1 with rep := half }, .threw)           -- 1460-1464
      | (.done res, n) => parseFinish paramsHandler o1 res (i - pre == n)

/-- the library: every failure from `new_url()` to `parse_search_params()` goes through
    `catch (...) { reset_record(); throw; }` (url.h:1438-1464) -/
def doParseExc := doParseWith ObjR.resetRecord ObjR.resetRecord

/-- the library between the repair of F15 and commit 46fa9a3: `parse_search_params()` AFTER the handler -/
def doParseParamsOutsideTry := doParseWith ObjR.resetRecord id

/-- the library before F15 was repaired: no handler at all -/
def doParseNoCatch := doParseWith id id

/-- every object a failing `do_parse` call can leave behind -/
def parseFailStates (idna : Idna) (o : ObjR) (e : Enc) (units : List Nat) (base : Option (Option Rep))
    (pre : Nat) (trace : List Rep) : List ObjR :=
  (List.range (pre + trace.length + 1)).filterMap fun k =>
    match doParseExc idna o e units base pre trace (some k) with
    | (o', .threw) => some o'
    | _ => none

/-! ### the object of Impl/ObjRep.lean -/

/-- the `RObj` of an object: the record members of an invalid object are not looked at -/
def FaultRep.ObjR.toRObj (o : ObjR) : RObj := { rep := if o.valid then some o.rep else none, sp := o.sp }

/-- the raw states `RObj` stands for: a valid url has a non-empty string, an invalid one has all its
    members reset -/
def FaultRep.ObjR.Wf (o : ObjR) : Prop :=
  (o.valid = true → o.rep.norm ≠ []) ∧ (o.valid = false → o.rep = Rep.cleared)

instance (o : ObjR) : Decidable o.Wf := by unfold ObjR.Wf; infer_instance

/-! ### copy / move / safe_assign on the raw members -/

/-- copy assignment (defaulted, url.h:107): every member is copied; the params as in `rCopyAssign` -/
def FaultRep.ObjR.copyAssign (dst src : ObjR) : ObjR :=
  { rep := src.rep, valid := src.valid,
    sp := match dst.sp, src.sp with
      | some _, some sp => some { list := sp.list, isSorted := sp.isSorted }
      | some _, none => some { list := formParse false (src.rep.partView QUERY), isSorted := false }
      | none, _ => none }

/-- copy construction (defaulted, url.h:94) -/
def FaultRep.ObjR.copyConstruct (src : ObjR) : ObjR := { rep := src.rep, valid := src.valid, sp := none }

/-- move assignment (url.h:1094-1107): `move_record(other)` (1130-1138: members taken, the source
    `reset_record`), then the params pointer is taken -/
def FaultRep.ObjR.moveAssign (src : ObjR) : ObjR × ObjR :=
  ({ rep := src.rep, valid := src.valid, sp := src.sp }, { rep := Rep.cleared, valid := false, sp := none })

/-- url::safe_assign (url.h:1109-1128) -/
def FaultRep.ObjR.safeAssign (dst src : ObjR) : ObjR × ObjR :=
  ({ rep := src.rep, valid := src.valid,
     sp := match dst.sp, src.sp with
       | some _, some sp => some { list := sp.list, isSorted := sp.isSorted }
       | some _, none => some { list := formParse false (src.rep.partView QUERY), isSorted := false }
       | none, _ => none },
   { rep := Rep.cleared, valid := false, sp := src.sp.map (fun _ => { list := [], isSorted := false }) })

end Upa.Impl
