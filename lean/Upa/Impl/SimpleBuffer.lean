import Upa.Impl.Buffer
/-
  Model of `upa::simple_buffer<T, fixed_capacity>` (include/upa/buffer.h), member function by member
  function, as the C++ executes it.

  * The STATE is what the object holds: the template parameter `fixedCap`, `maxSize` (= `max_size()` of the
    allocator, for `std::allocator<char>` of libstdc++ 2^63-1), `onHeap` (= `data_ != fixed_buffer()`),
    `mem` = the `capacity_` cells `data_` points to (the cells beyond `size_` keep their STALE values; a new
    allocation / the inline array holds indeterminate values, modelled by `Env.junk`), `size`, `capacity`.
    `nalloc` is a ghost counter: the number of calls of `operator new` so far in the history of the object.
  * Every store / load through `data_` is CHECKED: index ≥ number of cells = outcome `.oob`.
  * `std::length_error` = `.lengthError s`, `std::bad_alloc` = `.badAlloc s`; `s` is the object as the
    exception leaves it.  An allocation fails when `Env.allocFails k` says so for the k-th allocation of the
    history (k = 0, 1, …) or when more than `max_size()` elements are asked for (`allocator::allocate` throws
    `bad_array_new_length`, a `bad_alloc`, before calling `operator new`).
  * Sizes are mathematical numbers; the only member function whose `size_t` arithmetic can wrap on a state
    that satisfies the class invariant is `pop_back` on an empty buffer (`--size_`), which is written out.
    (`add_sizes`' subtraction `max_size() - n1` cannot wrap for n1 = size_ ≤ max_size(); the 64-bit version
    is `Upa.Impl.SB.addSizesW`, shown equal in Props/C04i.lean.)
  * `append(first,last)` takes the source as a value (no aliasing of the source with the buffer itself).
-/
namespace Upa.Impl.SB

/-- the environment of a history: which allocations fail, and what fresh memory contains -/
structure Env where
  /-- `allocFails k` = the k-th call of `operator new` (k = 0, 1, …) throws `std::bad_alloc` -/
  allocFails : Nat → Bool
  /-- `junk k i` = indeterminate initial value of cell `i` of the memory block number `k`
      (block 0 = the inline `std::array`, block k+1 = the k-th heap allocation) -/
  junk : Nat → Nat → Nat

structure State where
  fixedCap : Nat
  maxSize : Nat
  onHeap : Bool
  mem : List Nat
  size : Nat
  capacity : Nat
  nalloc : Nat
  deriving Repr, DecidableEq

inductive Outcome where
  | ok (s : State)
  | oob
  | lengthError (s : State)
  | badAlloc (s : State)
  deriving Repr, DecidableEq

/-- sequencing: an exception / a memory error ends the member function -/
def Outcome.bind (o : Outcome) (f : State → Outcome) : Outcome :=
  match o with
  | .ok s => f s
  | o => o

/-- the abstraction: `[begin(), end())` -/
def abs (s : State) : List Nat := s.mem.take s.size

/-- what an observer sees after a call that returned: contents, `size()`, `capacity()` -/
def Outcome.obs : Outcome → Option (List Nat × Nat × Nat)
  | .ok s => some (abs s, s.size, s.capacity)
  | _ => none

def freshMem (e : Env) (k n : Nat) : List Nat := (List.range n).map (e.junk k)

/-- `simple_buffer()` -/
def init (e : Env) (F M : Nat) : State :=
  { fixedCap := F, maxSize := M, onHeap := false, mem := freshMem e 0 F, size := 0, capacity := F, nalloc := 0 }

/-- `allocator_traits::allocate(allocator_, n)` -/
def allocate (e : Env) (s : State) (n : Nat) : Option (List Nat) × State :=
  if n > s.maxSize then (none, s)
  else if e.allocFails s.nalloc then (none, { s with nalloc := s.nalloc + 1 })
  else (some (freshMem e (s.nalloc + 1) n), { s with nalloc := s.nalloc + 1 })

/-- one checked store `m[i] = v` -/
def writeAt (m : List Nat) (i v : Nat) : Option (List Nat) :=
  if i < m.length then some (m.set i v) else none

/-- `traits_type::copy(dst + di, src + si, n)`: n checked loads and stores, one element at a time -/
def copyCells (dst : List Nat) (di : Nat) (src : List Nat) (si : Nat) : Nat → Option (List Nat)
  | 0 => some dst
  | n + 1 =>
    match src[si]? with
    | none => none
    | some v =>
      match writeAt dst di v with
      | none => none
      | some dst' => copyCells dst' (di + 1) src (si + 1) n

/-- `simple_buffer(size_type new_cap)`: `if (new_cap > fixed_capacity) init_capacity(new_cap)` -/
def construct (e : Env) (F M newCap : Nat) : Outcome :=
  let s := init e F M
  if newCap > F then
    match allocate e s newCap with
    | (none, s') => .badAlloc s'
    | (some nm, s') => .ok { s' with onHeap := true, mem := nm, capacity := newCap }
  else .ok s

/-- `grow_capacity(new_cap)`: allocate, copy `size()` elements, release the old block, switch -/
def growCapacity (e : Env) (s : State) (newCap : Nat) : Outcome :=
  match allocate e s newCap with
  | (none, s') => .badAlloc s'
  | (some nm, s') =>
    match copyCells nm 0 s.mem 0 s.size with
    | none => .oob
    | some nm' => .ok { s' with onHeap := true, mem := nm', capacity := newCap }

/-- `reserve(new_cap)` -/
def reserve (e : Env) (s : State) (newCap : Nat) : Outcome :=
  if newCap > s.capacity then growCapacity e s newCap else .ok s

/-- `clear()` -/
def clear (s : State) : State := { s with size := 0 }

/-- `grow(min_cap)`: the doubling loop is `Upa.Impl.bufGrow` (Impl/Buffer.lean), then `reserve(new_cap)` -/
def grow (e : Env) (s : State) (minCap : Nat) : Outcome :=
  match bufGrow s.maxSize s.capacity minCap with
  | none => .lengthError s
  | some newCap => reserve e s newCap

/-- `append(first, last)`, `xs` = the range `[first, last)` -/
def append (e : Env) (s : State) (xs : List Nat) : Outcome :=
  match bufAddSizes s.maxSize s.size xs.length with
  | none => .lengthError s
  | some newSize =>
    (if newSize > s.capacity then grow e s newSize else .ok s).bind fun s1 =>
      match copyCells s1.mem s1.size xs 0 xs.length with
      | none => .oob
      | some m => .ok { s1 with mem := m, size := newSize }

/-- `push_back(value)` -/
def pushBack (e : Env) (s : State) (v : Nat) : Outcome :=
  if s.size < s.capacity then
    match writeAt s.mem s.size v with
    | none => .oob
    | some m => .ok { s with mem := m, size := s.size + 1 }
  else
    match bufAddSizes s.maxSize s.size 1 with
    | none => .lengthError s
    | some minCap =>
      (grow e s minCap).bind fun s1 =>
        match writeAt s1.mem s1.size v with
        | none => .oob
        | some m => .ok { s1 with mem := m, size := s1.size + 1 }

/-- `pop_back()`: `--size_` on a 64-bit `size_t` (wraps on an empty buffer) -/
def popBack (s : State) : State :=
  { s with size := if s.size = 0 then 18446744073709551615 else s.size - 1 }

/-- `resize(count)`: `reserve(count); size_ = count;` — nothing is initialised -/
def resize (e : Env) (s : State) (count : Nat) : Outcome :=
  (reserve e s count).bind fun s1 => .ok { s1 with size := count }

/-! ### operations as data, histories -/

inductive Op where
  | pushBack (v : Nat)
  | append (xs : List Nat)
  | clear
  | popBack
  | reserve (n : Nat)
  | resize (n : Nat)
  deriving Repr, DecidableEq

def step (e : Env) (s : State) : Op → Outcome
  | .pushBack v => pushBack e s v
  | .append xs => append e s xs
  | .clear => .ok (clear s)
  | .popBack => .ok (popBack s)
  | .reserve n => reserve e s n
  | .resize n => resize e s n

/-- as `step`, with the caller respecting the precondition of `pop_back` (skipped on an empty buffer) -/
def stepG (e : Env) (s : State) (op : Op) : Outcome :=
  if op = .popBack ∧ s.size = 0 then .ok s else step e s op

/-- a history; the first exception propagates (ends the history) -/
def run (e : Env) (s : State) : List Op → Outcome
  | [] => .ok s
  | op :: ops => (stepG e s op).bind fun s1 => run e s1 ops

/-- a history whose caller catches every exception and goes on with the same object; result: the final
    object and the operations that completed (`none` = a memory error happened) -/
def runCatch (e : Env) (s : State) : List Op → Option (State × List Op)
  | [] => some (s, [])
  | op :: ops =>
    match stepG e s op with
    | .ok s1 => (runCatch e s1 ops).map fun (s', done) => (s', op :: done)
    | .oob => none
    | .lengthError s1 => runCatch e s1 ops
    | .badAlloc s1 => runCatch e s1 ops

/-! ### the specification: operations on a list -/

/-- what one operation does to the contents (`resize` beyond the size: any extension of that length) -/
def Refines (l : List Nat) (op : Op) (l' : List Nat) : Prop :=
  match op with
  | .pushBack v => l' = l ++ [v]
  | .append xs => l' = l ++ xs
  | .clear => l' = []
  | .popBack => l' = l.dropLast
  | .reserve _ => l' = l
  | .resize n => if n ≤ l.length then l' = l.take n else l'.length = n ∧ l'.take l.length = l

def RefinesAll : List Nat → List Op → List Nat → Prop
  | l, [], l' => l' = l
  | l, op :: ops, l' => ∃ m, Refines l op m ∧ RefinesAll m ops l'

/-- the size after an operation (a function of the size before it) -/
def sizeAfter (n : Nat) : Op → Nat
  | .pushBack _ => n + 1
  | .append xs => n + xs.length
  | .clear => 0
  | .popBack => n - 1
  | .reserve _ => n
  | .resize k => k

/-- no `resize` of the history makes the buffer longer (no uninitialised / stale cell is exposed) -/
def NoExpose : Nat → List Op → Prop
  | _, [] => True
  | n, op :: ops => (∀ k, op = .resize k → k ≤ n) ∧ NoExpose (sizeAfter n op) ops

/-- the deterministic list semantics (for histories with `NoExpose`) -/
def specStep (l : List Nat) : Op → List Nat
  | .pushBack v => l ++ [v]
  | .append xs => l ++ xs
  | .clear => []
  | .popBack => l.dropLast
  | .reserve _ => l
  | .resize n => l.take n

def specRun (l : List Nat) (ops : List Op) : List Nat := ops.foldl specStep l

/-! ### the class invariant -/

structure Inv (s : State) : Prop where
  size_le : s.size ≤ s.capacity
  cap_len : s.capacity = s.mem.length
  inline : s.onHeap = false → s.capacity = s.fixedCap
  fixed_le : s.fixedCap ≤ s.capacity
  cap_max : s.capacity ≤ s.maxSize

/-- what a member function called on `s` may end with: no memory error; when it returns, the invariant and
    `Q`; when it throws, the object is as before the call (only the ghost allocation counter moved) -/
def Good (s : State) (Q : State → Prop) : Outcome → Prop
  | .ok s' => Inv s' ∧ s'.fixedCap = s.fixedCap ∧ s'.maxSize = s.maxSize ∧ s.capacity ≤ s'.capacity ∧ Q s'
  | .oob => False
  | .lengthError s' => s' = s
  | .badAlloc s' => s' = { s with nalloc := s'.nalloc }

/-! ### `grow`: what the doubling loop computes -/

/-- the candidate sequence of `grow`: `c0·2, c0·4, …`; `GrowsTo` = the loop ends with `c0·2^k` -/
def GrowsTo (M c0 minCap k : Nat) : Prop :=
  1 ≤ k ∧ minCap ≤ c0 * 2 ^ k ∧ (∀ j, 1 ≤ j → j < k → c0 * 2 ^ j < minCap) ∧ c0 * 2 ^ (k - 1) ≤ M / 2

/-- `GuardStops` = the loop reaches the candidate `c0·2^k` (all candidates up to it are too small) and the
    overflow guard `new_cap > (max_size() >> 1)` throws -/
def GuardStops (M c0 minCap k : Nat) : Prop :=
  (∀ j, 1 ≤ j → j ≤ k → c0 * 2 ^ j < minCap) ∧ M / 2 < c0 * 2 ^ k

/-! ### util.h / buffer.h arithmetic on 64-bit `size_t` -/

/-- `add_sizes` as the machine computes it (`size_t` = 64 bits, subtraction and addition wrap) -/
def addSizesW (M n1 n2 : Nat) : Option Nat :=
  if (M + 18446744073709551616 - n1) % 18446744073709551616 ≥ n2 then some ((n1 + n2) % 18446744073709551616)
  else none

/-- `util::add_sizes(size1, size2, max_size)` (util.h:100) on 64-bit `size_t` -/
def utilAddSizesW (n1 n2 M : Nat) : Option Nat :=
  if (M + 18446744073709551616 - n1) % 18446744073709551616 < n2 then none
  else some ((n1 + n2) % 18446744073709551616)

/-- `static_cast<UT>(x)` for a `w`-bit unsigned type -/
def toU (w : Nat) (x : Int) : Int := x % (2 ^ w : Int)
/-- `unsigned_limit<Out>::max()` -/
def limMax (signed : Bool) (w : Nat) : Int := if signed then 2 ^ (w - 1) - 1 else 2 ^ w - 1
/-- `unsigned_limit<Out>::min()` = `UT(0) - UT(numeric_limits<Out>::min())` -/
def limMin (signed : Bool) (w : Nat) : Int := if signed then toU w (0 - toU w (-(2 ^ (w - 1)))) else 0

/-- `util::checked_diff<Out, T>(a, b)` (util.h:56): `T` has `wT` bits (its value is the mathematical `a`,
    `b`), `Out` is signed or not with `wOut` bits; `none` = `std::length_error` -/
def checkedDiff (wT : Nat) (sOut : Bool) (wOut : Nat) (a b : Int) : Option Int :=
  if a ≥ b then
    let diff := toU wT (toU wT a - toU wT b)
    if diff ≤ limMax sOut wOut then some diff else none
  else if sOut then
    let diff := toU wT (toU wT b - toU wT a)
    if diff ≤ limMin sOut wOut then some (0 - (diff - 1) - 1) else none
  else none

/-! ### the executable tie (harness line protocol) -/

/-- harness operation `r<n>`: `resize(n)`, then 0 is written through `data()` into `[old size, n)` -/
def resizeZero (e : Env) (s : State) (n : Nat) : Outcome :=
  (resize e s n).bind fun s1 =>
    match copyCells s1.mem s.size (List.replicate (n - s.size) 0) 0 (n - s.size) with
    | none => .oob
    | some m => .ok { s1 with mem := m }

def hexDigit (n : Nat) : Char := if n < 10 then Char.ofNat (48 + n) else Char.ofNat (87 + n)
def hexOf (l : List Nat) : String :=
  if l.isEmpty then "-" else String.ofList (l.flatMap fun b => [hexDigit (b / 16 % 16), hexDigit (b % 16)])

def hexVal (c : Char) : Option Nat :=
  let n := c.toNat
  if 48 ≤ n ∧ n ≤ 57 then some (n - 48)
  else if 97 ≤ n ∧ n ≤ 102 then some (n - 87)
  else if 65 ≤ n ∧ n ≤ 70 then some (n - 55)
  else none

def unhex : List Char → Option (List Nat)
  | [] => some []
  | [_] => none
  | a :: b :: r =>
    match hexVal a, hexVal b, unhex r with
    | some x, some y, some t => some ((x * 16 + y) :: t)
    | _, _, _ => none

def decVal : List Char → Option Nat
  | [] => none
  | cs => cs.foldl (fun acc c => match acc with
      | none => none
      | some a => if 48 ≤ c.toNat ∧ c.toNat ≤ 57 then some (a * 10 + (c.toNat - 48)) else none) (some 0)

def splitSemi (cs : List Char) : List (List Char) :=
  let (cur, acc) := cs.foldr (fun c (p : List Char × List (List Char)) =>
    if c = ';' then ([], p.1 :: p.2) else (c :: p.1, p.2)) ([], [])
  cur :: acc

/-- the environment of the harness: no allocation fails, fresh memory reads as 0 -/
def env0 : Env := { allocFails := fun _ => false, junk := fun _ _ => 0 }

/-- `max_size()` of `std::allocator<char>` (libstdc++, 64 bit) -/
def maxSize0 : Nat := 9223372036854775807

def showState (s : State) : String := " " ++ toString s.size ++ "/" ++ toString s.capacity

def showOutcome (prev : State) : Outcome → State × String
  | .ok s => (s, showState s)
  | .oob => (prev, " !oob")
  | .lengthError s => (s, " !length_error")
  | .badAlloc s => (s, " !bad_alloc")

/-- one token of the line; `first` = it is the first token -/
def runTok (first : Bool) (F : Nat) (s : State) (tok : List Char) : State × String :=
  match tok with
  | 'i' :: r =>
    if first then
      match decVal r with
      | some n => showOutcome s (construct env0 F maxSize0 n)
      | none => (s, "")
    else (s, "")
  | 'p' :: r =>
    match unhex r with
    | some (v :: _) => showOutcome s (pushBack env0 s v)
    | _ => (s, "")
  | 'a' :: r =>
    match unhex r with
    | some xs => showOutcome s (append env0 s xs)
    | none => (s, "")
  | 'r' :: r =>
    match decVal r with
    | some n => showOutcome s (resizeZero env0 s n)
    | none => (s, "")
  | 'v' :: r =>
    match decVal r with
    | some n => showOutcome s (reserve env0 s n)
    | none => (s, "")
  | ['c'] => showOutcome s (.ok (clear s))
  | ['k'] => showOutcome s (stepG env0 s .popBack)
  | _ => (s, "")

def runToks (F : Nat) : Bool → State → List (List Char) → String → State × String
  | _, s, [], out => (s, out)
  | first, s, t :: ts, out =>
    if t.isEmpty then runToks F first s ts out
    else
      let (s', o) := runTok first F s t
      runToks F false s' ts (out ++ o)

/-- the harness line: `ops` is `;`-separated (`i<dec>` only first, `p<2 hex>`, `a<hex>`, `r<dec>`, `v<dec>`,
    `c`, `k`); output `buf`, then ` <size>/<capacity>` after each operation, then ` data=<hex or ->` -/
def runBufLine (fixedCap : Nat) (ops : String) : String :=
  let (s, out) := runToks fixedCap true (init env0 fixedCap maxSize0) (splitSemi ops.toList) "buf"
  out ++ " data=" ++ hexOf (abs s)

end Upa.Impl.SB
