import Upa.Impl.CanParse
/-
  The host parser as `url::can_parse` runs it: `host_parser::parse_host` (include/upa/url_host.h:158-287)
  and its callees with a `host_output` whose `need_save()` is false (`url_serializer(url, false)`,
  url.h:721, created by `url::for_can_parse`).  Only the returned `validation_errc` is modelled
  (`true` = `validation_errc::ok`).  Every `dest.need_save()` guard of the C++ is taken with the value
  `false`, so exactly the work the C++ skips is absent here and every check it still makes is made:

  * url_host.h:198  fast ASCII-domain path: no `hostStart` / `append_ascii_lowercase` / `hostDone`;
  * url_host.h:280  IDNA path: no copy of `buff_ascii` into the host part;
  * url_host.h:305  `parse_opaque_host`: the whole percent-encoding loop is skipped, only the
                    forbidden-host-code-point scan (line 296) remains;
  * url_host.h:340  `parse_ipv4`: `ipv4_parse` runs to the end (it has no `need_save` inside and computes
                    the address), `ipv4_serialize` is skipped;
  * url_host.h:353  `parse_ipv6`: `ipv6_parse` runs to the end, `ipv6_serialize` and the brackets are skipped.

  What is NOT guarded in the C++ and therefore still happens in the validate-only run:
  * url_host.h:170-171, the empty input: `dest.hostStart(); dest.hostDone(HostType::Empty)` are called
    without a guard — they write an empty host part into the scratch `upa::url` of `can_parse`
    (url.h:224).  That has no influence on the verdict (`is_opaque ? ok : host_missing`), so the
    verdict-only model has nothing to show for it; it is recorded here for the memory-safety claims.
  * the percent-decoding into `buff_uc`, `domain_to_ascii`, the forbidden-domain-code-point scan and
    `hostname_ends_in_a_number` (lines 216-278): all executed.

  The definitions live in the namespace `Upa.Impl.HostNS` because `Upa.Impl.parseHostNS`
  (`Upa/Impl/CanParse.lean`) is the older "same verdict as the saving run" shortcut that
  `C09_host_ns_agree` (`Upa/Props/C09b.lean`) now justifies.
-/
namespace Upa.Impl.HostNS
open Upa

/-- host_parser::parse_ipv4, `need_save() == false` (url_host.h:336-346): `res` of `ipv4_parse` -/
def hostParseIpv4NS (s : List Nat) : Bool :=
  match ipv4Parse s with
  | some _ => true      -- res == ok && need_save() is false: nothing serialized
  | none => false

/-- host_parser::parse_ipv6, `need_save() == false` (url_host.h:349-361), input without the brackets -/
def hostParseIpv6NS (s : List Nat) : Bool :=
  match ipv6Parse s with
  | some _ => true
  | none => false

/-- host_parser::parse_opaque_host, `need_save() == false` (url_host.h:293-333): only line 296 -/
def parseOpaqueHostNS (s : List Nat) : Bool :=
  if s.any Spec.forbiddenHost then false else true

/-- host_parser::parse_host, `need_save() == false`: the verdict (`true` = `validation_errc::ok`) -/
def parseHostNS (idna : Idna) (s : List Nat) (isOpaque : Bool) : Bool :=
  match s with
  | [] => isOpaque                 -- is_opaque ? ok : host_missing   (hostStart/hostDone unguarded, see above)
  | c0 :: _ =>
    if c0 = 0x5B then
      if s.getLast? = some 0x5D then hostParseIpv6NS (s.drop 1).dropLast else false
    else if isOpaque then parseOpaqueHostNS s
    else
      -- ptr = find_if_not(first, last, is_ascii_domain_char)
      let tail := s.dropWhile Spec.asciiDomainChar
      -- `some v`: returned with verdict v before the IDNA path; `none`: falls through to it
      let fast : Option Bool :=
        match tail with
        | [] =>
          if !hasXnLabel s then
            some (if endsInNumber s then hostParseIpv4NS s
                  else true)       -- line 198: need_save() false, nothing lower-cased; return ok
          else none
        | p :: rest =>
          if p < 0x80 ∧ p ≠ 0x25 then
            if ¬ (p ≥ 0x3C ∧ p ≤ 0x3E ∧ (match rest with | n :: _ => decide (n ≥ 0x80) || n == 0x25 | [] => false) = true)
            then some false else none
          else none
      match fast with
      | some v => v
      | none =>
        let buffUc := encodeUtf16 (decode .u8 (percentDecode s))
        match idna buffUc with
        | none => false
        | some ascii =>
          if ascii.any Spec.forbiddenDomain then false
          else if endsInNumber ascii then hostParseIpv4NS ascii
          else true                -- line 280: need_save() false, nothing appended; return ok

/-! ### the callers (url.h:2014 host state, url.h:2187 file host state) and everything above them:
    the `…NS` functions of `Upa/Impl/CanParse.lean` that reach the host parser, copied verbatim with
    `HostNS.parseHostNS` in place of `Impl.parseHostNS`. (`portStateNS` does not reach it and is reused.) -/

def fileHostStateNS' (idna : Idna) (special : Bool) (p : List Nat) : Bool :=
  let buf := p.takeWhile (fun c => !isSpecialAuthorityEnd c)
  if buf = [] then true
  else if (match buf with | [a, b] => isWindowsDrive a b | _ => false) then true
  else parseHostNS idna buf (!special)

def fileSlashStateNS' (idna : Idna) (p : List Nat) : Bool :=
  match p with
  | c :: r => if isSlash c then fileHostStateNS' idna true r else true
  | [] => true

def fileStateNS' (idna : Idna) (p : List Nat) : Bool :=
  match p with
  | c :: r => if isSlash c then fileSlashStateNS' idna r else true
  | [] => true

def hostStateNS' (idna : Idna) (special : Bool) (p : List Nat) : Bool :=
  let isEndC := if special then isSpecialAuthorityEnd else isAuthorityEnd
  let auth := p.takeWhile (fun c => !isEndC c)
  let afterAuth := p.dropWhile (fun c => !isEndC c)
  let (hostPart, portPart) := hostScan auth false
  if hostPart = [] && (portPart.isSome || special) then false
  else if !parseHostNS idna hostPart (!special) then false
  else match portPart with
    | some pp => portStateNS special (pp ++ afterAuth)
    | none => true

def authorityStateNS' (idna : Idna) (special : Bool) (p : List Nat) : Bool :=
  let isEndC := if special then isSpecialAuthorityEnd else isAuthorityEnd
  let auth := p.takeWhile (fun c => !isEndC c)
  let afterAuth := p.dropWhile (fun c => !isEndC c)
  match splitLastAt auth with
  | none => hostStateNS' idna special p
  | some (_, hostport) =>
    if hostport = [] then false else hostStateNS' idna special (hostport ++ afterAuth)

def ignoreSlashesStateNS' (idna : Idna) (special : Bool) (p : List Nat) : Bool :=
  authorityStateNS' idna special (p.dropWhile isSlash)

def specialAuthoritySlashesStateNS' (idna : Idna) (p : List Nat) : Bool :=
  match p with
  | 0x2F :: 0x2F :: r => ignoreSlashesStateNS' idna true r
  | _ => ignoreSlashesStateNS' idna true p

def relativeSlashStateNS' (idna : Idna) (special : Bool) (p : List Nat) : Bool :=
  match p with
  | c :: r =>
    if c = 0x2F then
      if special then ignoreSlashesStateNS' idna special r else authorityStateNS' idna special r
    else if c = 0x5C && special then ignoreSlashesStateNS' idna special r
    else true
  | [] => true

def relativeStateNS' (idna : Idna) (b : Url) (p : List Nat) : Bool :=
  let special := isSpecialScheme b.scheme
  match p with
  | [] => true
  | c :: r =>
    if c = 0x2F then relativeSlashStateNS' idna special r
    else if c = 0x3F then true
    else if c = 0x23 then true
    else if c = 0x5C && special then relativeSlashStateNS' idna special r
    else true

def noSchemeStateNS' (idna : Idna) (base : Option Url) (p : List Nat) : Bool :=
  match base with
  | none => false
  | some b =>
    if b.hasOpaquePath then
      match p with
      | 0x23 :: _ => true
      | _ => false
    else if b.isFile then fileStateNS' idna p
    else relativeStateNS' idna b p

def schemeStateNS' (idna : Idna) (base : Option Url) (p : List Nat) : Bool :=
  match p with
  | [] => false
  | c0 :: r0 =>
    let body := r0.takeWhile isSchemeChar
    let rest := r0.dropWhile isSchemeChar
    let isScheme := match rest with
      | c :: _ => c == 0x3A
      | [] => false
    if isScheme then
      let scheme := (c0 :: body).map (· ||| 0x20)
      let p := rest.drop 1
      if isFileScheme scheme then fileStateNS' idna p
      else if isSpecialScheme scheme then
        match base with
        | some b =>
          if b.scheme = scheme then
            (match p with
             | 0x2F :: 0x2F :: r => ignoreSlashesStateNS' idna true r
             | _ => relativeStateNS' idna b p)
          else specialAuthoritySlashesStateNS' idna p
        | none => specialAuthoritySlashesStateNS' idna p
      else
        match p with
        | 0x2F :: 0x2F :: r => authorityStateNS' idna false r
        | _ => true
    else noSchemeStateNS' idna base p

/-- `Impl.canParse` with the explicit validate-only host parser -/
def canParseNS' (idna : Idna) (e : Enc) (units : List Nat) (base : Option Url) : Bool :=
  let p := prep e (doTrim units)
  match p with
  | c :: _ => if isAlpha c then schemeStateNS' idna base p else noSchemeStateNS' idna base p
  | [] => noSchemeStateNS' idna base p

end Upa.Impl.HostNS
