import Upa.Impl.Rep
/-
  Code-shaped model of `url::get_scheme_info` (src/url.cpp:47-82):

      // MUST be sorted by length
      const url::scheme_info url::kSchemes[] = { {"ws",2},80,… ; {"wss",3},443,… ; {"ftp",3},21,… ;
                                                 {"http",4},80,… ; {"file",4},-1,… ; {"https",5},443,… };
      static const std::size_t max_scheme_length = 5;
      static const uint8_t kLengthToSchemesInd[] = { 0, 0, 0, 1, 3, 5, 6 };

      const std::size_t len = src.length();
      if (len <= max_scheme_length) {
          const int end = kLengthToSchemesInd[len + 1];
          for (int ind = kLengthToSchemesInd[len]; ind < end; ++ind)
              if (traits_type::compare(src.data(), kSchemes[ind].scheme.data(), len) == 0)
                  return &kSchemes[ind];
      }
      return nullptr;

  The tables are PARAMETERS of the model (`names`, `lenToInd`, `maxLen`; the other columns of
  `kSchemes` as parallel lists); the concrete ones are plain definitions at the end.  Every table access is
  checked: an index outside a table gives the outcome `Res.oob`, which is distinct from "not found".
  `compare(…, len)` reads `len` characters of the table entry whatever the entry's own length is: an
  entry shorter than `len` is an out-of-range read (`oob`), an entry longer than `len` is compared on
  its first `len` characters only — exactly what the C++ does; that this never goes wrong is a
  property of the tables (`TablesOk`), not of the loop.
-/
namespace Upa.Impl.Scheme
open Upa Upa.Impl

/-- outcome of `get_scheme_info` -/
inductive Res where
  | oob               -- an index outside `kLengthToSchemesInd` / `kSchemes` / an entry's characters was read
  | null              -- `nullptr`
  | at (i : Nat)      -- `&kSchemes[i]`
  deriving DecidableEq, Repr

def Res.ofOption : Option Nat → Res
  | none => .null
  | some i => .at i

/-- the pointer as an index, for an in-range run -/
def Res.toOption : Res → Option Nat
  | .at i => some i
  | _ => none

/-- the `for (ind = …; ind < end; ++ind)` loop; first argument: `end - ind` -/
def schemeScan (names : List (List Nat)) (s : List Nat) (len : Nat) : Nat → Nat → Res
  | 0, _ => .null
  | n+1, ind =>
    match names[ind]? with
    | none => .oob                                   -- kSchemes[ind]
    | some nm =>
      if nm.length < len then .oob                   -- compare(…, len) reads nm[0 .. len)
      else if nm.take len = s then .at ind           -- … == 0
      else schemeScan names s len n (ind + 1)

/-- url::get_scheme_info -/
def getSchemeInfo (names : List (List Nat)) (lenToInd : List Nat) (maxLen : Nat) (s : List Nat) : Res :=
  let len := s.length
  if len ≤ maxLen then
    match lenToInd[len + 1]? with                    -- end = kLengthToSchemesInd[len + 1]
    | none => .oob
    | some e =>
      match lenToInd[len]? with                      -- ind = kLengthToSchemesInd[len]
      | none => .oob
      | some b => schemeScan names s len (e - b) b
  else .null

/-! ### the other columns, read through the returned pointer -/

/-- `scheme_inf_ && scheme_inf_->flag` for a Boolean column (`is_special`, `is_file`, …) -/
def Res.flag (r : Res) (col : List Bool) : Bool :=
  match r with
  | .at i => col.getD i false
  | _ => false

/-- `default_port` as the model has it: -1 (no default port) is `none` -/
def portOfInt (p : Int) : Option Nat := if p < 0 then none else some p.toNat

/-- `scheme_inf_ ? scheme_inf_->default_port : -1` -/
def Res.port (r : Res) (ports : List Int) : Option Nat :=
  match r with
  | .at i => portOfInt (ports.getD i (-1))
  | _ => none

/-! ### what the loop needs from the tables (decidable) -/

/-- * `kLengthToSchemesInd` has `max_scheme_length + 2` entries (so `[len]` and `[len + 1]` exist for
      every `len ≤ max_scheme_length`);
    * each range `[lenToInd[len], lenToInd[len+1])` is well-formed and inside `kSchemes`;
    * every entry of `kSchemes` has a length `≤ max_scheme_length` and lies in the range of its length;
    * every entry in the range of `len` has length `len`.
    (Together: `kSchemes` is sorted by length and `kLengthToSchemesInd[len]` is the number of entries
    shorter than `len`.) -/
def TablesOk (names : List (List Nat)) (lenToInd : List Nat) (maxLen : Nat) : Prop :=
  lenToInd.length = maxLen + 2 ∧
  (∀ len, len < maxLen + 1 →
    lenToInd.getD len 0 ≤ lenToInd.getD (len + 1) 0 ∧ lenToInd.getD (len + 1) 0 ≤ names.length) ∧
  (∀ i, i < names.length →
    (names.getD i []).length < maxLen + 1 ∧
    lenToInd.getD (names.getD i []).length 0 ≤ i ∧ i < lenToInd.getD ((names.getD i []).length + 1) 0) ∧
  (∀ len, len < maxLen + 1 → ∀ i, i < names.length →
    lenToInd.getD len 0 ≤ i → i < lenToInd.getD (len + 1) 0 → (names.getD i []).length = len)

instance (names : List (List Nat)) (lenToInd : List Nat) (maxLen : Nat) :
    Decidable (TablesOk names lenToInd maxLen) := by
  unfold TablesOk; infer_instance

/-! ### what ties the tables to the model's scheme functions (decidable) -/

/-- the special schemes as `Impl.isSpecialScheme` lists them -/
def modelSchemes : List (List Nat) := [sWs, sWss, sFtp, sHttp, sFile, sHttps]

/-- the columns have the table's length; every scheme the model calls special is in the table; and each
    entry's index, `is_special`, `is_file` and `default_port` are what `Impl.schemeIndex`,
    `Impl.isSpecialScheme`, `Impl.isFileScheme` and `Impl.defaultPort` say about its name -/
def InfoOk (names : List (List Nat)) (ports : List Int) (special file : List Bool) : Prop :=
  ports.length = names.length ∧ special.length = names.length ∧ file.length = names.length ∧
  (∀ x, x ∈ modelSchemes → x ∈ names) ∧
  (∀ i, i < names.length →
    schemeIndex (names.getD i []) = some i ∧
    special.getD i false = isSpecialScheme (names.getD i []) ∧
    file.getD i false = isFileScheme (names.getD i []) ∧
    portOfInt (ports.getD i (-1)) = defaultPort (names.getD i []))

instance (names : List (List Nat)) (ports : List Int) (special file : List Bool) :
    Decidable (InfoOk names ports special file) := by
  unfold InfoOk; infer_instance

/-! ### the concrete tables (src/url.cpp:48-69); regenerated by the main process -/

def schemeNames : List (List Nat) :=
  [[119, 115],                      -- "ws"
   [119, 115, 115],                 -- "wss"
   [102, 116, 112],                 -- "ftp"
   [104, 116, 116, 112],            -- "http"
   [102, 105, 108, 101],            -- "file"
   [104, 116, 116, 112, 115]]       -- "https"
def schemePorts : List Int := [80, 443, 21, 80, -1, 443]
def schemeSpecial : List Bool := [true, true, true, true, true, true]
def schemeFile : List Bool := [false, false, false, false, true, false]
def lengthToSchemesInd : List Nat := [0, 0, 0, 1, 3, 5, 6]
def maxSchemeLength : Nat := 5

end Upa.Impl.Scheme
