import Upa.Impl.Bounds
import Upa.Impl.Host
import Upa.Impl.Api
import Upa.Impl.Form
/-
  BOUNDS-INSTRUMENTED models, part 2 (property C04): the scanners of url_host.h, the path / trim /
  whitespace / port helpers of url.h, the serializers of src/url_ip.cpp + util::unsigned_to_str, the
  percent-ENCODE loops of url_percent_encode.h, url_search_params::urlencode and
  url_utf::convert_utf8_to_utf16.  Same conventions as `Upa/Impl/Bounds.lean` (read its header):
  `R`, `rd`, `rdPrev`, `mkptr`, `mkptrSub`, `sub`, `idx`, `Loc`, `iter`.  All names end in `M`
  (the models of url_parse itself, by another author, end in `B`).

  Additional conventions
  * a code unit is the UNSIGNED value (`static_cast<UCharT>(*it)` is the identity on it);
    `static_cast<unsigned char>(x)` / `static_cast<uint8_t>(x)` is `x % 256`.
  * `--count` on a `std::size_t` goes through `decIdx` (0 would wrap to SIZE_MAX: `.oob` as an index).
  * `output[i]` on a `std::string` that was `resize`d to `n` is a `Loc` of size `n`.
  * Line numbers: /repo at commit ff6f3b0.
-/
namespace Upa.Impl.B

/-! ## 0  library loops with a table-indexing predicate, the two code point tables -/

/-- `std::find_if(p, p + n, pred)` / `std::any_of` / `std::find_if_not` where the predicate itself
    indexes a lookup table (so it is `R`-valued) -/
def findIfM (a : Array Nat) (first last : Nat) (pred : Nat → R Bool) : Nat → Nat → R Nat
  | 0, p => pure p
  | n+1, p => do
    let c ← rd a first last p
    let b ← pred c
    if b then pure p else findIfM a first last pred n (p + 1)

/-- `code_points.char_in_set(c, SET)`   (url_percent_encode.h:272-276):
    `is_8bit(uc) && (arr_[uc] & cps)`, `uint8_t arr_[256]` -/
def charInSetM (set : Nat → Bool) (c : Nat) (lim : Nat := 0xFF) : R Bool :=
  if c ≤ lim then do                                 -- is_8bit(uc) &&   (lim = 0xFF)
    idx 256 c                                        -- arr_[uc]
    pure (set c)
  else pure false

/-- `code_point_set::operator[](c)`   (url_percent_encode.h:90-94):
    `is_8bit(uc) && (arr_[uc >> 3] & (1u << (uc & 0x07))) != 0`, `uint8_t arr_[32]` -/
def cpsetGetM (set : Nat → Bool) (c : Nat) (lim : Nat := 0xFF) : R Bool :=
  if c ≤ lim then do                                 -- is_8bit(uc) &&   (lim = 0xFF)
    idx 32 (c >>> 3)                                 -- arr_[uc >> 3]
    pure (set c)
  else pure false

/-- `--count` of a `std::size_t` that is then used as an index -/
def decIdx (count : Nat) : R Nat := if count = 0 then .oob else .ok (count - 1)

/-! ## 3  util.h unsigned_to_str;  src/url_ip.cpp ipv4_serialize, longest_zero_sequence, ipv6_serialize -/

/-- `util::unsigned_to_str<uint32_t>(num, output, base)`   (util.h:79-97) with `output.length() = outLen`;
    returns the characters appended.  PRECONDITION `num < 2^32` (type), `2 ≤ base ≤ 16`
    (callers: 10 and 16; `digit[]` has 17 entries, the divider loop needs `base ≥ 2`).
    `divider *= base` is computed modulo 2^32 as in the C++ (it never wraps: `divider ≤ num / base`). -/
def unsignedToStrM (num base outLen : Nat) (extra : Nat := 1) : R (List Nat) := do
  let count0 := outLen + extra                       -- count = output.length() + 1   (extra = 1)
  let num0 := num / base                             -- num0 = num / base
  -- for (divider = 1; divider <= num0; divider *= base) ++count;
  let count ← iter (fun (s : Nat × Nat) =>
      let (divider, count) := s
      if divider ≤ num0 then pure (.inl ((divider * base) % 2^32, count + 1))
      else pure (.inr count)) (num + 2) (1, count0)
  let out := Loc.new count                           -- output.resize(count)
  -- do { output[--count] = digit[num % base]; num /= base; } while (num);
  let out ← iter (fun (s : Nat × Nat × Loc) => do
      let (count, num, out) := s
      let count ← decIdx count                       -- --count
      idx 17 (num % base)                            -- digit[num % base]   ("0123456789abcdef" + NUL)
      let out ← out.wr count (hexDigitLower (num % base))   -- output[count] = …
      let num := num / base
      if num ≠ 0 then pure (.inl (count, num, out)) else pure (.inr out)) (num + 2) (count, num, out)
  pure ((List.range (count - outLen)).map (fun i => out.get (outLen + i)))

/-- `ipv4_serialize(ipv4, output)`   (src/url_ip.cpp:14-20); `output` starts empty here -/
def ipv4SerializeM (ipv4 : Nat) : R (List Nat) := do
  -- for (unsigned shift = 24; shift != 0; shift -= 8)
  let out ← iter (fun (s : Nat × List Nat) => do
      let (shift, out) := s
      if shift ≠ 0 then do
        let d ← unsignedToStrM ((ipv4 >>> shift) &&& 0xFF) 10 out.length
        pure (.inl (shift - 8, out ++ d ++ [0x2E]))  -- output.push_back('.')
      else pure (.inr out)) 5 (24, [])
  let d ← unsignedToStrM (ipv4 &&& 0xFF) 10 out.length
  pure (out ++ d)

/-- `longest_zero_sequence(first, last, compress)`   (src/url_ip.cpp:27-47):
    `(last_count, compress)`, `compress = none` is the caller's `nullptr` -/
def longestZeroSequenceM (a : Array Nat) (first last : Nat) (slack : Nat := 0) : R (Nat × Option Nat) :=
  iter (fun (s : Nat × Nat × Option Nat) => do
    let (it, lastCount, compress) := s
    if it = last then pure (.inr (lastCount, compress)) else do   -- for (it = first; it != last; ++it)
    let c ← rd a first last it                       -- *it == 0   [it != last]
    if c = 0 then do
      let ite0 ← mkptr first last (it + 1)           -- auto ite = it + 1;
      -- while (ite != last && *ite == 0) ++ite;
      let ite ← iter (fun (ite : Nat) =>
          if ite ≠ last + slack then do              -- ite != last &&   (slack = 0)
            let c ← rd a first last ite              -- *ite == 0   [ite != last]
            if c = 0 then do
              let ite' ← mkptr first last (ite + 1)  -- ++ite
              pure (.inl ite')
            else pure (.inr ite)
          else pure (.inr ite)) (last - first + 2) ite0
      let count := ite - it                          -- count = ite - it
      let lc : Nat × Option Nat := if lastCount < count then (count, some it) else (lastCount, compress)
      if ite = last then pure (.inr lc)              -- if (ite == last) break;
      else do
        let it' ← mkptr first last (ite + 1)         -- it = ite; … ++it
        pure (.inl (it', lc.1, lc.2))
    else do
      let it' ← mkptr first last (it + 1)            -- ++it
      pure (.inl (it', lastCount, compress)))
  (last - first + 1) (first, 0, none)

/-- `ipv6_serialize(address, output)`   (src/url_ip.cpp:51-70) on `address = a[first .. last)`
    (`std::begin` / `std::end` of `uint16_t[8]`: `last = first + 8`; all that is needed is
    `first < last`).  An element is a `uint16_t`: `% 65536`. -/
def ipv6SerializeM (a : Array Nat) (first last : Nat) (slack : Nat := 0) : R (List Nat) := do
  let (len, compress0) ← longestZeroSequenceM a first last
  let compress := if len = 1 then none else compress0    -- if (compress_length == 1) compress = nullptr;
  iter (fun (s : Nat × List Nat) => do                    -- for (auto it = first; true;)
    let (it, out) := s
    let r ← (
      if compress = some it then do                       -- if (it == compress)
        let out := out ++ (if it = first then [0x3A, 0x3A] else [0x3A])   -- output.append("::", it == first ? 2 : 1)
        let it' ← mkptr first last (it + len)             -- it += compress_length;
        if it' = last + slack then pure (.inr out)        -- if (it == last) break;   (slack = 0)
        else pure (.inl (it', out))
      else pure (.inl (it, out)) : R ((Nat × List Nat) ⊕ List Nat))
    match r with
    | .inr out => pure (.inr out)
    | .inl (it, out) => do
      let v ← rd a first last it                          -- *it
      let d ← unsignedToStrM (v % 65536) 16 out.length    -- util::unsigned_to_str<uint32_t>(*it, output, 16)
      let out := out ++ d
      let it' ← mkptr first last (it + 1)                 -- if (++it == last) break;
      if it' = last then pure (.inr out)
      else pure (.inl (it', out ++ [0x3A])))              -- output.push_back(':')
    (last - first + 1) (first, [])

/-! ## 4  url_percent_encode.h encode side;  url_utf.h append_utf8;  url_search_params.h urlencode -/

/-- `detail::append_percent_encoded_byte(unsigned char uc, output)`   (url_percent_encode.h:450-454);
    `uc < 256` by type (callers cast), `kHexCharLookup[0x10]` -/
def appendPercentEncodedByteM (uc : Nat) (mask : Nat := 0xF) : R (List Nat) := do
  idx 16 (uc >>> 4)                                  -- kHexCharLookup[uc >> 4]
  idx 16 (uc &&& mask)                               -- kHexCharLookup[uc & 0xf]   (mask = 0xf)
  pure [0x25, hexDigitUpper (uc >>> 4), hexDigitUpper (uc &&& 0xF)]

/-- `url_utf::append_utf8<std::string, append_percent_encoded_byte>(code_point, output)`
    (url_utf.h:214-232): no reads; every byte is `static_cast<uint8_t>(…)` -/
def appendUtf8PctM (cp : Nat) : R (List Nat) :=
  if cp ≤ 0x7F then appendPercentEncodedByteM (cp % 256)
  else do
    let hd ← (
      if cp ≤ 0x7FF then appendPercentEncodedByteM (((cp >>> 6) ||| 0xC0) % 256)
      else do
        let hd ← (
          if cp ≤ 0xFFFF then appendPercentEncodedByteM (((cp >>> 12) ||| 0xE0) % 256)
          else do
            let x ← appendPercentEncodedByteM (((cp >>> 18) ||| 0xF0) % 256)
            let y ← appendPercentEncodedByteM ((((cp >>> 12) &&& 0x3F) ||| 0x80) % 256)
            pure (x ++ y) : R (List Nat))
        let z ← appendPercentEncodedByteM ((((cp >>> 6) &&& 0x3F) ||| 0x80) % 256)
        pure (hd ++ z) : R (List Nat))
    let tl ← appendPercentEncodedByteM (((cp &&& 0x3F) ||| 0x80) % 256)
    pure (hd ++ tl)

/-- `detail::append_utf8_percent_encoded_char(first, last, output)`   (url_percent_encode.h:460-469):
    `(result, first', appended)`.  PRECONDITION (all callers: inside `while (pointer < last)`): `it < last`. -/
def appendUtf8PercentEncodedCharM (e : Enc) (a : Array Nat) (first last it : Nat) : R (Bool × Nat × List Nat) := do
  sub first last it last                             -- url_utf::read_utf_char(first, last)
  let (ok, cp, it') ← readChar e a it last
  let s ← appendUtf8PctM (if ok then cp else 0xFFFD)
  pure (ok, it', s)

/-- the three loops `while (pointer < last) { uch = *pointer; if (uch >= HI) append_utf8_percent_encoded_char
    else { uc = (unsigned char)uch; if (!keep(uc)) append_percent_encoded_byte else push_back; ++pointer } }`:
    `(success, output)`.  `keep` is R-valued (a table look-up or a comparison). -/
def encLoopM (e : Enc) (hi : Nat) (keep : Nat → R Bool) (a : Array Nat) (first last : Nat) (slack : Nat := 0) :
    R (Bool × List Nat) :=
  iter (fun (s : Nat × Bool × List Nat) => do
    let (pointer, success, out) := s
    if ¬ pointer < last + slack then pure (.inr (success, out)) else do   -- while (pointer < last)   (slack = 0)
    let uch ← rd a first last pointer                -- uch = static_cast<UCharT>(*pointer)   [pointer < last]
    if uch ≥ hi then do
      let (ok, pointer', s) ← appendUtf8PercentEncodedCharM e a first last pointer
      pure (.inl (pointer', success && ok, out ++ s))
    else do
      let uc := uch % 256                            -- static_cast<unsigned char>(uch)
      let k ← keep uc
      let s ← (if k then pure [uc] else appendPercentEncodedByteM uc : R (List Nat))
      let pointer' ← mkptr first last (pointer + 1)  -- ++pointer
      pure (.inl (pointer', success, out ++ s)))
  (last - first + 1) (first, true, [])

/-- `detail::append_utf8_percent_encoded(first, last, cpset, output)`   (url_percent_encode.h:475-496)
    = `upa::percent_encode` (580-587) -/
def appendUtf8PercentEncodedM (e : Enc) (noEnc : Nat → Bool) (a : Array Nat) (first last : Nat) (slack : Nat := 0) :
    R (List Nat) := do
  let (_, out) ← encLoopM e 0x80 (cpsetGetM noEnc) a first last slack
  pure out

/-- `url_parser::do_path_segment(pointer, last, output)`   (url.h:2471-2494): `path_no_encode_set` -/
def pathSegmentEncM (e : Enc) (a : Array Nat) (first last : Nat) (slack : Nat := 0) : R (Bool × List Nat) :=
  encLoopM e 0x80 (cpsetGetM Impl.pathNoEnc) a first last slack

/-- `url_parser::do_simple_path(pointer, last, output)`   (url.h:2496-2523): `uch >= 0x7f`, `uc <= 0x1f` -/
def simplePathM (e : Enc) (a : Array Nat) (first last : Nat) (slack : Nat := 0) : R (Bool × List Nat) :=
  encLoopM e 0x7F (fun uc => pure (decide (¬ uc ≤ 0x1F))) a first last slack

/-- `url_search_params::urlencode(encoded, value)`   (url_search_params.h:747-761) on the bytes
    `[first, last)` of `str_value`; `kEncByte[0x100]`, `kHexCharLookup[0x10]` -/
def urlencodeM (a : Array Nat) (first last : Nat) (cast : Nat := 256) : R (List Nat) :=
  iter (fun (s : Nat × List Nat) => do
    let (it, out) := s
    if it = last then pure (.inr out) else do        -- for (const char c : str_value)
    let c ← rd a first last it
    let uc := c % cast                               -- static_cast<unsigned char>(c)   (cast = 256)
    idx 256 uc                                       -- kEncByte[uc]
    let cenc := Spec.urlencodedByte uc
    let s ← (
      if cenc = 0x25 then do
        idx 16 (uc >>> 4)                            -- kHexCharLookup[uc >> 4]
        idx 16 (uc &&& 0xF)                          -- kHexCharLookup[uc & 0xF]
        pure [cenc, hexDigitUpper (uc >>> 4), hexDigitUpper (uc &&& 0xF)]
      else pure [cenc] : R (List Nat))
    let it' ← mkptr first last (it + 1)
    pure (.inl (it', out ++ s)))
  (last - first + 1) (first, [])

/-! ## 5  src/url_utf.cpp convert_utf8_to_utf16 -/

/-- `url_utf::convert_utf8_to_utf16(first, last, output)`   (src/url_utf.cpp:11-19) -/
def convertUtf8ToUtf16M (a : Array Nat) (first last : Nat) (slack : Nat := 0) : R (Bool × List Nat) :=
  iter (fun (s : Nat × Bool × List Nat) => do
    let (it, success, out) := s
    if ¬ it < last + slack then pure (.inr (success, out)) else do   -- for (it = first; it < last;)   (slack = 0)
    sub first last it last                           -- read_utf_char(it, last)   [it < last]
    let (ok, cp, it') ← readU8 a it last
    pure (.inl (it', success && ok, out ++ Impl.encodeUtf16Char (if ok then cp else 0xFFFD))))
  (last - first + 1) (first, true, [])

/-! ## 1  url_host.h -/

/-- `host_parser::parse_ipv4(first, last, dest)`   (url_host.h:335-346) -/
def parseIpv4M (a : Array Nat) (first last : Nat) : R (Option Host) := do
  match ← ipv4Parse a first last with
  | none => pure none
  | some ipv4 => do
    let s ← ipv4SerializeM ipv4
    pure (some { kind := .ipv4, text := s })

/-- `host_parser::parse_ipv6(first, last, dest)`   (url_host.h:348-361): the local `uint16_t ipv6addr[8]`
    is the eight cells `ipv6_parse` filled -/
def parseIpv6M (a : Array Nat) (first last : Nat) : R (Option Host) := do
  match ← ipv6Parse a first last with
  | none => pure none
  | some addr => do
    let ipv6addr : Array Nat := ((List.range 8).map (fun i => addr.getD i 0)).toArray
    let s ← ipv6SerializeM ipv6addr 0 8
    pure (some { kind := .ipv6, text := [0x5B] ++ s ++ [0x5D] })

/-- `host_parser::parse_opaque_host(first, last, dest)`   (url_host.h:292-333) -/
def parseOpaqueHostM (e : Enc) (a : Array Nat) (first last : Nat) : R (Option Host) := do
  -- detail::contains_forbidden_host_char(first, last) = std::any_of(first, last, is_forbidden_host_char)
  let p ← findIfM a first last (charInSetM Spec.forbiddenHost) (last - first) first
  if p ≠ last then pure none else do
  let (_, s) ← simplePathM e a first last            -- the same `while (pointer < last)` loop (312-328)
  pure (some { kind := if s = [] then .empty else .opaque, text := s })

/-- the `else if (static_cast<UCharT>(*ptr) < 0x80 && *ptr != '%')` block of parse_host
    (url_host.h:206-214), entered with `ptr != last`; `true` = `return domain_invalid_code_point` -/
def hostForbiddenCheckM (a : Array Nat) (first last ptr : Nat) (slack : Nat := 0) : R Bool := do
  let c ← rd a first last ptr                        -- *ptr   [ptr != last]
  if c < 0x80 ∧ c ≠ 0x25 then
    -- if (!(*ptr >= 0x3C && *ptr <= 0x3E && ptr + 1 < last && (UCharT(ptr[1]) >= 0x80 || ptr[1] == '%')))
    if c ≥ 0x3C ∧ c ≤ 0x3E then do
      let p1 ← mkptr first last (ptr + 1)            -- ptr + 1
      if p1 < last + slack then do                   -- … < last &&   (slack = 0)
        let n ← rd a first last (ptr + 1)            -- ptr[1]   [ptr + 1 < last]
        pure (!(decide (n ≥ 0x80) || n == 0x25))
      else pure true
    else pure true
  else pure false

/-- the two loops that fill `buff_uc` (url_host.h:219-261): copy `[first, ptr)`, then percent-decode
    `[ptr, last)` to UTF-16 -/
def hostDecodeM (e : Enc) (a : Array Nat) (first last ptr : Nat) (back : Nat := 1) : R (List Nat) := do
  -- for (auto it = first; it != ptr; ++it) buff_uc.push_back(*it)
  let buff0 ← iter (fun (s : Nat × List Nat) => do
      let (it, buff) := s
      if it = ptr then pure (.inr buff) else do
      let c ← rd a first last it                     -- *it   [it != ptr ≤ last]
      let it' ← mkptr first last (it + 1)            -- ++it
      pure (.inl (it', buff ++ [c]))) (last - first + 1) (first, [])
  -- for (auto it = ptr; it != last;)
  iter (fun (s : Nat × List Nat) => do
    let (it, buff) := s
    if it = last then pure (.inr buff) else do
    let uch ← rd a first last it                     -- uch = *it++   [it != last]
    let it ← mkptr first last (it + 1)
    if uch < 0x80 then
      if uch ≠ 0x25 then pure (.inl (it, buff ++ [uch]))
      else do
        sub first last it last                       -- detail::decode_hex_to_byte(it, last, uc8)
        match ← decodeHexToByte a it last with
        | some (uc8, it) =>
          if uc8 < 0x80 then pure (.inl (it, buff ++ [uc8]))
          else do
            -- while (it != last && *it == '%') { ++it; if (!decode_hex_to_byte(…)) uc8 = '%'; push_back }
            let (it, b8) ← pctRun a first last (last - it + 1) (it, [uc8])
            -- url_utf::convert_utf8_to_utf16(buff_utf8.data(), buff_utf8.data() + buff_utf8.size(), buff_uc)
            let (_, u16) ← convertUtf8ToUtf16M b8.toArray 0 b8.length
            pure (.inl (it, buff ++ u16))
        | none => pure (.inl (it, buff ++ [0x25]))
    else do
      let it ← mkptrSub first last it back           -- --it;   (back = 1)
      let (cp, it) ← readUtfChar e a first last it   -- url_utf::read_utf_char(it, last)
      pure (.inl (it, buff ++ Impl.encodeUtf16Char cp)))
    (last - first + 1) (ptr, buff0)

/-- the decision taken before the IDNA path of parse_host (url_host.h:188-214):
    `some r` = `return r`, `none` = go on with `domain_to_ascii`; also yields `ptr` -/
def hostFastPathM (a : Array Nat) (first last : Nat) (slack : Nat := 0) : R (Nat × Option (Option Host)) := do
  -- ptr = std::find_if_not(first, last, detail::is_ascii_domain_char<CharT>)
  let ptr ← findIfM a first last (fun c => do
      let b ← charInSetM Spec.asciiDomainChar c
      pure (!b)) (last - first) first
  if ptr = last then do
    let xn ← hasXnLabel a first last                 -- util::has_xn_label(first, last)
    if !xn then do
      let num ← endsInNumber a first last            -- hostname_ends_in_a_number(first, last)
      if num then do
        let r ← parseIpv4M a first last
        pure (ptr, some r)
      else do
        sub first last first last                    -- util::append_ascii_lowercase(str_host, first, last)
        pure (ptr, some (some { kind := .domain, text := (a.extract first last).toList.map toLower }))
    else pure (ptr, none)
  else do
    let bad ← hostForbiddenCheckM a first last ptr slack
    if bad then pure (ptr, some none) else pure (ptr, none)

/-- `host_parser::parse_host(first, last, is_opaque, dest)`   (url_host.h:158-287); `none` = an error
    code, `idna` = `domain_to_ascii` (its output buffer `buff_ascii` is scanned as a fresh array) -/
def parseHostM (idna : Idna) (e : Enc) (a : Array Nat) (first last : Nat) (isOpaque : Bool) (slack : Nat := 0) :
    R (Option Host) :=
  if first = last then                               -- if (first == last)
    pure (if isOpaque then some { kind := .empty, text := [] } else none)
  else do
  let c0 ← rd a first last first                     -- *first == '['   [first < last]
  if c0 = 0x5B then do
    let cl ← rdPrev a first last last                -- *(last - 1) == ']'   [first < last]
    if cl = 0x5D then do
      let f1 ← mkptr first last (first + 1)          -- first + 1
      let l1 ← mkptrSub first last last 1            -- last - 1
      sub first last f1 l1                           -- parse_ipv6(first + 1, last - 1, dest)
      parseIpv6M a f1 l1
    else pure none
  else if isOpaque then parseOpaqueHostM e a first last
  else do
  let (ptr, fast) ← hostFastPathM a first last slack
  match fast with
  | some r => pure r
  | none => do
    let buffUc ← hostDecodeM e a first last ptr
    match idna buffUc with                           -- domain_to_ascii(buff_uc.data(), buff_uc.size(), buff_ascii)
    | none => pure none
    | some ascii => do
      let b := ascii.toArray
      -- detail::contains_forbidden_domain_char(buff_ascii.data(), buff_ascii.data() + buff_ascii.size())
      let p ← findIfM b 0 ascii.length (charInSetM Spec.forbiddenDomain) ascii.length 0
      if p ≠ ascii.length then pure none else do
      let num ← endsInNumber b 0 ascii.length        -- hostname_ends_in_a_number(buff_ascii.begin(), buff_ascii.end())
      if num then parseIpv4M b 0 ascii.length
      else pure (some { kind := .domain, text := ascii })

/-! ## 2  url.h -/

/-- `detail::port_from_str(first, last)`   (url.h:931-937) -/
def portFromStrM (a : Array Nat) (first last : Nat) (slack : Nat := 0) : R Nat :=
  iter (fun (s : Nat × Nat) => do
    let (it, port) := s
    if it = last + slack then pure (.inr port) else do   -- for (it = first; it != last; ++it)   (slack = 0)
    let c ← rd a first last it                       -- *it   [it != last]
    let it' ← mkptr first last (it + 1)              -- ++it
    pure (.inl (it', port * 10 + (c - 0x30))))
  (last - first + 1) (first, 0)

/-- `detail::do_trim(first, last)`   (url.h:953-961): the new `(first, last)` -/
def trimM (a : Array Nat) (first last : Nat) (slack : Nat := 0) : R (Nat × Nat) := do
  -- while (first < last && is_trim_char(*first)) ++first;
  let f ← iter (fun (p : Nat) =>
      if p < last + slack then do                    -- first < last &&   (slack = 0)
        let c ← rd a first last p                    -- *first   [first < last]
        if Impl.isTrimChar c then do
          let p' ← mkptr first last (p + 1)          -- ++first
          pure (.inl p')
        else pure (.inr p)
      else pure (.inr p)) (last - first + 2) first
  -- while (first < last && is_trim_char(*(last-1))) --last;
  let l ← iter (fun (q : Nat) =>
      if f < q then do                               -- first < last &&
        let c ← rdPrev a first last q                -- *(last-1)   [first < last]
        if Impl.isTrimChar c then do
          let q' ← mkptrSub first last q 1           -- --last
          pure (.inl q')
        else pure (.inr q)
      else pure (.inr q)) (last - first + 1) last
  pure (f, l)

/-- `detail::do_remove_whitespace(first, last, buff)`   (url.h:965-984): `none` = nothing removed
    (`first`, `last` unchanged), `some buff` = the new buffer -/
def removeWhitespaceM (a : Array Nat) (first last : Nat) (slack : Nat := 0) : R (Option (List Nat)) :=
  iter (fun (it : Nat) =>
    if ¬ it < last then pure (.inr none) else do     -- for (auto it = first; it < last; ++it)
    let c ← rd a first last it                       -- *it   [it < last]
    if !Impl.isRemovable c then do
      let it' ← mkptr first last (it + 1)            -- continue; … ++it
      pure (.inl it')
    else do
      sub first last first it                        -- buff.append(first, it)
      let buff := (a.extract first it).toList
      -- for (; it < last; ++it) if (!is_removable_char(*it)) buff.push_back(*it);
      let buff ← iter (fun (s : Nat × List Nat) => do
          let (it, buff) := s
          if ¬ it < last + slack then pure (.inr buff) else do   -- it < last   (slack = 0)
          let c ← rd a first last it                 -- *it   [it < last]
          let it' ← mkptr first last (it + 1)        -- ++it
          pure (.inl (it', if !Impl.isRemovable c then buff ++ [c] else buff))) (last - first + 2) (it, buff)
      pure (.inr (some buff)))
  (last - first + 1) first

/-- `url_parser::parse_path(urls, first, last)`   (url.h:2398-2469); the serializer state that the
    control flow reads (`is_special_scheme`, `is_file_scheme`, `is_empty_path`) and the operations on it
    (`shorten_path`, `append_empty_path_segment`, `save_path_segment`) are those of the record `u` -/
def parsePathM (e : Enc) (a : Array Nat) (first last : Nat) (u : Url) (driveLen : Nat := 2) : R Url :=
  iter (fun (s : Nat × Url) => do
    let (pointer, u) := s
    -- end_of_segment = is_special_scheme() ? std::find_if(pointer, last, is_slash) : std::find(pointer, last, '/')
    sub first last pointer last
    let eos ← findIf a first last (if u.isSpecial then Impl.isSlash else (· == 0x2F)) (last - pointer) pointer
    let len := eos - pointer                         -- len = end_of_segment - pointer
    let isLast := decide (eos = last)                -- is_last = end_of_segment == last
    sub first last pointer eos                       -- the lambdas read pointer[0 .. len)
    let dd ← doubleDot a pointer eos                 -- double_dot(pointer, len)
    let u ← (
      if dd then
        let u := Impl.shortenPath u                  -- urls.shorten_path()
        pure (if isLast then { u with path := u.path ++ [[]] } else u)
      else do
        let sd ← singleDot a pointer eos             -- single_dot(pointer, len)
        if sd then pure (if isLast then { u with path := u.path ++ [[]] } else u)
        else do
          -- len == 2 && is_file_scheme() && is_empty_path() && is_windows_drive(pointer[0], pointer[1])
          let drive ← (
            if len = driveLen ∧ u.isFile = true ∧ u.path.isEmpty = true then do   -- (driveLen = 2)
              let c0 ← rd a first last pointer       -- pointer[0]   [len == 2]
              let c1 ← rd a first last (pointer + 1) -- pointer[1]   [len == 2]
              pure (Impl.isWindowsDrive c0 c1)
            else pure false : R Bool)
          if drive then do
            let c0 ← rd a first last pointer         -- str_path += static_cast<char>(pointer[0])
            pure { u with path := u.path ++ [[c0, 0x3A]] }
          else do
            sub first last pointer eos               -- do_path_segment(pointer, end_of_segment, str_path)
            let (_, seg) ← pathSegmentEncM e a pointer eos
            pure { u with path := u.path ++ [seg] } : R Url)
    if isLast then pure (.inr u)                     -- if (is_last) break;
    else do
      let pointer' ← mkptr first last (eos + 1)      -- pointer = end_of_segment + 1
      pure (.inl (pointer', u)))
  (last - first + 1) (first, u)

/-- `detail::find_last(first, last, value)`   (url.h:988-995) -/
def findLastM (a : Array Nat) (first last value : Nat) (stop : Nat := 0) : R Nat :=
  iter (fun (it : Nat) =>
    if it + stop > first then do                     -- for (auto it = last; it > first;)   (stop = 0)
      let it' ← mkptrSub first last it 1             -- --it
      let c ← rd a first last it'                    -- *it == value
      if c = value then pure (.inr it') else pure (.inl it')
    else pure (.inr last)) (last - first + 1) last

/-- `url::get_path_first_string(len)`   (url.h:2530-2540) on `pathv = a[first .. last)`; the view returned -/
def getPathFirstStringM (a : Array Nat) (first last len : Nat) (opaquePath : Bool) (slack : Nat := 0) : R (Nat × Nat) :=
  if last - first = 0 ∨ opaquePath = true then pure (first, last)    -- pathv.length() == 0 || has_opaque_path()
  else do
    let f1 ← mkptr first last (first + 1)            -- pathv.remove_prefix(1)
    let n := last - f1
    let ok ← (
      if n = len then pure true                      -- pathv.length() == len ||
      else if n + slack > len then do                -- pathv.length() > len &&   (slack = 0)
        let c ← rd a f1 last (f1 + len)              -- pathv[len] == '/'
        pure (c == 0x2F)
      else pure false : R Bool)
    if ok then do
      let e ← mkptr first last (f1 + len)            -- { pathv.data(), len }
      pure (f1, e)
    else pure (f1, f1)

end Upa.Impl.B
