/-
  Model of `upa::str_view<CharT, Traits>` (include/upa/str_view.h), the replacement of
  `std::basic_string_view` in the C++11/14 builds, and — in `Upa.Impl.SV.StdView` — what the C++ standard
  specifies for `std::basic_string_view` ([string.view.ops], [string.view.modifiers],
  [string.view.comparison], [char.traits.require]) on the viewed sequence.

  A view is a pointer (the array `base` it points into and the offset `off`) and `len`.  Loads are CHECKED
  (`none` = outside the array).  Code units are their UNSIGNED values: `std::char_traits<char>::compare` is
  `memcmp` (bytes compared as `unsigned char`; in constant evaluation `lt` casts to `unsigned char`),
  `char16_t` / `char32_t` are unsigned types.  Only the SIGN of the result of `Traits::compare` is specified;
  the model leaves the magnitude to a parameter `mag`.
  Signedness would matter if the bytes were compared as plain `char` (signed on x86-64): a byte ≥ 0x80 would
  then sort BEFORE every ASCII byte (`signedCompareDiffers` below); and for `wchar_t` on Linux (a signed
  32-bit type), where it matters only for values ≥ 2^31, which are no code points.
-/
namespace Upa.Impl.SV

structure View where
  base : List Nat
  off : Nat
  len : Nat
  deriving Repr, DecidableEq

/-- the view lies within its array -/
def View.Valid (v : View) : Prop := v.off + v.len ≤ v.base.length

/-- the viewed sequence `[begin(), end())` -/
def View.toList (v : View) : List Nat := (v.base.drop v.off).take v.len

/-- `str_view(ptr, len)` over a whole array -/
def ofList (l : List Nat) : View := { base := l, off := 0, len := l.length }

/-- `size()`, `length()` -/
def size (v : View) : Nat := v.len
/-- `empty()` -/
def empty (v : View) : Bool := v.len == 0

/-- `operator[](ind)`: `ptr_[ind]` -/
def get (v : View) (i : Nat) : Option Nat := v.base[v.off + i]?

/-- `remove_prefix(n)`: `ptr_ += n; len_ -= n;` (`size_t` = 64 bits: the subtraction wraps) -/
def removePrefix (v : View) (n : Nat) : View :=
  { v with off := v.off + n, len := (v.len + 18446744073709551616 - n) % 18446744073709551616 }

/-- `remove_suffix(n)`: `len_ -= n;` -/
def removeSuffix (v : View) (n : Nat) : View :=
  { v with len := (v.len + 18446744073709551616 - n) % 18446744073709551616 }

/-- `Traits::compare(p, q, n)` for `p = a + ao`, `q = b + bo`: the first differing pair decides, compared
    UNSIGNED; the magnitude of a non-zero result is unspecified (`mag`) -/
def traitsCompare (mag : Nat → Nat → Nat) (a : List Nat) (ao : Nat) (b : List Nat) (bo : Nat) : Nat → Option Int
  | 0 => some 0
  | n + 1 =>
    match a[ao]?, b[bo]? with
    | some x, some y =>
      if x < y then some (-(1 + (mag x y : Int)))
      else if y < x then some (1 + (mag x y : Int))
      else traitsCompare mag a (ao + 1) b (bo + 1) n
    | _, _ => none

/-- `compare(x)`:
    `cmp = Traits::compare(ptr_, x.ptr_, min(len_, x.len_)); return cmp != 0 ? cmp : (len_ == x.len_ ? 0 : len_ < x.len_ ? -1 : 1);` -/
def compare (mag : Nat → Nat → Nat) (v x : View) : Option Int :=
  match traitsCompare mag v.base v.off x.base x.off (min v.len x.len) with
  | none => none
  | some cmp => some (if cmp ≠ 0 then cmp else if v.len = x.len then 0 else if v.len < x.len then -1 else 1)

/-- `equal(x)` = `operator==`: `len_ == x.len_ && Traits::compare(ptr_, x.ptr_, len_) == 0` -/
def equal (mag : Nat → Nat → Nat) (v x : View) : Option Bool :=
  if v.len = x.len then (traitsCompare mag v.base v.off x.base x.off v.len).map (· == 0) else some false

/-- `operator!=` -/
def notEqual (mag : Nat → Nat → Nat) (v x : View) : Option Bool := (equal mag v x).map (!·)

/-- what a comparison of the bytes as SIGNED `char` would see -/
def signedByte (x : Nat) : Int := if x < 128 then x else (x : Int) - 256

namespace StdView
/-! `std::basic_string_view` as specified, on the viewed sequences -/

/-- [char.traits.require] `X::compare(p,q,n)`: 0 if all `eq`; negative if at the first difference `lt(p[j],q[j])`;
    else positive.  Here: the sign, for two sequences of the same length n. -/
def traitsCompareSign : List Nat → List Nat → Int
  | x :: xs, y :: ys => if x < y then -1 else if y < x then 1 else traitsCompareSign xs ys
  | _, _ => 0

/-- [string.view.ops] `compare(str)`: rlen = the smaller of the sizes; the non-zero result of
    `traits::compare(data(), str.data(), rlen)`, otherwise < 0, 0, > 0 as `size()` <, ==, > `str.size()` -/
def compareSign (a b : List Nat) : Int :=
  let rlen := min a.length b.length
  let r := traitsCompareSign (a.take rlen) (b.take rlen)
  if r ≠ 0 then r else if a.length < b.length then -1 else if a.length = b.length then 0 else 1

/-- [string.view.comparison] `operator==`: `lhs.compare(rhs) == 0` -/
def eq (a b : List Nat) : Bool := compareSign a b == 0

/-- [string.view.modifiers] `remove_prefix(n)`, precondition n ≤ size() -/
def removePrefix (a : List Nat) (n : Nat) : List Nat := a.drop n
/-- `remove_suffix(n)`, precondition n ≤ size() -/
def removeSuffix (a : List Nat) (n : Nat) : List Nat := a.take (a.length - n)

end StdView

/-- the lexicographic order on code-unit sequences (a proper prefix is smaller) -/
def lexCmp : List Nat → List Nat → Ordering
  | [], [] => .eq
  | [], _ :: _ => .lt
  | _ :: _, [] => .gt
  | x :: xs, y :: ys => if x < y then .lt else if y < x then .gt else lexCmp xs ys

def ordSign : Ordering → Int
  | .lt => -1
  | .eq => 0
  | .gt => 1

/-! ### the executable tie -/

def hexDigit (n : Nat) : Char := if n < 10 then Char.ofNat (48 + n) else Char.ofNat (87 + n)
def hexOf (l : List Nat) : String :=
  if l.isEmpty then "-" else String.ofList (l.flatMap fun b => [hexDigit (b / 16 % 16), hexDigit (b % 16)])

def showSign (r : Option Int) : String :=
  match r with
  | none => "!"
  | some r => if r < 0 then "-1" else if r = 0 then "0" else "1"

def showBool (r : Option Bool) : String :=
  match r with
  | none => "!"
  | some true => "1"
  | some false => "0"

/-- the harness line: views over `a` and `b`; `cmp` = sign of `a.compare(b)`, `eq` = `a == b`,
    `pre` / `suf` = `a` after `remove_prefix(min(k, size))` / `remove_suffix(min(k, size))` (`-` when empty) -/
def runSvLine (a b : List Nat) (k : Nat) : String :=
  let va := ofList a
  let vb := ofList b
  let n := min k va.len
  "sv cmp=" ++ showSign (compare (fun _ _ => 0) va vb) ++ " eq=" ++ showBool (equal (fun _ _ => 0) va vb)
    ++ " pre=" ++ hexOf (removePrefix va n).toList ++ " suf=" ++ hexOf (removeSuffix va n).toList

end Upa.Impl.SV
