import Upa.Impl.Api
/-
  The stored representation of `upa::url` (include/upa/url.h:681-686): one normalised string plus the
  table of part end offsets, the flag word, the path segment count and the scheme table index.
  `layout` is the representation a from-scratch serialisation (url_serializer, url.h:2526-2753)
  produces for a record; the getters below are computed from offsets exactly as the C++ getters
  (url.h:1110-1282).  Trailing parts that were never started keep `0` in the C++ (or repeat the
  previous offset after setter edits); both encodings are read identically by every getter, and the
  correspondence check compares them after replacing trailing zeros by the string length (`≈`).
-/
namespace Upa.Impl

/-- url::PartType indices -/
abbrev SCHEME := 0
abbrev SCHEME_SEP := 1
abbrev USERNAME := 2
abbrev PASSWORD := 3
abbrev HOST_START := 4
abbrev HOST := 5
abbrev PORT := 6
abbrev PATH_PREFIX := 7
abbrev PATH := 8
abbrev QUERY := 9
abbrev FRAGMENT := 10

/-- detail::kPartStart (src/url.cpp) -/
def kPartStart : List Nat := [0, 0, 0, 1, 0, 0, 1, 0, 0, 1, 1]

def hostKindCode : HostKind → Nat
  | .empty => 0 | .opaque => 1 | .domain => 2 | .ipv4 => 3 | .ipv6 => 4

/-- index into url::kSchemes, or none (scheme_inf_ == nullptr) -/
def schemeIndex (s : List Nat) : Option Nat :=
  if s == sWs then some 0 else if s == sWss then some 1 else if s == sFtp then some 2
  else if s == sHttp then some 3 else if s == sFile then some 4 else if s == sHttps then some 5 else none

structure Rep where
  norm : List Nat
  partEnd : List Nat          -- 11 offsets
  hostNotNull : Bool
  portNotNull : Bool
  queryNotNull : Bool
  fragmentNotNull : Bool
  opaquePath : Bool
  hostType : Nat
  segCount : Nat
  schemeIdx : Option Nat
  deriving DecidableEq, Repr

/-- from-scratch layout of a record -/
def layout (u : Url) : Rep :=
  let s0 := u.scheme ++ [0x3A]
  let eScheme := u.scheme.length
  -- authority
  let (s1, eSep, eUser, ePass, eHostStart, eHost, ePort) :=
    match u.host with
    | none =>
      let n := s0.length
      (s0, n, n, n, n, n, n)
    | some h =>
      let a := s0 ++ [0x2F, 0x2F]
      let eSep := a.length
      let (b, eUser, ePass, eHostStart) :=
        if u.hasCredentials then
          let b := a ++ u.username
          let eUser := b.length
          if u.password ≠ [] then
            let c := b ++ 0x3A :: u.password
            let ePass := c.length
            let d := c ++ [0x40]
            (d, eUser, ePass, d.length)
          else
            let d := b ++ [0x40]
            (d, eUser, eUser, d.length)
        else (a, eSep, eSep, eSep)
      let c := b ++ h.text
      let eHost := c.length
      match u.port with
      | some p => let d := c ++ 0x3A :: toDecimal p; (d, eSep, eUser, ePass, eHostStart, eHost, d.length)
      | none => (c, eSep, eUser, ePass, eHostStart, eHost, eHost)
  let s2 := s1 ++ (if needsPathPrefix u then [0x2F, 0x2E] else [])
  let ePrefix := s2.length
  let s3 := s2 ++ pathText u
  let ePath := s3.length
  let s4 := s3 ++ (match u.query with | some q => 0x3F :: q | none => [])
  let eQuery := s4.length
  let s5 := s4 ++ (match u.fragment with | some f => 0x23 :: f | none => [])
  let eFragment := s5.length
  { norm := s5,
    partEnd := [eScheme, eSep, eUser, ePass, eHostStart, eHost, ePort, ePrefix, ePath, eQuery, eFragment],
    hostNotNull := u.host.isSome, portNotNull := u.port.isSome,
    queryNotNull := u.query.isSome, fragmentNotNull := u.fragment.isSome,
    opaquePath := u.hasOpaquePath,
    hostType := match u.host with | some h => hostKindCode h.kind | none => 0,
    segCount := if u.hasOpaquePath then 0 else u.path.length,
    schemeIdx := schemeIndex u.scheme }

/-! ### getters computed from the offsets, as in the C++ -/

def Rep.pe (r : Rep) (t : Nat) : Nat := r.partEnd.getD t 0
def slice (l : List Nat) (b e : Nat) : List Nat := (l.take e).drop b

/-- url::get_part_view -/
def Rep.partView (r : Rep) (t : Nat) : List Nat :=
  if t = SCHEME then slice r.norm 0 (r.pe SCHEME)
  else
    let b := r.pe (t - 1) + kPartStart.getD t 0
    let e := r.pe t
    if e > b then slice r.norm b e else []

def Rep.href (r : Rep) : List Nat := r.norm
def Rep.protocol (r : Rep) : List Nat := slice r.norm 0 (if r.pe SCHEME ≠ 0 then r.pe SCHEME + 1 else 0)
def Rep.username (r : Rep) : List Nat := r.partView USERNAME
def Rep.password (r : Rep) : List Nat := r.partView PASSWORD
def Rep.host (r : Rep) : List Nat :=
  if !r.hostNotNull then []
  else slice r.norm (r.pe HOST_START) (if !r.portNotNull then r.pe HOST else r.pe PORT)
def Rep.hostname (r : Rep) : List Nat := r.partView HOST
def Rep.port (r : Rep) : List Nat := r.partView PORT
def Rep.pathname (r : Rep) : List Nat := r.partView PATH
def Rep.path (r : Rep) : List Nat :=
  let b := r.pe (PATH - 1)
  let e := if r.pe QUERY ≠ 0 then r.pe QUERY else r.pe PATH
  if e ≠ 0 then slice r.norm b e else []
def Rep.isEmpty (r : Rep) (t : Nat) : Bool :=
  if t = SCHEME then r.pe SCHEME == 0
  else decide (r.pe (t - 1) + kPartStart.getD t 0 ≥ r.pe t)
def Rep.search (r : Rep) : List Nat :=
  if r.isEmpty QUERY then [] else slice r.norm (r.pe (QUERY - 1)) (r.pe QUERY)
def Rep.hash (r : Rep) : List Nat :=
  if r.isEmpty FRAGMENT then [] else slice r.norm (r.pe (FRAGMENT - 1)) (r.pe FRAGMENT)
def Rep.serializeNoFragment (r : Rep) : List Nat :=
  if r.pe FRAGMENT ≠ 0 then slice r.norm 0 (r.pe QUERY) else r.norm

end Upa.Impl
