import Upa.Impl.Api
/-
  Heap model of the OWNERSHIP GRAPH between `upa::url` objects and `upa::url_search_params` objects
  (property C06, second half).  `Upa/Impl/Api.lean` (`UrlObj`) has value semantics: a url contains its
  params, so "which params object writes into which url" cannot go wrong there.  In the C++ it is a
  pointer graph:

      url::search_params_ptr_   (include/upa/url.h:696)                 unique_ptr to the params object
      url_search_params::url_ptr_ (include/upa/url_search_params.h:387) raw back pointer, nullptr = FREE

  and `url_search_params::update()` (url_search_params-inl.h:25-41) writes into `*url_ptr_`.

  Objects are cells in two association lists keyed by ids (addresses); an id is allocated once
  (`next`) and a destroyed object is removed.  Every function below mirrors one C++ member function,
  pointer writes included, in the order in which the C++ performs them.  Record-level content (the
  parsed URL) is the `Option Url` of `UrlObj.url`; the parser is not the subject here, so operations
  that parse take the parse result as an argument (`HOp`/`stepH` at the end plug the real parser in).

  Ids are plain `Nat` (no `abbrev`: `omega` must see them).  `u d s a b t` range over url ids,
  `p q pd ps` over params ids.  Urls and params objects share the counter `next`.

  Every `url_search_params` object is in one of two roles: OWNED (`urlPtr = some u`, and it is the
  object `u.spPtr` names) or FREE (`urlPtr = none`).  `Upa/Proofs/OwnInv.lean` states this as `OwnInv`
  and `Upa/Props/C06b.lean` proves it for every history.

  What is NOT modelled, and why it does not matter here:
  * temporaries inside the parser (`do_parse` copies `*this` when `base == this`, url.h:1410-1413: a
    copy-constructed url has no params object) — the parse result is an argument;
  * `url::operator=(url&&)` with `this == &other`: at pointer level nothing happens (`unique_ptr`
    self-move, `set_url_ptr(this)`); at record level libstdc++ empties `norm_url_` while
    `move_record` skips `reset_record()`, leaving `is_valid()` true with an empty `href()` (observed on
    the real library).  `pre` excludes self-move for the user-level operation.
  * an invalid url whose `norm_url_` is not empty (a failed parse) is treated like `UrlObj.parse` does:
    as empty.  The list of an INVALID url is not constrained by C06 / `LockS`.

  The model was run against the real library (g++ -fsanitize=address,undefined, `UPA_VERIF_HOOKS`
  access to `search_params_ptr_`, `url_ptr_`, `is_sorted_`): 59 000 operations in 900 random histories
  over all 22 operation kinds, comparing after every operation the whole state — per url: `href()`, the
  identity of its params object; per params object: the identity of `*url_ptr_`, `is_sorted_`,
  `to_string()` — with zero differences.
-/
namespace Upa.Impl.Own
open Upa Upa.Impl

/-! ## association lists -/

def mget {α : Type} (m : List (Nat × α)) (k : Nat) : Option α :=
  match m with
  | [] => none
  | (k', v) :: r => if k = k' then some v else mget r k

def mdel {α : Type} (m : List (Nat × α)) (k : Nat) : List (Nat × α) := m.filter (fun kv => kv.1 != k)

/-- write: the binding goes to the front, every older binding of the key is dropped -/
def mset {α : Type} (m : List (Nat × α)) (k : Nat) (v : α) : List (Nat × α) := (k, v) :: mdel m k

/-! ## cells and the heap -/

/-- a `url_search_params` object: `params_`, `is_sorted_`, `url_ptr_` -/
structure PCell where
  list : List BPair := []
  isSorted : Bool := false
  urlPtr : Option Nat := none
  deriving DecidableEq, Repr

/-- a `url` object: the record (`none`: `is_valid()` is false) and `search_params_ptr_` -/
structure UCell where
  url : Option Url := none
  spPtr : Option Nat := none
  deriving DecidableEq, Repr

structure Heap where
  urls : List (Nat × UCell) := []
  params : List (Nat × PCell) := []
  next : Nat := 0
  deriving DecidableEq, Repr

namespace Heap

def getU (h : Heap) (u : Nat) : Option UCell := mget h.urls u
def getP (h : Heap) (p : Nat) : Option PCell := mget h.params p

def liveU (h : Heap) (u : Nat) : Bool := (h.getU u).isSome
def liveP (h : Heap) (p : Nat) : Bool := (h.getP p).isSome

/-! reads (total: a dead id reads as a default object) -/
def recOf (h : Heap) (u : Nat) : Option Url := (h.getU u).bind (·.url)
def spOf (h : Heap) (u : Nat) : Option Nat := (h.getU u).bind (·.spPtr)
def listOf (h : Heap) (p : Nat) : List BPair := ((h.getP p).map (·.list)).getD []
def sortedOf (h : Heap) (p : Nat) : Bool := ((h.getP p).map (·.isSorted)).getD false
def urlPtrOf (h : Heap) (p : Nat) : Option Nat := (h.getP p).bind (·.urlPtr)

/-! writes (a write to a dead id does nothing) -/
def modU (h : Heap) (u : Nat) (f : UCell → UCell) : Heap :=
  match h.getU u with
  | some c => { h with urls := mset h.urls u (f c) }
  | none => h

def modP (h : Heap) (p : Nat) (f : PCell → PCell) : Heap :=
  match h.getP p with
  | some c => { h with params := mset h.params p (f c) }
  | none => h

/-- the record members of a url (`norm_url_`, `part_end_`, `scheme_inf_`, `flags_`, `path_segment_count_`) -/
def setRec (h : Heap) (u : Nat) (r : Option Url) : Heap := h.modU u (fun c => { c with url := r })
/-- `search_params_ptr_.ptr_ = …` -/
def setSpPtr (h : Heap) (u : Nat) (o : Option Nat) : Heap := h.modU u (fun c => { c with spPtr := o })
/-- `params_ = …; is_sorted_ = …` -/
def setContent (h : Heap) (p : Nat) (l : List BPair) (s : Bool) : Heap :=
  h.modP p (fun c => { c with list := l, isSorted := s })
/-- `url_ptr_ = …` -/
def setUrlPtr (h : Heap) (p : Nat) (o : Option Nat) : Heap := h.modP p (fun c => { c with urlPtr := o })

/-- a new url object at the fresh address `h.next` -/
def allocU (h : Heap) (c : UCell) : Heap := { h with urls := mset h.urls h.next c, next := h.next + 1 }
/-- a new params object at the fresh address `h.next` -/
def allocP (h : Heap) (c : PCell) : Heap := { h with params := mset h.params h.next c, next := h.next + 1 }
def delU (h : Heap) (u : Nat) : Heap := { h with urls := mdel h.urls u }
def delP (h : Heap) (p : Nat) : Heap := { h with params := mdel h.params p }

end Heap

/-! ## url_search_params -/

/-- what `update()` does to a record: url_search_params-inl.h:25-41 (`UrlObj.update` at record level) -/
def recUpdate (r : Option Url) (l : List BPair) : Option Url :=
  match r with
  | some u =>
    if l = [] then some (stripTrailingSpaces { u with query := none })
    else some { u with query := some (formSerialize l) }
  | none => none       -- `url_ptr_->is_valid()` is false: nothing

/-- `url_search_params::update()`: `if (url_ptr_ && url_ptr_->is_valid())` write the serialized list
    into `*url_ptr_`.  A dangling `url_ptr_` (a dead id) is undefined behaviour in the C++ and a no-op
    here; `OwnInv` excludes it. -/
def update (h : Heap) (p : Nat) : Heap :=
  match h.urlPtrOf p with
  | some u => h.setRec u (recUpdate (h.recOf u) (h.listOf p))
  | none => h

/-- `url_search_params()` / the parsing and container constructors: a FREE object holding `l` -/
def newParams (h : Heap) (l : List BPair) : Heap × Nat :=
  (h.allocP { list := l, isSorted := false, urlPtr := none }, h.next)

/-- copy constructor, url_search_params.h:449-452: `params_`, `is_sorted_` copied; `url_ptr_` keeps
    its default member initializer `nullptr` — the copy is FREE -/
def paramsCopyConstruct (h : Heap) (p : Nat) : Heap × Nat :=
  (h.allocP { list := h.listOf p, isSorted := h.sortedOf p, urlPtr := none }, h.next)

/-- `move_params` (url_search_params.h:511-514): `params_ = std::move(other.params_)` leaves the
    source list empty; `other.is_sorted_` is only read -/
def moveParams (h : Heap) (d s : Nat) : Heap :=
  (h.setContent d (h.listOf s) (h.sortedOf s)).setContent s [] (h.sortedOf s)

/-- move constructor, url_search_params.h:456-460: the new object is FREE; the source keeps its
    `url_ptr_` and is NOT updated -/
def paramsMoveConstruct (h : Heap) (p : Nat) : Heap × Nat :=
  ((h.allocP { list := h.listOf p, isSorted := h.sortedOf p, urlPtr := none }).setContent p [] (h.sortedOf p),
   h.next)

/-- copy assignment, url_search_params.h:464-470: `if (this != &other) { copy_params(other); update(); }` -/
def paramsCopyAssign (h : Heap) (d s : Nat) : Heap :=
  if d = s ∨ !(h.liveP d && h.liveP s) then h
  else update (h.setContent d (h.listOf s) (h.sortedOf s)) d

/-- move assignment, url_search_params.h:472-476: `assert(url_ptr_ == nullptr); move_params(other)`.
    No `update()`. -/
def paramsMoveAssign (h : Heap) (d s : Nat) : Heap :=
  if d = s ∨ !(h.liveP d && h.liveP s) then h else moveParams h d s

/-- `safe_assign`, url_search_params.h:478-482: `move_params(other); update()` -/
def paramsSafeAssign (h : Heap) (d s : Nat) : Heap :=
  if d = s ∨ !(h.liveP d && h.liveP s) then h else update (moveParams h d s) d

/-- `swap`, url_search_params.h:492-499: `assert(url_ptr_ == nullptr && other.url_ptr_ == nullptr)`;
    lists and flags exchanged, no `update()` -/
def paramsSwap (h : Heap) (a b : Nat) : Heap :=
  if !(h.liveP a && h.liveP b) then h
  else (h.setContent a (h.listOf b) (h.sortedOf b)).setContent b (h.listOf a) (h.sortedOf a)

/-- any list edit followed by `update()` (`append`, `set`, `del`, `sort`, `clear`, `parse`; with
    `always = false`: `remove`, `remove_if`, which call `update()` only when the size changed) -/
def paramsMutate (h : Heap) (p : Nat) (f : Params → Params) (always : Bool := true) : Heap :=
  if !h.liveP p then h else
  let old : Params := { list := h.listOf p, isSorted := h.sortedOf p }
  let new := f old
  let h1 := h.setContent p new.list new.isSorted
  if always || new.list.length ≠ old.list.length then update h1 p else h1

/-- `~url_search_params()` of an object the user owns -/
def destroyParams (h : Heap) (p : Nat) : Heap := h.delP p

/-! ## url -/

/-- `url()` -/
def newUrl (h : Heap) : Heap × Nat := (h.allocU {}, h.next)

/-- `url::search_params() &`, url.h:1252-1256: `if (!search_params_ptr_) search_params_ptr_.init(this)`;
    `init` (url_search_params.h:411-413) runs the private constructor of url_search_params-inl.h:20-23:
    list = parse of the query, `url_ptr_(url_ptr)` -/
def urlSearchParams (h : Heap) (u : Nat) : Heap :=
  if !h.liveU u then h else
  match h.spOf u with
  | some _ => h
  | none =>
    (h.allocP { list := formParse false (queryBytes (h.recOf u)), isSorted := false, urlPtr := some u }).setSpPtr
      u (some h.next)

/-- `url::clear_search_params`, url.h:1264-1267 -/
def clearSearchParams (h : Heap) (u : Nat) : Heap :=
  match h.spOf u with
  | some p => h.setContent p [] true
  | none => h

/-- `url::parse_search_params`, url.h:1269-1272 -/
def parseSearchParams (h : Heap) (u : Nat) : Heap :=
  match h.spOf u with
  | some p => h.setContent p (formParse false (queryBytes (h.recOf u))) false
  | none => h

/-- `url::clear()`, url.h:1386-1394 -/
def urlClear (h : Heap) (u : Nat) : Heap := clearSearchParams (h.setRec u none) u

/-- `url::do_parse`, url.h:1406-1448, with the outcome `res` of the parser (`none`: failure).
    `new_url()` clears a non-empty object first (as in `UrlObj.parse`). -/
def urlDoParse (h : Heap) (u : Nat) (res : Option Url) : Heap :=
  let h1 := if (h.recOf u).isSome then urlClear h u else h
  match res with
  | some r => parseSearchParams (h1.setRec u (some r)) u
  | none => h1.setRec u none

/-- the `search` setter, url.h:1597-1623, on a valid url: new record `r`; `clear_search_params()` when
    the argument was empty, `parse_search_params()` otherwise -/
def urlSetSearch (h : Heap) (u : Nat) (r : Url) (argEmpty : Bool) : Heap :=
  if (h.recOf u).isNone then h else
  let h1 := h.setRec u (some r)
  if argEmpty then clearSearchParams h1 u else parseSearchParams h1 u

/-- the eight setters that touch neither the params object nor any pointer -/
def urlSetOther (h : Heap) (u : Nat) (r : Url) : Heap :=
  if (h.recOf u).isNone then h else h.setRec u (some r)

/-- copy constructor, `= default` (url.h:93): the record is copied and
    `url_search_params_ptr(const url_search_params_ptr&) noexcept {}` (url_search_params.h:401) leaves
    the new url WITHOUT a params object -/
def urlCopyConstruct (h : Heap) (s : Nat) : Heap × Nat :=
  (h.allocU { url := h.recOf s, spPtr := none }, h.next)

/-- copy assignment, `= default` (url.h:106): memberwise in declaration order — the five record
    members first (url.h:691-695), `search_params_ptr_` last (url.h:696), whose
    `operator=(const url_search_params_ptr&)` (url_search_params-inl.h:47-58) never copies the pointer:
    it copies the LIST into the existing object, or re-parses the query of `*ptr_->url_ptr_` (the
    record just copied), or does nothing when the destination has no params object -/
def urlCopyAssign (h : Heap) (d s : Nat) : Heap :=
  if !(h.liveU d && h.liveU s) then h else
  let h1 := h.setRec d (h.recOf s)
  match h.spOf d with
  | none => h1                                     -- `if (ptr_ && …)`
  | some pd =>
    if d = s then h1 else                          -- `this != std::addressof(other)`
    match h.spOf s with
    | some ps => h1.setContent pd (h1.listOf ps) (h1.sortedOf ps)        -- `ptr_->copy_params(*other.ptr_)`
    | none =>
      match h1.urlPtrOf pd with                    -- `assert(ptr_->url_ptr_)`
      | some o => h1.setContent pd (formParse false (queryBytes (h1.recOf o))) false
      | none => h1

/-- `url::move_record`, url.h:1119-1128 (the source record is reset: fix of finding F1) -/
def moveRecord (h : Heap) (d s : Nat) : Heap :=
  let h1 := h.setRec d (h.recOf s)
  if s = d then h1 else h1.setRec s none

/-- move constructor, url.h:1078-1089 -/
def urlMoveConstruct (h : Heap) (s : Nat) : Heap × Nat :=
  let n := h.next
  -- member initializers: the record and `search_params_ptr_(std::move(other.search_params_ptr_))`
  let h1 := (h.allocU { url := h.recOf s, spPtr := h.spOf s }).setSpPtr s none
  -- `search_params_ptr_.set_url_ptr(this)` (url_search_params.h:415-418: only `if (ptr_)`)
  let h2 := match h.spOf s with
    | some p => h1.setUrlPtr p (some n)
    | none => h1
  -- `other.reset_record()`
  (h2.setRec s none, n)

/-- move assignment, url.h:1091-1100.  `d = s`: `unique_ptr` self-move-assignment and
    `set_url_ptr(this)` change nothing; (what `std::string` self-move does to the record is outside
    this model: `pre` excludes `d = s` for the user-level operation; `urlSwap` reaches this case only
    with an empty record) -/
def urlMoveAssign (h : Heap) (d s : Nat) : Heap :=
  if d = s ∨ !(h.liveU d && h.liveU s) then h else
  -- `move_record(other)`
  let h1 := moveRecord h d s
  -- `search_params_ptr_ = std::move(other.search_params_ptr_)`: `reset(other.release())` —
  -- the params object `d` held is destroyed
  let h2 := match h.spOf d with
    | some pd => h1.delP pd
    | none => h1
  let h3 := (h2.setSpPtr d (h.spOf s)).setSpPtr s none
  -- `search_params_ptr_.set_url_ptr(this)`
  match h.spOf s with
  | some ps => h3.setUrlPtr ps (some d)
  | none => h3

/-- `url::safe_assign(url&&)`, url.h:1102-1117: no pointer is written.  In the middle branch the C++
    builds a TEMPORARY params object on the stack with `url_ptr_ = &other` (url.h:1109) — a cell whose
    back pointer names a url that does not hold it; it is never `update()`d and dies at the end of the
    block.  It is allocated and destroyed here as well. -/
def urlSafeAssign (h : Heap) (d s : Nat) : Heap :=
  if d = s ∨ !(h.liveU d && h.liveU s) then h else
  match h.spOf d with
  | some pd =>
    match h.spOf s with
    | some ps => moveParams (moveRecord h d s) pd ps
    | none =>
      let t := h.next
      let h1 := h.allocP { list := formParse false (queryBytes (h.recOf s)), isSorted := false, urlPtr := some s }
      (moveParams (moveRecord h1 d s) pd t).delP t
  | none => moveRecord h d s

/-- `~url()`: the `unique_ptr` member destroys the params object -/
def destroyUrl (h : Heap) (u : Nat) : Heap :=
  let h1 := match h.spOf u with
    | some p => h.delP p
    | none => h
  h1.delU u

/-- `url::swap`, url.h:1396-1400: `url tmp{std::move(*this)}; *this = std::move(other); other = std::move(tmp);` -/
def urlSwap (h : Heap) (a b : Nat) : Heap :=
  if !(h.liveU a && h.liveU b) then h else
  let (h1, t) := urlMoveConstruct h a
  destroyUrl (urlMoveAssign (urlMoveAssign h1 a b) b t) t

/-- the `href` setter, url.h:1486-1497: `url u; if (u.do_parse(…) == ok) safe_assign(std::move(u));` -/
def urlSetHref (h : Heap) (u : Nat) (res : Option Url) : Heap :=
  if !h.liveU u then h else
  match res with
  | none => h
  | some r =>
    let (h1, t) := newUrl h
    destroyUrl (urlSafeAssign (h1.setRec t (some r)) u t) t

/-- `url::search()` as the parsing constructor of `search_params() &&` sees it -/
def searchBytes (r : Option Url) : List Nat :=
  match r with
  | some u => getSearch u
  | none => []

/-- `url::search_params() &&`, url.h:1258-1262: `if (search_params_ptr_) return std::move(*search_params_ptr_);
    return url_search_params{ search() };` — the result is a FREE object; the owned one (if any) stays
    where it is, emptied, and the url is not updated -/
def urlSearchParamsRvalue (h : Heap) (u : Nat) : Heap × Nat :=
  match h.spOf u with
  | some p => paramsMoveConstruct h p
  | none => newParams h (formParse true (searchBytes (h.recOf u)))

/-! ## histories -/

/-- the list edits of `url_search_params` (as in `Upa.Proofs.C06.Op`) -/
inductive PMut where
  | append (n v : List Nat)
  | set (n v : List Nat)
  | del (n : List Nat)
  | del2 (n v : List Nat)
  /-- `remove(n)`, `remove(n, v)`: `update()` only when something was removed -/
  | remove (n : List Nat)
  | remove2 (n v : List Nat)
  | sort
  | clear
  | parse (remQmark : Bool) (bytes : List Nat)
  deriving DecidableEq, Repr

def PMut.fn : PMut → Params → Params
  | .append n v => (·.append n v)
  | .set n v => (·.set n v)
  | .del n => (·.del n)
  | .del2 n v => (·.del2 n v)
  | .remove n => (·.del n)
  | .remove2 n v => (·.del2 n v)
  | .sort => (·.sort)
  | .clear => (·.clear)
  | .parse r bytes => (·.parse r bytes)

def PMut.always : PMut → Bool
  | .remove _ => false
  | .remove2 _ _ => false
  | _ => true

/-- everything a program can do with url and url_search_params objects, as far as ownership and
    lock-step are concerned.  Objects are named by their ids. -/
inductive HOp where
  | newUrl
  | newParams (l : List BPair)
  | urlSearchParams (u : Nat)
  | urlCopyConstruct (s : Nat)
  | urlCopyAssign (d s : Nat)
  | urlMoveConstruct (s : Nat)
  | urlMoveAssign (d s : Nat)
  | urlSafeAssign (d s : Nat)
  | urlSwap (a b : Nat)
  | urlClear (u : Nat)
  /-- `u.parse(str, base)`; `base`: the id of the base url object, if one is given (may be `u`) -/
  | urlParse (u : Nat) (e : Enc) (units : List Nat) (base : Option Nat)
  | urlSet (u : Nat) (s : Setter) (e : Enc) (units : List Nat)
  | urlSearchParamsRvalue (u : Nat)
  | destroyUrl (u : Nat)
  | paramsCopyConstruct (p : Nat)
  | paramsCopyAssign (d s : Nat)
  | paramsMoveConstruct (p : Nat)
  | paramsMoveAssign (d s : Nat)
  | paramsSafeAssign (d s : Nat)
  | paramsSwap (a b : Nat)
  | paramsMutate (p : Nat) (m : PMut)
  | destroyParams (p : Nat)
  deriving DecidableEq, Repr

/-- the operands exist (a C++ program cannot name a destroyed object), are distinct where the C++
    moves from one into the other (self-move is left unspecified by the standard library), and
    `destroyParams` is applied to an object the USER owns (an owned one is destroyed by its url) -/
def live (h : Heap) : HOp → Bool
  | .newUrl => true
  | .newParams _ => true
  | .urlSearchParams u => h.liveU u
  | .urlCopyConstruct s => h.liveU s
  | .urlCopyAssign d s => h.liveU d && h.liveU s
  | .urlMoveConstruct s => h.liveU s
  | .urlMoveAssign d s => h.liveU d && h.liveU s && d != s
  | .urlSafeAssign d s => h.liveU d && h.liveU s && d != s
  | .urlSwap a b => h.liveU a && h.liveU b
  | .urlClear u => h.liveU u
  | .urlParse u _ _ base => h.liveU u && (match base with | some b => h.liveU b | none => true)
  | .urlSet u _ _ _ => h.liveU u
  | .urlSearchParamsRvalue u => h.liveU u
  | .destroyUrl u => h.liveU u
  | .paramsCopyConstruct p => h.liveP p
  | .paramsCopyAssign d s => h.liveP d && h.liveP s
  | .paramsMoveConstruct p => h.liveP p
  | .paramsMoveAssign d s => h.liveP d && h.liveP s && d != s
  | .paramsSafeAssign d s => h.liveP d && h.liveP s && d != s
  | .paramsSwap a b => h.liveP a && h.liveP b
  | .paramsMutate p _ => h.liveP p
  | .destroyParams p => h.liveP p && (h.urlPtrOf p).isNone

/-- the `assert`s the C++ executes in the operation:
    * url_search_params.h:473  `assert(url_ptr_ == nullptr)` in move assignment;
    * url_search_params.h:493  `assert(url_ptr_ == nullptr && other.url_ptr_ == nullptr)` in `swap`;
    * url_search_params-inl.h:53 `assert(ptr_->url_ptr_)` in `url_search_params_ptr::operator=`, reached
      from `url::operator=(const url&)` when the destination has a params object and the source has none;
    (url_search_params.h:421,425 `assert(ptr_)` are guarded by `if (search_params_ptr_)` at their only
    call sites url.h:1265,1270 and cannot fail) -/
def asserts (h : Heap) : HOp → Bool
  | .paramsMoveAssign d _ => (h.urlPtrOf d).isNone
  | .paramsSwap a b => (h.urlPtrOf a).isNone && (h.urlPtrOf b).isNone
  | .urlCopyAssign d s =>
    match h.spOf d with
    | some pd => d == s || (h.spOf s).isSome || (h.urlPtrOf pd).isSome
    | none => true
  | _ => true

def pre (h : Heap) (op : HOp) : Bool := live h op && asserts h op

/-- The four operations that move the list OUT of a params object without calling `update()` on it:
    the move constructor (url_search_params.h:456-460), the source side of move assignment and of
    `safe_assign` (`move_params`, url_search_params.h:511-514), and `url::search_params() &&`
    (url.h:1258-1262).  Applied to an OWNED object they leave its url with the old query and an empty
    list: lock-step is broken (see `C06b_move_from_owned_breaks_lock`).  `lockSafe` says the source is
    FREE (resp. the url has no params object yet); it is a hypothesis of the lock-step half only. -/
def lockSafe (h : Heap) : HOp → Bool
  | .paramsMoveConstruct p => (h.urlPtrOf p).isNone
  | .paramsMoveAssign _ s => (h.urlPtrOf s).isNone
  | .paramsSafeAssign _ s => (h.urlPtrOf s).isNone
  | .urlSearchParamsRvalue u => (h.spOf u).isNone
  | _ => true

/-- what `u.parse(str, base)` hands to `urlDoParse` -/
def parseResult (idna : Idna) (e : Enc) (units : List Nat) (base : Option (Option Url)) : Option Url :=
  match base with
  | some none => none                                      -- invalid base object
  | _ => Impl.parse idna e units (base.bind id)

/-- one setter call -/
def urlSet (idna : Idna) (h : Heap) (u : Nat) (s : Setter) (e : Enc) (units : List Nat) : Heap :=
  match s, h.recOf u with
  | .href, _ => urlSetHref h u (Impl.parse idna e units none)
  | _, none => h
  | .search, some r => urlSetSearch h u (setValid idna .search e units r).1 (units = [])
  | s, some r => urlSetOther h u (setValid idna s e units r).1

def stepH (idna : Idna) (h : Heap) : HOp → Heap
  | .newUrl => (newUrl h).1
  | .newParams l => (newParams h l).1
  | .urlSearchParams u => urlSearchParams h u
  | .urlCopyConstruct s => (urlCopyConstruct h s).1
  | .urlCopyAssign d s => urlCopyAssign h d s
  | .urlMoveConstruct s => (urlMoveConstruct h s).1
  | .urlMoveAssign d s => urlMoveAssign h d s
  | .urlSafeAssign d s => urlSafeAssign h d s
  | .urlSwap a b => urlSwap h a b
  | .urlClear u => urlClear h u
  | .urlParse u e units base => urlDoParse h u (parseResult idna e units (base.map h.recOf))
  | .urlSet u s e units => urlSet idna h u s e units
  | .urlSearchParamsRvalue u => (urlSearchParamsRvalue h u).1
  | .destroyUrl u => destroyUrl h u
  | .paramsCopyConstruct p => (paramsCopyConstruct h p).1
  | .paramsCopyAssign d s => paramsCopyAssign h d s
  | .paramsMoveConstruct p => (paramsMoveConstruct h p).1
  | .paramsMoveAssign d s => paramsMoveAssign h d s
  | .paramsSafeAssign d s => paramsSafeAssign h d s
  | .paramsSwap a b => paramsSwap h a b
  | .paramsMutate p m => paramsMutate h p m.fn m.always
  | .destroyParams p => destroyParams h p

/-- a history: an operation whose precondition fails is skipped -/
def runH (idna : Idna) (h : Heap) (ops : List HOp) : Heap :=
  ops.foldl (fun h op => if pre h op then stepH idna h op else h) h

/-! ## the abstraction to the value model of `Upa/Impl/Api.lean` -/

/-- the `UrlObj` a url id stands for: its record and the list / flag of the cell it points to -/
def abs (h : Heap) (u : Nat) : UrlObj :=
  match h.getU u with
  | none => {}
  | some c =>
    { url := c.url
      sp := c.spPtr.bind (fun p => (h.getP p).map (fun pc => { list := pc.list, isSorted := pc.isSorted })) }

/-! ## an executable check of the ownership invariant (`Upa.Proofs.Own.check_iff`: it decides `OwnInv`) -/

def Heap.check (h : Heap) : Bool :=
  h.urls.all (fun kv => decide (kv.1 < h.next) &&
    (match kv.2.spPtr with
     | none => true
     | some p =>
       match h.getP p with
       | some pc => pc.urlPtr == some kv.1
       | none => false)) &&
  h.params.all (fun kv => decide (kv.1 < h.next) &&
    (match kv.2.urlPtr with
     | none => true
     | some u =>
       match h.getU u with
       | some uc => uc.spPtr == some kv.1
       | none => false)) &&
  decide ((h.urls.map (·.1)).Nodup) && decide ((h.params.map (·.1)).Nodup)

/-- executable check of the lock-step half: the list of every params object held by a valid url is
    the parse of that url's query -/
def Heap.checkLock (h : Heap) : Bool :=
  h.urls.all (fun kv =>
    match kv.2.url, kv.2.spPtr with
    | some r, some p =>
      (match h.getP p with
       | some pc => pc.list == formParse false (queryBytes (some r))
       | none => false)
    | _, _ => true)

/-! ## the two seeded slips, as operations (used only in the `bites` examples of `Props/C06b.lean`) -/

/-- `c06_r2_safe_assign_no_url_ptr`: in the branch where the destination has no params object,
    `search_params_ptr_ = std::move(other.search_params_ptr_)` WITHOUT `set_url_ptr(this)` -/
def urlSafeAssignBad (h : Heap) (d s : Nat) : Heap :=
  if d = s ∨ !(h.liveU d && h.liveU s) then h else
  match h.spOf d with
  | some _ => urlSafeAssign h d s
  | none => ((moveRecord h d s).setSpPtr d (h.spOf s)).setSpPtr s none

/-- a url copy constructor that copies `search_params_ptr_` (shares the object) -/
def urlCopyConstructBad (h : Heap) (s : Nat) : Heap × Nat :=
  (h.allocU { url := h.recOf s, spPtr := h.spOf s }, h.next)

/-- a params copy constructor that also copies `url_ptr_` -/
def paramsCopyConstructBad (h : Heap) (p : Nat) : Heap × Nat :=
  (h.allocP { list := h.listOf p, isSorted := h.sortedOf p, urlPtr := h.urlPtrOf p }, h.next)

end Upa.Impl.Own
