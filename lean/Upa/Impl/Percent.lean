import Upa.Basic
import Upa.Impl.Utf
/-
  Code-shaped model of include/upa/url_percent_encode.h (encode / decode loops).  Inputs are scalar
  value lists: the C++ loops decode lazily with `read_utf_char`; the models run on `Impl.decode e units`
  (theorem `C10_ascii_split`: a unit < 0x80 always ends a pending sequence, so the lazy and the eager
  decoding see the same ASCII delimiters; the equality itself is tied by correspondence).
-/
namespace Upa.Impl

/-- append_utf8_percent_encoded_char: `%XX` for every UTF-8 byte of `cp` -/
def pctEncodeChar (cp : Nat) : List Nat := (encodeUtf8Char cp).flatMap pctByte

/-- detail::append_utf8_percent_encoded with a no-encode set given as a membership function -/
def percentEncode (noEncode : Nat → Bool) : List Nat → List Nat
  | [] => []
  | c :: cs =>
    (if c ≥ 0x80 then pctEncodeChar c
     else if noEncode c then [c] else pctByte c) ++ percentEncode noEncode cs

/-- the loops of parse_opaque_host / do_simple_path: C0-control percent-encode set spelled out as
    `uch >= 0x7f` / `uc <= 0x1f` -/
def percentEncodeC0 : List Nat → List Nat
  | [] => []
  | c :: cs =>
    (if c ≥ 0x7F then pctEncodeChar c
     else if c ≤ 0x1F then pctByte c else [c]) ++ percentEncodeC0 cs

/-- detail::append_percent_decoded on scalar input.  `run = some buf`: inside an escape run whose
    decoded bytes so far are `buf` (the C++ `buff_utf8`), flushed through check_fix_utf8. -/
def percentDecodeAux : Option (List Nat) → List Nat → List Nat
  | none, [] => []
  | some buf, [] => checkFixUtf8 buf
  | none, c :: r@(h1 :: h2 :: r') =>
    if c < 0x80 then
      if c ≠ 0x25 then c :: percentDecodeAux none r
      else if isHex h1 && isHex h2 then
        let b := hexVal h1 * 16 + hexVal h2
        if b < 0x80 then b :: percentDecodeAux none r'
        else percentDecodeAux (some [b]) r'
      else 0x25 :: percentDecodeAux none r
    else encodeUtf8Char c ++ percentDecodeAux none r
  | none, c :: r =>
    -- fewer than two units follow: a '%' stays literal
    if c < 0x80 then c :: percentDecodeAux none r
    else encodeUtf8Char c ++ percentDecodeAux none r
  | some buf, c :: r@(h1 :: h2 :: r') =>
    if c = 0x25 then
      if isHex h1 && isHex h2 then percentDecodeAux (some (buf ++ [hexVal h1 * 16 + hexVal h2])) r'
      else percentDecodeAux (some (buf ++ [0x25])) r
    else
      -- run ends: flush, then handle `c` as the outer loop does (c ≠ '%')
      checkFixUtf8 buf ++
      (if c < 0x80 then c :: percentDecodeAux none r
       else encodeUtf8Char c ++ percentDecodeAux none r)
  | some buf, c :: r =>
    if c = 0x25 then percentDecodeAux (some (buf ++ [0x25])) r
    else
      checkFixUtf8 buf ++
      (if c < 0x80 then c :: percentDecodeAux none r
       else encodeUtf8Char c ++ percentDecodeAux none r)

/-- upa::percent_decode: scalar values in, UTF-8 bytes out -/
def percentDecode (s : List Nat) : List Nat := percentDecodeAux none s

end Upa.Impl
