/-
  Model of the growth arithmetic of upa::simple_buffer (include/upa/buffer.h:150-180): `add_sizes`,
  `grow` (doubling loop with the overflow guard), as used by push_back / append / reserve.
  `M` = max_size().  `none` = std::length_error.
-/
namespace Upa.Impl

/-- simple_buffer::add_sizes -/
def bufAddSizes (M n1 n2 : Nat) : Option Nat := if M - n1 ≥ n2 then some (n1 + n2) else none

/-- the `do { if (new_cap > (max_size() >> 1)) throw; new_cap *= 2; } while (new_cap < min_cap)` loop -/
def growLoop (M minCap : Nat) : Nat → Nat → Option Nat
  | 0, _ => none
  | fuel+1, c =>
    if c > M / 2 then none
    else if c * 2 < minCap then growLoop M minCap fuel (c * 2) else some (c * 2)

/-- simple_buffer::grow(min_cap): the new capacity -/
def bufGrow (M cap minCap : Nat) : Option Nat :=
  growLoop M minCap (M + 2) (if cap = 0 then 16 else cap)

end Upa.Impl
