/-
  Concurrency model for C19: N threads using independent url objects; the only shared writable
  state of the library is the once-only IDNA initialisation in src/url_idna.cpp:45-72

      UIDNA* uidna_ptr = nullptr;  unsigned icu_version_major = 0;
      const UIDNA* get_uidna() {
          static struct Once { Once() { uidna_ptr = uidna_openUTS46(..); ..; icu_version_major = ver[0]; } } const once;
          return uidna_ptr; }

  (`Upa.Gen.writableGlobals`: these two variables and the compiler's guard variable of `once` are the
  only writable globals in the object files.)  The function-local static is a C++11 "magic static"
  ([stmt.dcl]/4): the protocol on the guard variable is modelled by the micro-steps of `Pc` below.
  `Proto.plainCheck` is the alternative `if (!uidna_ptr) init();` without a guard, modelled only to
  show what the guard buys.  Not modelled: `idna_close()`, the only other writer of `uidna_ptr`
  (url_idna.h:60-70: after it the IDNA functions "must not be called"; it does not reset the guard).
-/
namespace Upa.Impl.Conc

/-- one library call made by a thread on its own objects -/
inductive Call where
  /-- touches only thread-private objects and read-only tables: a function of the private state -/
  | pure (f : Nat → Nat)
  /-- a host-parsing call that reaches `get_uidna()` and then uses the handle and `icu_version_major` -/
  | idna

/-- the guard variable of `get_uidna()::once` -/
inductive Guard where
  | uninit | inProgress (t : Nat) | done
  deriving DecidableEq, Repr

/-- thread-local program counter: `idle` is between calls, the others are inside `idna` -/
inductive Pc where
  | idle
  | checkGuard                    -- entering the declaration of `once`
  | initPtr                       -- Once(): `uidna_ptr = uidna_openUTS46(..)`
  | initVer                       -- Once(): `icu_version_major = ver[0]`
  | finishInit                    -- release the guard
  | readHandle                    -- `return uidna_ptr;`
  | readVersion (p : Option Nat)  -- later `if (icu_version_major < 68)`, holding the handle read before
  deriving DecidableEq, Repr

/-- what one `idna` call saw: (`uidna_ptr`, `icu_version_major`), `none` = still the zero initial value -/
abbrev Obs := Option Nat × Option Nat

structure Thread where
  prog : List Call          -- calls still to make
  pc   : Pc := .idle
  priv : Nat := 0           -- the thread's own objects
  log  : List Obs := []     -- observation log of the `idna` calls

structure State where
  guard      : Guard := .uninit
  uidnaPtr   : Option Nat := none
  icuVersion : Option Nat := none
  initCount  : Nat := 0     -- how many times the body of `Once()` was started
  thr        : Nat → Thread

def State.setThr (s : State) (t : Nat) (th : Thread) : State :=
  { s with thr := fun u => if u = t then th else s.thr u }

/-- `uidna_openUTS46` returns a fresh handle on every call -/
def freshHandle (n : Nat) : Nat := 1000 + n
/-- `ver[0]` of `u_getVersion` -/
def icuMajor : Nat := 72

inductive Proto where
  | magicStatic | plainCheck
  deriving DecidableEq, Repr

/-- one micro-step of thread `t`; `none` = the thread is finished or blocked on the guard -/
def step (p : Proto) (s : State) (t : Nat) : Option State :=
  let th := s.thr t
  match th.pc with
  | .idle =>
    match th.prog with
    | [] => none
    | .pure f :: r => some (s.setThr t { th with prog := r, priv := f th.priv })
    | .idna :: r => some (s.setThr t { th with prog := r, pc := .checkGuard })
  | .checkGuard =>
    match p with
    | .magicStatic =>
      match s.guard with
      | .done => some (s.setThr t { th with pc := .readHandle })
      | .uninit => some { s.setThr t { th with pc := .initPtr } with guard := .inProgress t }
      | .inProgress _ => none
    | .plainCheck =>
      if s.uidnaPtr.isNone then some (s.setThr t { th with pc := .initPtr })
      else some (s.setThr t { th with pc := .readHandle })
  | .initPtr =>
    some { s.setThr t { th with pc := .initVer } with
           uidnaPtr := some (freshHandle s.initCount), initCount := s.initCount + 1 }
  | .initVer => some { s.setThr t { th with pc := .finishInit } with icuVersion := some icuMajor }
  | .finishInit =>
    match p with
    | .magicStatic => some { s.setThr t { th with pc := .readHandle } with guard := .done }
    | .plainCheck => some (s.setThr t { th with pc := .readHandle })
  | .readHandle => some (s.setThr t { th with pc := .readVersion s.uidnaPtr })
  | .readVersion h => some (s.setThr t { th with pc := .idle, log := th.log ++ [(h, s.icuVersion)] })

/-- a schedule is the list of thread ids picked by the scheduler; a pick that is not enabled is skipped -/
def exec (p : Proto) (s : State) (sched : List Nat) : State :=
  sched.foldl (fun s t => (step p s t).getD s) s

/-- thread `t` runs `progs[t]`; ids beyond the list have nothing to do -/
def init (progs : List (List Call)) : State := { thr := fun t => { prog := progs.getD t [] } }

/-- the same after some earlier call has completed the initialisation -/
def initDone (progs : List (List Call)) : State :=
  { init progs with guard := .done, uidnaPtr := some (freshHandle 0), icuVersion := some icuMajor, initCount := 1 }

def Thread.finished (th : Thread) : Bool := th.pc == .idle && th.prog.isEmpty

/-- the only observation a correct `idna` call can make -/
def good : Obs := (some (freshHandle 0), some icuMajor)

/-- sequential meaning of a thread's program: one `good` observation per `idna` call … -/
def seqLog (prog : List Call) : List Obs :=
  prog.filterMap fun | .idna => some good | .pure _ => none
/-- … and the private state after all its `pure` calls -/
def seqPriv (prog : List Call) (priv : Nat) : Nat :=
  prog.foldl (fun x c => match c with | .pure f => f x | .idna => x) priv

/-- number of micro-steps of a call once the initialisation is done -/
def Call.cost : Call → Nat | .pure _ => 1 | .idna => 4
/-- thread 0 alone, after initialisation, run to completion -/
def soloRun (prog : List Call) : Thread :=
  (exec .magicStatic (initDone [prog]) (List.replicate (prog.map Call.cost).sum 0)).thr 0

end Upa.Impl.Conc
