import Upa.Basic
import Upa.Spec.Sets
import Upa.Impl.Utf
import Upa.Impl.Percent
import Upa.Impl.Host
/-
  Model of url_parser::url_parse (include/upa/url.h:1593-2303) in the code's own shape: one function
  per `if (state == …)` block, each scanning for its delimiters and encoding slices, chained in the
  order of the C++ source.  The URL is kept as a record (layer I1 of DESIGN.md); the stored
  representation (one string + offsets + flags) is `Upa.Impl.Rep`.
  Input: scalar values (`Impl.decode`d after trimming and tab/newline removal, see `Api`).
-/
namespace Upa

/-- URL record -/
structure Url where
  scheme : List Nat := []
  username : List Nat := []
  password : List Nat := []
  host : Option Host := none
  port : Option Nat := none
  /-- path is opaque (a single string, `opaquePath`) or a list (`path`) -/
  hasOpaquePath : Bool := false
  opaquePath : List Nat := []
  path : List (List Nat) := []
  query : Option (List Nat) := none
  fragment : Option (List Nat) := none
  deriving DecidableEq, Repr

inductive Outcome where
  | ok | failure | ignored
  deriving DecidableEq, Repr

/-- result of `url_parse`: the outcome and the URL as the serializer/setter left it
    (a failing state-override run may already have written parts, exactly as in the Standard) -/
structure Res where
  out : Outcome
  url : Url

/-- url_parser::State (only the values that can be a state override) -/
inductive Override where
  | schemeStart | host | hostname | port | pathStart | query | fragment
  deriving DecidableEq, Repr

namespace Impl

/-! scheme table (url::kSchemes, src/url.cpp) — tied to the code by `Gen.Schemes` -/
def sWs := asciiStr "ws"
def sWss := asciiStr "wss"
def sFtp := asciiStr "ftp"
def sHttp := asciiStr "http"
def sFile := asciiStr "file"
def sHttps := asciiStr "https"

def isSpecialScheme (s : List Nat) : Bool :=
  s == sWs || s == sWss || s == sFtp || s == sHttp || s == sFile || s == sHttps
def isFileScheme (s : List Nat) : Bool := s == sFile
def defaultPort (s : List Nat) : Option Nat :=
  if s == sWs then some 80 else if s == sWss then some 443 else if s == sFtp then some 21
  else if s == sHttp then some 80 else if s == sHttps then some 443 else none

def _root_.Upa.Url.isSpecial (u : Url) : Bool := isSpecialScheme u.scheme
def _root_.Upa.Url.isFile (u : Url) : Bool := isFileScheme u.scheme
def _root_.Upa.Url.hasCredentials (u : Url) : Bool := u.username ≠ [] || u.password ≠ []
def _root_.Upa.Url.hostText (u : Url) : List Nat := match u.host with | some h => h.text | none => []

/-! no-encode sets as the encode loops use them -/
def fragmentNoEnc := Spec.noEncode Spec.fragmentSet
def queryNoEnc := Spec.noEncode Spec.querySet
def specialQueryNoEnc := Spec.noEncode Spec.specialQuerySet
def pathNoEnc := Spec.noEncode Spec.pathSet
def userinfoNoEnc := Spec.noEncode Spec.userinfoSet
def componentNoEnc := Spec.noEncode Spec.componentSet
def rawPathNoEnc := Spec.noEncode Spec.rawPathSet
def posixPathNoEnc := Spec.noEncode Spec.posixPathSet

def isSlash (c : Nat) : Bool := c == 0x2F || c == 0x5C
def isAuthorityEnd (c : Nat) : Bool := c == 0x2F || c == 0x3F || c == 0x23
def isSpecialAuthorityEnd (c : Nat) : Bool := c == 0x2F || c == 0x3F || c == 0x23 || c == 0x5C
def isWindowsDrive (c1 c2 : Nat) : Bool := isAlpha c1 && (c2 == 0x3A || c2 == 0x7C)
def isNormalizedWindowsDrive (c1 c2 : Nat) : Bool := isAlpha c1 && c2 == 0x3A

/-- detail::starts_with_windows_drive -/
def startsWithWindowsDrive : List Nat → Bool
  | [a, b] => isWindowsDrive a b
  | a :: b :: c :: _ => isSpecialAuthorityEnd c && isWindowsDrive a b
  | _ => false

/-- url::get_shorten_path ("shorten a URL's path") -/
def shortenPath (u : Url) : Url :=
  match u.path with
  | [] => u
  | [seg] =>
    if u.isFile && (match seg with | [a, b] => isNormalizedWindowsDrive a b | _ => false) then u
    else { u with path := [] }
  | _ => { u with path := u.path.dropLast }

/-- url::get_path_rem_last -/
def removeLastSegment (u : Url) : Url := { u with path := u.path.dropLast }

/-! ### fragment, query, opaque path -/

def fragmentState (u : Url) (p : List Nat) : Res :=
  ⟨.ok, { u with fragment := some (percentEncode fragmentNoEnc p) }⟩

def queryState (ov : Option Override) (u : Url) (p : List Nat) : Res :=
  let q := if ov.isSome then p else p.takeWhile (· != 0x23)
  let rest := if ov.isSome then [] else p.dropWhile (· != 0x23)
  let cpset := if u.isSpecial then specialQueryNoEnc else queryNoEnc
  let u := { u with query := some (percentEncode cpset q) }
  match rest with
  | [] => ⟨.ok, u⟩
  | _ :: r => fragmentState u r          -- skip '#'

def isQorH (c : Nat) : Bool := c == 0x3F || c == 0x23

/-- continuation after a path: EOF, `?` or `#` -/
def afterPath (ov : Option Override) (u : Url) (rest : List Nat) : Res :=
  match rest with
  | [] => ⟨.ok, u⟩
  | c :: r => if c = 0x3F then queryState ov u r else fragmentState u r

def opaquePathState (ov : Option Override) (u : Url) (p : List Nat) : Res :=
  let seg := p.takeWhile (fun c => !isQorH c)
  let rest := p.dropWhile (fun c => !isQorH c)
  afterPath ov { u with opaquePath := u.opaquePath ++ percentEncodeC0 seg } rest

/-! ### path -/

def escapedDot : List Nat → Bool
  | [a, b, c] => a == 0x25 && b == 0x32 && (c ||| 0x20) == 0x65
  | _ => false

def singleDot (s : List Nat) : Bool :=
  match s with
  | [a] => a == 0x2E
  | [_, _, _] => escapedDot s
  | _ => false

def doubleDot (s : List Nat) : Bool :=
  match s with
  | [a, b] => a == 0x2E && b == 0x2E
  | [a, b, c, d] => (a == 0x2E && escapedDot [b, c, d]) || (escapedDot [a, b, c] && d == 0x2E)
  | [a, b, c, d, e, f] => escapedDot [a, b, c] && escapedDot [d, e, f]
  | _ => false

/-- one iteration of the `while (true)` loop of parse_path -/
def pathSegment (u : Url) (seg : List Nat) (isLast : Bool) : Url :=
  if doubleDot seg then
    let u := shortenPath u
    if isLast then { u with path := u.path ++ [[]] } else u
  else if singleDot seg then
    if isLast then { u with path := u.path ++ [[]] } else u
  else
    match seg with
    | [a, b] =>
      if u.isFile && u.path.isEmpty && isWindowsDrive a b then { u with path := u.path ++ [[a, 0x3A]] }
      else { u with path := u.path ++ [percentEncode pathNoEnc seg] }
    | _ => { u with path := u.path ++ [percentEncode pathNoEnc seg] }

def pathSegments (u : Url) : List (List Nat) → Url
  | [] => u
  | [seg] => pathSegment u seg true
  | seg :: rest => pathSegments (pathSegment u seg false) rest

/-- url_parser::parse_path -/
def parsePath (u : Url) (s : List Nat) : Url :=
  let segs := if u.isSpecial then splitOnP isSlash s else splitOnP (· == 0x2F) s
  pathSegments u segs

def pathState (ov : Option Override) (u : Url) (p : List Nat) : Res :=
  let seg := if ov.isSome then p else p.takeWhile (fun c => !isQorH c)
  let rest := if ov.isSome then [] else p.dropWhile (fun c => !isQorH c)
  afterPath ov (parsePath u seg) rest

def pathStartState (ov : Option Override) (u : Url) (p : List Nat) : Res :=
  if u.isSpecial then
    match p with
    | c :: r => if isSlash c then pathState ov u r else pathState ov u p
    | [] => pathState ov u p
  else
    match p with
    | c :: r =>
      if ov.isNone then
        if c = 0x3F then queryState ov u r
        else if c = 0x23 then fragmentState u r
        else if c = 0x2F then pathState ov u r
        else pathState ov u p
      else
        if c = 0x2F then pathState ov u r else pathState ov u p
    | [] =>
      if ov.isSome && u.host.isNone then ⟨.ok, { u with path := u.path ++ [[]] }⟩
      else ⟨.ok, u⟩

/-! ### file states -/

def sLocalhost := asciiStr "localhost"
def emptyHost : Host := { kind := .empty, text := [] }

def fileHostState (idna : Idna) (ov : Option Override) (u : Url) (p : List Nat) : Res :=
  let buf := p.takeWhile (fun c => !isSpecialAuthorityEnd c)
  let rest := p.dropWhile (fun c => !isSpecialAuthorityEnd c)
  if buf = [] then
    let u := { u with host := some emptyHost }
    if ov.isSome then ⟨.ok, u⟩ else pathStartState ov u rest
  else if ov.isNone && (match buf with | [a, b] => isWindowsDrive a b | _ => false) then
    pathState ov u p
  else
    match parseHost idna buf (!u.isSpecial) with
    | none => ⟨.failure, u⟩
    | some h =>
      let h := if h.text == sLocalhost then emptyHost else h
      let u := { u with host := some h }
      if ov.isSome then ⟨.ok, u⟩ else pathStartState ov u rest

def fileSlashState (idna : Idna) (base : Option Url) (ov : Option Override) (u : Url) (p : List Nat) : Res :=
  match p with
  | c :: r =>
    if isSlash c then fileHostState idna ov u r
    else fileSlashDefault p
  | [] => fileSlashDefault p
where
  fileSlashDefault (p : List Nat) : Res :=
    let u :=
      match base with
      | some b =>
        if b.isFile then
          let u := { u with host := b.host }
          if !startsWithWindowsDrive p then
            match b.path with
            | [a, c] :: _ => if isNormalizedWindowsDrive a c then { u with path := u.path ++ [[a, c]] } else u
            | _ => u
          else u
        else u
      | none => u
    pathState ov u p

def fileState (idna : Idna) (base : Option Url) (ov : Option Override) (u : Url) (p : List Nat) : Res :=
  let u := if !u.isFile then { u with scheme := sFile } else u
  let u := { u with host := some emptyHost }
  match p with
  | c :: r =>
    if isSlash c then fileSlashState idna base ov u r
    else fileDefault u p
  | [] => fileDefault u p
where
  fileDefault (u : Url) (p : List Nat) : Res :=
    match base with
    | some b =>
      if b.isFile then
        match p with
        | [] => ⟨.ok, { u with host := b.host, path := b.path, query := b.query }⟩
        | c :: r =>
          if c = 0x3F then queryState ov { u with host := b.host, path := b.path } r
          else if c = 0x23 then fragmentState { u with host := b.host, path := b.path, query := b.query } r
          else if !startsWithWindowsDrive p then
            pathState ov (shortenPath { u with host := b.host, path := b.path }) p
          else pathState ov { u with host := b.host } p
      else pathState ov u p
    | none => pathState ov u p

/-! ### port, host, authority -/

def stripLeadingZeros : List Nat → List Nat
  | [c] => [c]
  | 0x30 :: r => stripLeadingZeros r
  | l => l

def portState (ov : Option Override) (u : Url) (p : List Nat) : Res :=
  let digits := p.takeWhile isDigit
  let rest := p.dropWhile isDigit
  let isEnd := match rest with
    | [] => true
    | c :: _ => isAuthorityEnd c || (c == 0x5C && u.isSpecial)
  if isEnd || ov.isSome then
    let r : Option Url :=
      if digits ≠ [] then
        let d := stripLeadingZeros digits
        if d.length > 5 then none
        else
          let port := decimalValue d
          if port > 0xFFFF then none
          else if defaultPort u.scheme = some port then some { u with port := none }
          else some { u with port := some port }
      else some u
    match r with
    | none => ⟨.failure, u⟩
    | some u => if ov.isSome then ⟨.ok, u⟩ else pathStartState ov u rest
  else ⟨.failure, u⟩

/-- scan of the host state: position of the first ':' outside square brackets.
    Returns (host part, some rest-after-colon | none when no port colon, rest at the end) -/
def hostScan : List Nat → Bool → List Nat × Option (List Nat)
  | [], _ => ([], none)
  | c :: r, inBr =>
    if c = 0x3A then
      if !inBr then ([], some r)
      else let (h, t) := hostScan r inBr; (c :: h, t)
    else if c = 0x5B then let (h, t) := hostScan r true; (c :: h, t)
    else if c = 0x5D then let (h, t) := hostScan r false; (c :: h, t)
    else let (h, t) := hostScan r inBr; (c :: h, t)

def hostState (idna : Idna) (ov : Option Override) (u : Url) (p : List Nat) : Res :=
  if ov.isSome && u.isFile then fileHostState idna ov u p
  else
    let isEndC := if u.isSpecial then isSpecialAuthorityEnd else isAuthorityEnd
    let auth := p.takeWhile (fun c => !isEndC c)
    let afterAuth := p.dropWhile (fun c => !isEndC c)
    let (hostPart, portPart) := hostScan auth false
    let isPort := portPart.isSome
    if hostPart = [] && (isPort || u.isSpecial) then ⟨.failure, u⟩
    else if hostPart = [] && ov.isSome && (u.hasCredentials || u.port.isSome) then ⟨.ignored, u⟩
    else if isPort && ov = some .hostname then ⟨.ignored, u⟩
    else
      match parseHost idna hostPart (!u.isSpecial) with
      | none => ⟨.failure, u⟩
      | some h =>
        let u := { u with host := some h }
        match portPart with
        | some pp => portState ov u (pp ++ afterAuth)
        | none => if ov.isSome then ⟨.ok, u⟩ else pathStartState ov u afterAuth

/-- detail::find_last(first, last, '@'): split at the last '@' -/
def splitLastAt (s : List Nat) : Option (List Nat × List Nat) :=
  let r := s.reverse
  let after := (r.takeWhile (· != 0x40)).reverse
  match r.dropWhile (· != 0x40) with
  | [] => none
  | _ :: before => some (before.reverse, after)

def authorityState (idna : Idna) (ov : Option Override) (u : Url) (p : List Nat) : Res :=
  let isEndC := if u.isSpecial then isSpecialAuthorityEnd else isAuthorityEnd
  let auth := p.takeWhile (fun c => !isEndC c)
  let afterAuth := p.dropWhile (fun c => !isEndC c)
  match splitLastAt auth with
  | none => hostState idna ov u p
  | some (cred, hostport) =>
    if hostport = [] then ⟨.failure, u⟩
    else
      let user := cred.takeWhile (· != 0x3A)
      let pw := (cred.dropWhile (· != 0x3A)).drop 1
      let u :=
        if pw ≠ [] || user ≠ [] then
          { u with username := percentEncode userinfoNoEnc user,
                   password := if pw ≠ [] then percentEncode userinfoNoEnc pw else u.password }
        else u
      hostState idna ov u (hostport ++ afterAuth)

def ignoreSlashesState (idna : Idna) (ov : Option Override) (u : Url) (p : List Nat) : Res :=
  authorityState idna ov u (p.dropWhile isSlash)

def specialAuthoritySlashesState (idna : Idna) (ov : Option Override) (u : Url) (p : List Nat) : Res :=
  match p with
  | 0x2F :: 0x2F :: r => ignoreSlashesState idna ov u r
  | _ => ignoreSlashesState idna ov u p

/-! ### relative states -/

def copyAuthority (u b : Url) : Url :=
  { u with username := b.username, password := b.password, host := b.host, port := b.port }
def copyPath (u b : Url) : Url := { u with hasOpaquePath := b.hasOpaquePath, opaquePath := b.opaquePath, path := b.path }

def relativeSlashState (idna : Idna) (b : Url) (ov : Option Override) (u : Url) (p : List Nat) : Res :=
  match p with
  | c :: r =>
    if c = 0x2F then
      if u.isSpecial then ignoreSlashesState idna ov u r else authorityState idna ov u r
    else if c = 0x5C && u.isSpecial then ignoreSlashesState idna ov u r
    else pathState ov (copyAuthority u b) p
  | [] => pathState ov (copyAuthority u b) p

def relativeState (idna : Idna) (b : Url) (ov : Option Override) (u : Url) (p : List Nat) : Res :=
  let u := { u with scheme := b.scheme }
  match p with
  | [] => ⟨.ok, { copyPath (copyAuthority u b) b with query := b.query }⟩
  | c :: r =>
    if c = 0x2F then relativeSlashState idna b ov u r
    else if c = 0x3F then queryState ov (copyPath (copyAuthority u b) b) r
    else if c = 0x23 then fragmentState { copyPath (copyAuthority u b) b with query := b.query } r
    else if c = 0x5C && u.isSpecial then relativeSlashState idna b ov u r
    else pathState ov (removeLastSegment (copyPath (copyAuthority u b) b)) p

def pathOrAuthorityState (idna : Idna) (ov : Option Override) (u : Url) (p : List Nat) : Res :=
  match p with
  | 0x2F :: r => authorityState idna ov u r
  | _ => pathState ov u p

def specialRelativeOrAuthorityState (idna : Idna) (b : Url) (ov : Option Override) (u : Url) (p : List Nat) : Res :=
  match p with
  | 0x2F :: 0x2F :: r => ignoreSlashesState idna ov u r
  | _ => relativeState idna b ov u p

def noSchemeState (idna : Idna) (base : Option Url) (ov : Option Override) (u : Url) (p : List Nat) : Res :=
  match base with
  | none => ⟨.failure, u⟩
  | some b =>
    if b.hasOpaquePath then
      match p with
      | 0x23 :: r =>
        fragmentState { copyPath { u with scheme := b.scheme } b with query := b.query } r
      | _ => ⟨.failure, u⟩
    else if b.isFile then fileState idna base ov u p
    else relativeState idna b ov u p

/-! ### scheme start / scheme -/

def schemeState (idna : Idna) (base : Option Url) (ov : Option Override) (u : Url) (p : List Nat) : Res :=
  match p with
  | [] => ⟨.failure, u⟩      -- not reached: the caller checked the first character
  | c0 :: r0 =>
    let body := r0.takeWhile isSchemeChar
    let rest := r0.dropWhile isSchemeChar
    let isScheme := match rest with
      | c :: _ => c == 0x3A
      | [] => ov.isSome
    if isScheme then
      let scheme := (c0 :: body).map (· ||| 0x20)
      if ov.isSome then
        if u.isSpecial != isSpecialScheme scheme then ⟨.ignored, u⟩
        else if isFileScheme scheme && (u.hasCredentials || u.port.isSome) then ⟨.ignored, u⟩
        else if u.isFile && u.hostText = [] then ⟨.ignored, u⟩
        else
          let u := { u with scheme := scheme }
          let u := if u.port.isSome && defaultPort scheme = u.port then { u with port := none } else u
          ⟨.ok, u⟩
      else
        let u := { u with scheme := scheme }
        let p := rest.drop 1       -- skip ':'
        if u.isFile then fileState idna base ov u p
        else if u.isSpecial then
          match base with
          | some b =>
            if b.scheme = u.scheme then specialRelativeOrAuthorityState idna b ov u p
            else specialAuthoritySlashesState idna ov u p
          | none => specialAuthoritySlashesState idna ov u p
        else
          match p with
          | 0x2F :: r => pathOrAuthorityState idna ov u r
          | _ => opaquePathState ov { u with hasOpaquePath := true } p
    else if ov.isNone then noSchemeState idna base ov u p
    else ⟨.failure, u⟩

/-- url_parser::url_parse after whitespace removal; `u` is the URL being written -/
def urlParse (idna : Idna) (base : Option Url) (ov : Option Override) (u : Url) (p : List Nat) : Res :=
  match ov with
  | none | some .schemeStart =>
    match p with
    | c :: _ =>
      if isAlpha c then schemeState idna base ov u p
      else if ov.isNone then noSchemeState idna base ov u p else ⟨.failure, u⟩
    | [] => if ov.isNone then noSchemeState idna base ov u p else ⟨.failure, u⟩
  | some .host | some .hostname => hostState idna ov u p
  | some .port => portState ov u p
  | some .pathStart => pathStartState ov u p
  | some .query => queryState ov u p
  | some .fragment => fragmentState u p

end Impl
end Upa
