import Upa.Impl.Api
/-
  `url::can_parse` (url.h:214-248, 1405-1429): the same `url_parse` run with `need_save() == false`.
  Only the decisions that can fail are taken; host parsing suppresses its writes, credentials, ports
  and `append_parts` bodies are skipped, and the run returns `ok` at url.h:2117 once the authority /
  file-host states are behind it.  One function per block, in the order of `Impl.Url`.
  Theorem `C09_agree` (Props/C09.lean): `canParse … = (parse …).isSome`.
-/
namespace Upa.Impl

/-- host verdict with need_save() == false: same decisions as `parseHost`, no writes -/
def parseHostNS (idna : Idna) (s : List Nat) (isOpaque : Bool) : Bool := (parseHost idna s isOpaque).isSome

def fileHostStateNS (idna : Idna) (special : Bool) (p : List Nat) : Bool :=
  let buf := p.takeWhile (fun c => !isSpecialAuthorityEnd c)
  if buf = [] then true
  else if (match buf with | [a, b] => isWindowsDrive a b | _ => false) then true
  else parseHostNS idna buf (!special)

def fileSlashStateNS (idna : Idna) (p : List Nat) : Bool :=
  match p with
  | c :: r => if isSlash c then fileHostStateNS idna true r else true
  | [] => true

def fileStateNS (idna : Idna) (p : List Nat) : Bool :=
  match p with
  | c :: r => if isSlash c then fileSlashStateNS idna r else true
  | [] => true

def portStateNS (special : Bool) (p : List Nat) : Bool :=
  let digits := p.takeWhile isDigit
  let rest := p.dropWhile isDigit
  let isEnd := match rest with
    | [] => true
    | c :: _ => isAuthorityEnd c || (c == 0x5C && special)
  if isEnd then
    if digits ≠ [] then
      let d := stripLeadingZeros digits
      if d.length > 5 then false else decide (decimalValue d ≤ 0xFFFF)
    else true
  else false

def hostStateNS (idna : Idna) (special : Bool) (p : List Nat) : Bool :=
  let isEndC := if special then isSpecialAuthorityEnd else isAuthorityEnd
  let auth := p.takeWhile (fun c => !isEndC c)
  let afterAuth := p.dropWhile (fun c => !isEndC c)
  let (hostPart, portPart) := hostScan auth false
  if hostPart = [] && (portPart.isSome || special) then false
  else if !parseHostNS idna hostPart (!special) then false
  else match portPart with
    | some pp => portStateNS special (pp ++ afterAuth)
    | none => true

def authorityStateNS (idna : Idna) (special : Bool) (p : List Nat) : Bool :=
  let isEndC := if special then isSpecialAuthorityEnd else isAuthorityEnd
  let auth := p.takeWhile (fun c => !isEndC c)
  let afterAuth := p.dropWhile (fun c => !isEndC c)
  match splitLastAt auth with
  | none => hostStateNS idna special p
  | some (_, hostport) =>
    if hostport = [] then false else hostStateNS idna special (hostport ++ afterAuth)

def ignoreSlashesStateNS (idna : Idna) (special : Bool) (p : List Nat) : Bool :=
  authorityStateNS idna special (p.dropWhile isSlash)

def specialAuthoritySlashesStateNS (idna : Idna) (p : List Nat) : Bool :=
  match p with
  | 0x2F :: 0x2F :: r => ignoreSlashesStateNS idna true r
  | _ => ignoreSlashesStateNS idna true p

def relativeSlashStateNS (idna : Idna) (special : Bool) (p : List Nat) : Bool :=
  match p with
  | c :: r =>
    if c = 0x2F then
      if special then ignoreSlashesStateNS idna special r else authorityStateNS idna special r
    else if c = 0x5C && special then ignoreSlashesStateNS idna special r
    else true
  | [] => true

def relativeStateNS (idna : Idna) (b : Url) (p : List Nat) : Bool :=
  let special := isSpecialScheme b.scheme
  match p with
  | [] => true
  | c :: r =>
    if c = 0x2F then relativeSlashStateNS idna special r
    else if c = 0x3F then true
    else if c = 0x23 then true
    else if c = 0x5C && special then relativeSlashStateNS idna special r
    else true

def noSchemeStateNS (idna : Idna) (base : Option Url) (p : List Nat) : Bool :=
  match base with
  | none => false
  | some b =>
    if b.hasOpaquePath then
      match p with
      | 0x23 :: _ => true
      | _ => false
    else if b.isFile then fileStateNS idna p
    else relativeStateNS idna b p

def schemeStateNS (idna : Idna) (base : Option Url) (p : List Nat) : Bool :=
  match p with
  | [] => false
  | c0 :: r0 =>
    let body := r0.takeWhile isSchemeChar
    let rest := r0.dropWhile isSchemeChar
    let isScheme := match rest with
      | c :: _ => c == 0x3A
      | [] => false
    if isScheme then
      let scheme := (c0 :: body).map (· ||| 0x20)
      let p := rest.drop 1
      if isFileScheme scheme then fileStateNS idna p
      else if isSpecialScheme scheme then
        match base with
        | some b =>
          if b.scheme = scheme then
            (match p with
             | 0x2F :: 0x2F :: r => ignoreSlashesStateNS idna true r
             | _ => relativeStateNS idna b p)
          else specialAuthoritySlashesStateNS idna p
        | none => specialAuthoritySlashesStateNS idna p
      else
        match p with
        | 0x2F :: 0x2F :: r => authorityStateNS idna false r
        | _ => true
    else noSchemeStateNS idna base p

/-- url::for_can_parse; `base = some none` is an invalid base object -/
def canParse (idna : Idna) (e : Enc) (units : List Nat) (base : Option Url) : Bool :=
  let p := prep e (doTrim units)
  match p with
  | c :: _ => if isAlpha c then schemeStateNS idna base p else noSchemeStateNS idna base p
  | [] => noSchemeStateNS idna base p

end Upa.Impl
