import Upa.Impl.Form
/-
  url_search_params::remove_if(UnaryPredicate) (include/upa/url_search_params.h:585-596) with ANY user
  predicate, written as the `#else` branch of the C++ (the C++20 branch returns the same number, which is
  `removeIf_count` in Props/C16b.lean):

      const size_type old_size = params_.size();
      params_.remove_if(p);                      // std::list::remove_if: erases exactly the elements
      const size_type count = old_size - params_.size();   // satisfying p, keeps the others in order
      if (count) update();
      return count;

  `is_sorted_` is left as it is.  `remove(name)` / `remove(name, value)` (url_search_params.h:566-583) are
  this function with the predicates of `del`; they are the instances the correspondence check runs
  (operations `remove`, `remove2` of the params streams, count and conditional update() included).
-/
namespace Upa.Impl

structure RemoveIfResult where
  params : Params
  count : Nat
  /-- whether `update()` — the write-back into the owning url — is called -/
  updated : Bool
  deriving Repr, DecidableEq

def Params.removeIf (p : Params) (pred : BPair → Bool) : RemoveIfResult :=
  let oldSize := p.list.length
  let l := p.list.filter (fun x => !pred x)
  let count := oldSize - l.length
  { params := { p with list := l }, count := count, updated := count != 0 }

def Params.remove (p : Params) (n : List Nat) : RemoveIfResult := p.removeIf (fun x => x.1 = n)
def Params.remove2 (p : Params) (n v : List Nat) : RemoveIfResult := p.removeIf (fun x => x.1 = n ∧ x.2 = v)

end Upa.Impl
