import Upa.Impl.SetRep
import Upa.Impl.Form
/-
  `url_search_params::update()` (include/upa/url_search_params-inl.h:25-40) on the stored representation of the
  owning url: after every mutation of a URL-owned params list the serialized list is written into the QUERY part
  in place (or the query is cleared and the trailing spaces of an opaque path are stripped when the list is empty).
-/
namespace Upa.Impl

/-- update() given the list (`empty()` is tested on the list, url_search_params-inl.h:29) -/
def updateRep (r : Rep) (l : List BPair) : Rep :=
  if l = [] then stripTrailingSpacesRep (clearPart r QUERY) else writePartFlag r QUERY (formSerialize l)

/-- the same, given only the serialized list (what the correspondence check sees): an empty serialization is an
    empty list (`formSerialize_eq_nil`, Props/C05f) -/
def updateRepSer (r : Rep) (ser : List Nat) : Rep :=
  if ser.isEmpty then stripTrailingSpacesRep (clearPart r QUERY) else writePartFlag r QUERY ser

end Upa.Impl
