import Upa.Impl.Bounds
import Upa.Impl.Api
/-
  BOUNDS-INSTRUMENTED model of the pointer behaviour of `url_parser::url_parse`
  (include/upa/url.h:1671-2389) and of the scans that run before it (`do_trim`, url.h:953-961;
  `do_remove_whitespace`, url.h:965-984), for property C04.  Conventions: header of `Upa/Impl/Bounds.lean`.

  SHAPE.  The C++ function is a sequence of `if (state == X) { … }` blocks over the local variables
  `pointer` and `state`; a block either falls through to the blocks below it with a new `state` /
  `pointer`, or returns.  The model is the same thing: the machine state `UP.M` (state, pointer, and the
  two facts about the URL under construction the control flow reads back: `is_special_scheme()`,
  `is_file_scheme()`), one function `b<State>` per block of type `M → R (M ⊕ Bool)` (`.inl` = fall
  through, `.inr v` = `return`, `v = true` iff `validation_errc::ok`), and `urlParseB`, which chains the
  blocks IN SOURCE ORDER with `stepB` (`if (state == X)` = the first argument of `stepB`).

  WHAT IS CHECKED.  Every element read of url_parse (`*pointer`, `pointer[k]`, `*it`, `end_of_digits[0]`,
  …) is an `rd` against the range `[first, last)` of url_parse; every pointer it forms by arithmetic
  (`pointer + 1`, `++pointer`, `pointer += 2`, `--pointer`, `end_of_scheme + 1`, `it_eta + 1`,
  `it_colon + 1`, `it_host_end + 1`, `end_of_digits - 1`) is a `mkptr` / `mkptrSub`; every range handed
  to a callee or to a `std::` algorithm is a checked `sub first last p e`.  Callees that have an
  instrumented model are called on their sub-range (`startsWithWindowsDrive`, `doubleDot`, `singleDot`
  from `Bounds.lean`; `findLastB`, `encLoopB` (the percent-encode loops), `parsePathB` here); the host
  parser's VERDICT is the parameter `Oracles.hostOk` (its own scans are in `Bounds.lean`).
  `*base` with `base == nullptr` is the outcome `.abort`.

  PARAMETERS.  `BaseInfo` / `UrlInfo`: the booleans about `*base` and about the URL being modified
  (setters) that the control flow reads.  `Oracles`: callee verdicts.  NON-VACUITY: five guards are
  optional arguments whose default is the C++ value (`sraDist`, `sasDist`, `poaSlack`, `fileSlack`,
  `portSlack`, see `urlParseB`).
-/
namespace Upa.Impl.B

namespace UP

/-- url_parser::State (url.h:880-905) -/
inductive St where
  | schemeStart | scheme | noScheme | specialRelativeOrAuthority | pathOrAuthority | relative
  | relativeSlash | specialAuthoritySlashes | specialAuthorityIgnoreSlashes | authority | host | hostname
  | port | file | fileSlash | fileHost | pathStart | path | opaquePath | query | fragment
  deriving DecidableEq, Repr

/-- `State state = state_override ? state_override : scheme_start_state;` -/
def St.ofOverride : Option Override → St
  | none => .schemeStart
  | some .schemeStart => .schemeStart
  | some .host => .host
  | some .hostname => .hostname
  | some .port => .port
  | some .pathStart => .pathStart
  | some .query => .query
  | some .fragment => .fragment

/-- the blocks that dereference `base` without testing it (`*base` in relative_state /
    relative_slash_state; special_relative_or_authority_state leads there) -/
def St.needsBase : St → Bool
  | .specialRelativeOrAuthority | .relative | .relativeSlash => true
  | _ => false

/-- what url_parse reads of `*base` -/
structure BaseInfo where
  special : Bool                  -- base->is_special_scheme()
  file : Bool                     -- base->is_file_scheme()
  opaquePath : Bool               -- base->has_opaque_path()
  sameScheme : List Nat → Bool    -- urls.get_part_view(SCHEME) == base->get_part_view(SCHEME)

/-- what url_parse reads of the URL it modifies BEFORE it has written to it (setters; for a parse from
    scratch the serializer starts empty: the defaults) -/
structure UrlInfo where
  special : Bool := false         -- urls.is_special_scheme()
  file : Bool := false            -- urls.is_file_scheme()
  hasCredentials : Bool := false  -- urls.has_credentials()
  portNull : Bool := true         -- urls.is_null(url::PORT)
  hostEmpty : Bool := true        -- urls.is_empty(url::HOST)
  hostNull : Bool := true         -- urls.is_null(url::HOST)
  needSave : Bool := true         -- urls.need_save()

/-- verdicts of callees that are not part of the pointer behaviour of url_parse -/
structure Oracles where
  /-- `parse_host(urls, p, e) == validation_errc::ok`; first argument: `is_opaque = !is_special_scheme()` -/
  hostOk : Bool → Nat → Nat → Bool
  /-- `urls.is_empty_path()` when parse_path looks at the segment that starts at `p` -/
  emptyPath : Nat → Bool
  /-- `urls.scheme_inf() != nullptr && urls.scheme_inf()->default_port == port` -/
  isDefaultPort : Nat → Bool

/-- the local variables of url_parse plus the two facts about `urls` that change while it runs -/
structure M where
  state : St
  pointer : Nat
  special : Bool
  file : Bool
  deriving DecidableEq, Repr

end UP
open UP

/-! ## scans that run before url_parse -/

/-- detail::do_trim(first, last)   (url.h:953-961): the new `(first, last)` -/
def doTrimB (a : Array Nat) (first last : Nat) (fuel : Nat := last - first + 1) (slack : Nat := 0) : R (Nat × Nat) := do
  -- while (first < last && is_trim_char(*first)) ++first;
  let f ← iter (fun (f : Nat) =>
      if f < last + slack then do                    -- first < last &&   (slack = 0)
        let c ← rd a first last f                    -- *first   [first < last]
        if isTrimChar c then do
          let f' ← mkptr first last (f + 1)          -- ++first
          pure (.inl f')
        else pure (.inr f)
      else pure (.inr f)) fuel first
  -- while (first < last && is_trim_char(*(last-1))) --last;
  let l ← iter (fun (l : Nat) =>
      if f < l then do                               -- first < last &&
        let c ← rdPrev a first last l                -- *(last-1)   [first < last]
        if isTrimChar c then do
          let l' ← mkptrSub first last l 1           -- --last
          pure (.inl l')
        else pure (.inr l)
      else pure (.inr l)) fuel last
  pure (f, l)

/-- detail::do_remove_whitespace(first, last, buff)   (url.h:965-984): `none` = nothing to remove,
    `(first, last)` unchanged; `some buff` = the new buffer, `first = buff.data()`,
    `last = buff.data() + buff.size()` -/
def doRemoveWhitespaceB (a : Array Nat) (first last : Nat) (fuel : Nat := last - first + 1) (slack : Nat := 0) :
    R (Option (List Nat)) :=
  iter (fun (it : Nat) =>                            -- for (auto it = first; it < last; ++it)
    if it < last then do
      let c ← rd a first last it                     -- *it   [it < last]
      if !isRemovable c then do
        let it' ← mkptr first last (it + 1)          -- continue; ++it
        pure (.inl it')
      else do
        sub first last first it                      -- buff.append(first, it)
        let buff := (a.extract first it).toList
        let buff ← iter (fun (s : Nat × List Nat) =>  -- for (; it < last; ++it)
            if s.1 < last + slack then do            -- it < last   (slack = 0)
              let c ← rd a first last s.1            -- *it   [it < last]
              let it' ← mkptr first last (s.1 + 1)   -- ++it
              pure (.inl (it', if !isRemovable c then s.2 ++ [c] else s.2))
            else pure (.inr s.2)) fuel (it, buff)
        pure (.inr (some buff))
    else pure (.inr none)) fuel first

/-! ## small guarded tests of url_parse -/

/-- `pointer < last && *pointer == ch`   (slack = 0) -/
def peekIsB (a : Array Nat) (first last p ch : Nat) (slack : Nat := 0) : R Bool :=
  if p < last + slack then do
    let c ← rd a first last p                        -- *pointer   [pointer < last]
    pure (c == ch)
  else pure false

/-- `pointer != last ? *pointer : 0`   (slack = 0) -/
def peekOr0B (a : Array Nat) (first last p : Nat) (slack : Nat := 0) : R Nat :=
  if p ≠ last + slack then rd a first last p else pure 0

/-- `last - pointer > 1 && pointer[0] == '/' && pointer[1] == '/'`   (dist = 1) -/
def twoSlashesB (a : Array Nat) (first last p : Nat) (dist : Nat := 1) : R Bool :=
  if last - p > dist then do
    let c0 ← rd a first last p                       -- pointer[0]   [last - pointer > 1]
    if c0 = 0x2F then do
      let c1 ← rd a first last (p + 1)               -- pointer[1]   [last - pointer > 1]
      pure (c1 == 0x2F)
    else pure false
  else pure false

/-! ## callees -/

/-- detail::find_last(first, last, value)   (url.h:988-995): `last` when there is no hit -/
def findLastB (a : Array Nat) (first last value : Nat) : R Nat :=
  iter (fun (it : Nat) =>                            -- for (auto it = last; it > first;)
    if it > first then do
      let it' ← mkptrSub first last it 1             -- --it
      let c ← rd a first last it'                    -- *it == value
      if c = value then pure (.inr it') else pure (.inl it')
    else pure (.inr last)) (last - first + 1) last

/-- the percent-encode loops: `append_utf8_percent_encoded` (url_percent_encode.h:475-496),
    `do_path_segment` (url.h:2471-2494), `do_simple_path` (url.h:2496-2523, `thr = 0x7f`) and the query /
    fragment loops of url_parse (url.h:2327-2347, 2363-2383):

      while (pointer < stop)            -- `ne = false`;  query loop: `pointer != stop`, `ne = true`
        if (UCharT(*pointer) >= thr) append_utf8_percent_encoded_char(pointer, stop, out);
        else { …; ++pointer; }

    `[first, last)` is the range of the function the loop belongs to, `stop` the end it scans to;
    `append_utf8_percent_encoded_char` = `read_utf_char(pointer, stop)` gets the sub-range `[p, stop)`.
    Returns the final `pointer`. -/
def encLoopB (e : Enc) (a : Array Nat) (first last : Nat) (thr : Nat) (ne : Bool) (stop : Nat) (fuel : Nat)
    (p0 : Nat) : R Nat :=
  iter (fun (p : Nat) =>
    if (if ne then p == stop else !decide (p < stop)) then pure (.inr p) else do
    let uch ← rd a first last p                      -- *pointer   [pointer < stop / pointer != stop]
    if uch ≥ thr then do
      sub first last p stop                          -- append_utf8_percent_encoded_char(pointer, stop, …)
      let r ← readUtfChar e a p stop p               --   = url_utf::read_utf_char(pointer, stop)
      pure (.inl r.2)
    else do
      let p' ← mkptr first last (p + 1)              -- ++pointer
      pure (.inl p')) fuel p0

/-- detail::append_utf8_percent_encoded(first, last, cpset, output) / url_parser::do_path_segment -/
def appendUtf8PctB (e : Enc) (a : Array Nat) (first last : Nat) : R Unit := do
  let _ ← encLoopB e a first last 0x80 false last (last - first + 1) first
  pure ()

/-- url_parser::do_simple_path(pointer, last, output) -/
def doSimplePathB (e : Enc) (a : Array Nat) (first last : Nat) : R Unit := do
  let _ ← encLoopB e a first last 0x7F false last (last - first + 1) first
  pure ()

/-- what one iteration of the parse_path loop reads of the segment `[pointer, eos)`   (url.h:2440-2464) -/
def pathSegmentB (e : Enc) (a : Array Nat) (first last pointer eos : Nat) (file : Bool) (emptyPath : Nat → Bool) :
    R Unit := do
  sub first last pointer eos                         -- double_dot(pointer, len)
  let dd ← doubleDot a pointer eos
  if dd then pure () else do
  sub first last pointer eos                         -- single_dot(pointer, len)
  let sd ← singleDot a pointer eos
  if sd then pure () else do
  -- len == 2 && urls.is_file_scheme() && urls.is_empty_path() && is_windows_drive(pointer[0], pointer[1])
  let wd ← (
    if eos - pointer = 2 ∧ file = true ∧ emptyPath pointer = true then do
      let c0 ← rd a first last pointer               -- pointer[0]   [len == 2]
      let c1 ← rd a first last (pointer + 1)         -- pointer[1]   [len == 2]
      pure (isWindowsDrive c0 c1)
    else pure false : R Bool)
  if wd then pure () else do
  sub first last pointer eos                         -- do_path_segment(pointer, end_of_segment, str_path)
  appendUtf8PctB e a pointer eos

/-- url_parser::parse_path(urls, first, last)   (url.h:2398-2469) -/
def parsePathB (e : Enc) (a : Array Nat) (first last : Nat) (special file : Bool) (emptyPath : Nat → Bool) : R Unit :=
  iter (fun (pointer : Nat) => do                    -- while (true)
    sub first last pointer last                      -- std::find_if(pointer, last, is_slash) / std::find(pointer, last, '/')
    let eos ← (
      if special then findIf a first last isSlash (last - pointer) pointer
      else do
        match ← findCh a first last 0x2F (last - pointer) pointer with
        | some q => pure q
        | none => pure last : R Nat)
    pathSegmentB e a first last pointer eos file emptyPath
    if eos = last then pure (.inr ())                -- if (is_last) break;
    else do
      let p' ← mkptr first last (eos + 1)            -- pointer = end_of_segment + 1
      pure (.inl p')) (last - first + 1) first

/-! ## the blocks of url_parse, in source order -/

/-- `if (state == scheme_start_state)`   (url.h:1703-1712) -/
def bSchemeStart (a : Array Nat) (first last : Nat) (ov : Option Override) (m : M) : R (M ⊕ Bool) := do
  -- pointer != last && detail::is_first_scheme_char(*pointer)
  let isFirst ← (
    if m.pointer ≠ last then do
      let c ← rd a first last m.pointer              -- *pointer   [pointer != last]
      pure (isAlpha c)
    else pure false : R Bool)
  if isFirst then pure (.inl { m with state := .scheme })
  else if ov.isNone then pure (.inl { m with state := .noScheme })
  else pure (.inr false)

/-- `if (state == scheme_state)`   (url.h:1714-1798); entered with `pointer != last` -/
def bScheme (a : Array Nat) (first last : Nat) (ov : Option Override) (base : Option BaseInfo) (ui : UrlInfo)
    (fuel : Nat) (m : M) : R (M ⊕ Bool) := do
  let p1 ← mkptr first last (m.pointer + 1)          -- pointer + 1
  sub first last p1 last                             -- std::find_if_not(pointer + 1, last, is_scheme_char)
  let eos ← findIf a first last (fun c => !isSchemeChar c) (last - p1) p1
  -- is_scheme = end_of_scheme != last ? *end_of_scheme == ':' : state_override != not_set_state
  let isScheme ← (
    if eos ≠ last then do
      let c ← rd a first last eos                    -- *end_of_scheme   [end_of_scheme != last]
      pure (c == 0x3A)
    else pure ov.isSome : R Bool)
  if isScheme then do
    -- for (auto it = pointer; it != end_of_scheme; ++it) str_scheme.push_back(*it | 0x20);
    let scheme ← iter (fun (s : Nat × List Nat) =>
        if s.1 = eos then pure (.inr s.2) else do
        let c ← rd a first last s.1                  -- *it   [it != end_of_scheme]
        let it' ← mkptr first last (s.1 + 1)         -- ++it
        pure (.inl (it', s.2 ++ [c ||| 0x20]))) fuel (m.pointer, [])
    if ov.isSome then
      -- is_special_old != is_special_new → ignored; file with credentials / port → ignored;
      -- file URL with empty host → ignored; otherwise ok
      if ui.special != isSpecialScheme scheme then pure (.inr false)
      else if isFileScheme scheme && (ui.hasCredentials || !ui.portNull) then pure (.inr false)
      else if ui.file && ui.hostEmpty then pure (.inr false)
      else pure (.inr true)
    else do
      let p ← mkptr first last (eos + 1)             -- pointer = end_of_scheme + 1; // skip ':'
      let special := isSpecialScheme scheme
      let file := isFileScheme scheme
      if file then pure (.inl ⟨.file, p, special, file⟩)
      else if special then
        match base with
        | some b =>
          if b.sameScheme scheme then pure (.inl ⟨.specialRelativeOrAuthority, p, special, file⟩)
          else pure (.inl ⟨.specialAuthoritySlashes, p, special, file⟩)
        | none => pure (.inl ⟨.specialAuthoritySlashes, p, special, file⟩)
      else do
        let sl ← peekIsB a first last p 0x2F         -- pointer < last && *pointer == '/'
        if sl then do
          let p' ← mkptr first last (p + 1)          -- ++pointer
          pure (.inl ⟨.pathOrAuthority, p', special, file⟩)
        else pure (.inl ⟨.opaquePath, p, special, file⟩)
  else if ov.isNone then pure (.inl { m with state := .noScheme })
  else pure (.inr false)

/-- `if (state == no_scheme_state)`   (url.h:1800-1822) -/
def bNoScheme (a : Array Nat) (first last : Nat) (base : Option BaseInfo) (m : M) : R (M ⊕ Bool) :=
  match base with
  | some b =>
    if b.opaquePath then do
      let h ← peekIsB a first last m.pointer 0x23    -- pointer < last && *pointer == '#'
      if h then do
        let p' ← mkptr first last (m.pointer + 1)    -- ++pointer
        pure (.inl ⟨.fragment, p', b.special, b.file⟩)   -- urls.set_scheme(*base)
      else pure (.inr false)
    else pure (.inl { m with state := if b.file then .file else .relative })
  | none => pure (.inr false)

/-- `if (state == special_relative_or_authority_state)`   (url.h:1824-1832) -/
def bSpecialRelativeOrAuthority (a : Array Nat) (first last : Nat) (m : M) (dist : Nat := 1) : R (M ⊕ Bool) := do
  let t ← twoSlashesB a first last m.pointer dist    -- last - pointer > 1 && pointer[0] == '/' && pointer[1] == '/'
  if t then do
    let p ← mkptr first last (m.pointer + 2)         -- pointer += 2
    pure (.inl { m with state := .specialAuthorityIgnoreSlashes, pointer := p })
  else pure (.inl { m with state := .relative })

/-- `if (state == path_or_authority_state)`   (url.h:1834-1841) -/
def bPathOrAuthority (a : Array Nat) (first last : Nat) (m : M) (slack : Nat := 0) : R (M ⊕ Bool) := do
  let sl ← peekIsB a first last m.pointer 0x2F slack -- pointer < last && pointer[0] == '/'
  if sl then do
    let p ← mkptr first last (m.pointer + 1)         -- ++pointer
    pure (.inl { m with state := .authority, pointer := p })
  else pure (.inl { m with state := .path })

/-- `if (state == relative_state)`   (url.h:1843-1884) -/
def bRelative (a : Array Nat) (first last : Nat) (base : Option BaseInfo) (m : M) : R (M ⊕ Bool) :=
  match base with
  | none => .abort                                   -- urls.set_scheme(*base) with base == nullptr
  | some b =>
    let m : M := { m with special := b.special, file := b.file }   -- urls.set_scheme(*base)
    if m.pointer = last then pure (.inr true)        -- if (pointer == last) return ok
    else do
      let ch ← rd a first last m.pointer             -- ch = *pointer++   [pointer != last]
      let p ← mkptr first last (m.pointer + 1)
      if ch = 0x2F then pure (.inl { m with state := .relativeSlash, pointer := p })
      else if ch = 0x3F then pure (.inl { m with state := .query, pointer := p })
      else if ch = 0x23 then pure (.inl { m with state := .fragment, pointer := p })
      else if ch = 0x5C ∧ m.special = true then pure (.inl { m with state := .relativeSlash, pointer := p })
      else do
        let p' ← mkptrSub first last p 1             -- --pointer
        pure (.inl { m with state := .path, pointer := p' })

/-- `if (state == relative_slash_state)`   (url.h:1886-1910) -/
def bRelativeSlash (a : Array Nat) (first last : Nat) (base : Option BaseInfo) (m : M) : R (M ⊕ Bool) := do
  let c ← peekOr0B a first last m.pointer            -- switch (pointer != last ? *pointer : 0)
  if c = 0x2F then do
    let p ← mkptr first last (m.pointer + 1)         -- ++pointer
    pure (.inl { m with state := if m.special then .specialAuthorityIgnoreSlashes else .authority, pointer := p })
  else if c = 0x5C ∧ m.special = true then do
    let p ← mkptr first last (m.pointer + 1)         -- ++pointer
    pure (.inl { m with state := .specialAuthorityIgnoreSlashes, pointer := p })
  else
    match base with
    | none => .abort                                 -- urls.append_parts(*base, …) with base == nullptr
    | some _ => pure (.inl { m with state := .path })

/-- `if (state == special_authority_slashes_state)`   (url.h:1912-1920) -/
def bSpecialAuthoritySlashes (a : Array Nat) (first last : Nat) (m : M) (dist : Nat := 1) : R (M ⊕ Bool) := do
  let t ← twoSlashesB a first last m.pointer dist    -- last - pointer > 1 && pointer[0] == '/' && pointer[1] == '/'
  if t then do
    let p ← mkptr first last (m.pointer + 2)         -- pointer += 2
    pure (.inl { m with state := .specialAuthorityIgnoreSlashes, pointer := p })
  else pure (.inl { m with state := .specialAuthorityIgnoreSlashes })

/-- `if (state == special_authority_ignore_slashes_state)`   (url.h:1922-1928) -/
def bSpecialAuthorityIgnoreSlashes (a : Array Nat) (first last : Nat) (fuel : Nat) (m : M) : R (M ⊕ Bool) := do
  -- while (it < last && detail::is_slash(*it)) ++it;
  let it ← iter (fun (it : Nat) =>
      if it < last then do
        let c ← rd a first last it                   -- *it   [it < last]
        if isSlash c then do
          let it' ← mkptr first last (it + 1)        -- ++it
          pure (.inl it')
        else pure (.inr it)
      else pure (.inr it)) fuel m.pointer
  pure (.inl { m with state := .authority, pointer := it })

/-- `end_of_authority = urls.is_special_scheme() ? std::find_if(pointer, last, is_special_authority_end_char)
      : std::find_if(pointer, last, is_authority_end_char)`   (url.h:1934-1936, 1974-1976) -/
def endOfAuthorityB (a : Array Nat) (first last pointer : Nat) (special : Bool) : R Nat := do
  sub first last pointer last
  findIf a first last (if special then isSpecialAuthorityEnd else isAuthorityEnd) (last - pointer) pointer

/-- `if (state == authority_state)`   (url.h:1932-1968) -/
def bAuthority (e : Enc) (a : Array Nat) (first last : Nat) (ui : UrlInfo) (m : M) : R (M ⊕ Bool) := do
  let eoa ← endOfAuthorityB a first last m.pointer m.special
  sub first last m.pointer eoa                       -- detail::find_last(pointer, end_of_authority, '@')
  let itEta ← findLastB a m.pointer eoa 0x40
  if itEta ≠ eoa then
    if eoa - itEta = 1 then pure (.inr false)        -- std::distance(it_eta, end_of_authority) == 1: host_missing
    else do
      if ui.needSave then do
        sub first last m.pointer itEta               -- std::find(pointer, it_eta, ':')
        let itColon ← (do
          match ← findCh a first last 0x3A (itEta - m.pointer) m.pointer with
          | some q => pure q
          | none => pure itEta : R Nat)
        let notEmptyPassword := decide (itEta - itColon > 1)       -- std::distance(it_colon, it_eta) > 1
        if notEmptyPassword ∨ itColon - m.pointer > 0 then do
          sub first last m.pointer itColon           -- append_utf8_percent_encoded(pointer, it_colon, …)
          appendUtf8PctB e a m.pointer itColon
          if notEmptyPassword then do
            let pw ← mkptr first last (itColon + 1)  -- it_colon + 1
            sub first last pw itEta                  -- append_utf8_percent_encoded(it_colon + 1, it_eta, …)
            appendUtf8PctB e a pw itEta
          else pure ()
        else pure ()
      else pure ()
      let p ← mkptr first last (itEta + 1)           -- pointer = it_eta + 1
      pure (.inl { m with state := .host, pointer := p })
  else pure (.inl { m with state := .host })

/-- `if (state == host_state || state == hostname_state)`   (url.h:1970-2029) -/
def bHost (a : Array Nat) (first last : Nat) (ov : Option Override) (ui : UrlInfo) (orc : Oracles) (fuel : Nat)
    (m : M) : R (M ⊕ Bool) :=
  if ov.isSome ∧ m.file = true then pure (.inl { m with state := .fileHost })
  else do
    let eoa ← endOfAuthorityB a first last m.pointer m.special
    -- for (; it_host_end < end_of_authority; ++it_host_end) { … }   result: (it_host_end, is_port)
    let (itHostEnd, isPort) ← iter (fun (s : Nat × Bool) =>
        if s.1 < eoa then do
          let ch ← rd a first last s.1               -- ch = *it_host_end   [it_host_end < end_of_authority]
          if ch = 0x3A ∧ s.2 = false then pure (.inr (s.1, true))      -- is_port = true; break;
          else do
            let inBr := if ch = 0x3A then s.2 else if ch = 0x5B then true else if ch = 0x5D then false else s.2
            let it' ← mkptr first last (s.1 + 1)     -- ++it_host_end
            pure (.inl (it', inBr))
        else pure (.inr (s.1, false))) fuel (m.pointer, false)
    if m.pointer = itHostEnd ∧ (isPort = true ∨ m.special = true) then pure (.inr false)     -- host_missing
    else if m.pointer = itHostEnd ∧ ov.isSome ∧ (ui.hasCredentials = true ∨ ui.portNull = false) then
      pure (.inr false)                              -- ignored
    else if isPort = true ∧ ov = some .hostname then pure (.inr false)                       -- ignored
    else do
      sub first last m.pointer itHostEnd             -- parse_host(urls, pointer, it_host_end)
      if !orc.hostOk (!m.special) m.pointer itHostEnd then pure (.inr false)
      else if isPort then do
        let p ← mkptr first last (itHostEnd + 1)     -- pointer = it_host_end + 1; // skip ':'
        pure (.inl { m with state := .port, pointer := p })
      else if ov.isSome then pure (.inr true)
      else pure (.inl { m with state := .pathStart, pointer := itHostEnd })

/-- `if (state == port_state)`   (url.h:2031-2076) -/
def bPort (a : Array Nat) (first last : Nat) (ov : Option Override) (ui : UrlInfo) (orc : Oracles) (fuel : Nat)
    (m : M) (slack : Nat := 0) : R (M ⊕ Bool) := do
  sub first last m.pointer last                      -- std::find_if_not(pointer, last, is_ascii_digit)
  let eod ← findIf a first last (fun c => !isDigit c) (last - m.pointer) m.pointer
  -- end_of_digits == last || is_authority_end_char(end_of_digits[0]) ||
  --   (end_of_digits[0] == '\\' && urls.is_special_scheme())
  let isEnd ← (
    if eod = last + slack then pure true             -- end_of_digits == last   (slack = 0)
    else do
      let c ← rd a first last eod                    -- end_of_digits[0]   [end_of_digits != last]
      if isAuthorityEnd c then pure true
      else do
        let c ← rd a first last eod                  -- end_of_digits[0]
        pure (c == 0x5C && m.special) : R Bool)
  if isEnd = true ∨ ov.isSome then do
    let bad ← (
      if m.pointer < eod then do
        let e1 ← mkptrSub first last eod 1           -- end_of_digits - 1
        sub first last m.pointer e1                  -- std::find_if(pointer, end_of_digits - 1, c != '0')
        let p ← findIf a first last (fun c => c != 0x30) (e1 - m.pointer) m.pointer
        if eod - p > 5 then pure true                -- std::distance(pointer, end_of_digits) > 5
        else do
          -- for (auto it = pointer; it < end_of_digits; ++it) port = port * 10 + (*it - '0');
          let port ← iter (fun (s : Nat × Nat) =>
              if s.1 < eod then do
                let c ← rd a first last s.1          -- *it   [it < end_of_digits]
                let it' ← mkptr first last (s.1 + 1) -- ++it
                pure (.inl (it', s.2 * 10 + (c - 0x30)))
              else pure (.inr s.2)) fuel (p, 0)
          if port > 0xFFFF then pure true
          else do
            if ui.needSave ∧ orc.isDefaultPort port = false then
              sub first last p eod                   -- util::append(…, str_arg<CharT>{ pointer, end_of_digits })
            else pure ()
            pure false
      else pure false : R Bool)
    if bad then pure (.inr false)                    -- port_out_of_range
    else if ov.isSome then pure (.inr true)
    else pure (.inl { m with state := .pathStart, pointer := eod })
  else pure (.inr false)                             -- port_invalid

/-- `if (state == file_state)`   (url.h:2078-2129) -/
def bFile (a : Array Nat) (first last : Nat) (base : Option BaseInfo) (m : M) (slack : Nat := 0) : R (M ⊕ Bool) := do
  let m : M := { m with special := true, file := true }    -- urls.set_scheme("file")
  let c ← peekOr0B a first last m.pointer slack      -- switch (pointer != last ? *pointer : 0)
  if c = 0x5C ∨ c = 0x2F then do
    let p ← mkptr first last (m.pointer + 1)         -- ++pointer
    pure (.inl { m with state := .fileSlash, pointer := p })
  else
    match base with
    | some b =>
      if b.file then
        if m.pointer = last then pure (.inr true)    -- if (pointer == last) return ok
        else do
          let c ← rd a first last m.pointer          -- switch (*pointer)   [pointer != last]
          if c = 0x3F then do
            let p ← mkptr first last (m.pointer + 1) -- ++pointer
            pure (.inl { m with state := .query, pointer := p })
          else if c = 0x23 then do
            let p ← mkptr first last (m.pointer + 1) -- ++pointer
            pure (.inl { m with state := .fragment, pointer := p })
          else do
            sub first last m.pointer last            -- detail::starts_with_windows_drive(pointer, last)
            let _ ← startsWithWindowsDrive a m.pointer last
            pure (.inl { m with state := .path })
      else pure (.inl { m with state := .path })
    | none => pure (.inl { m with state := .path })

/-- `if (state == file_slash_state)`   (url.h:2131-2164) -/
def bFileSlash (a : Array Nat) (first last : Nat) (base : Option BaseInfo) (ui : UrlInfo) (m : M) (slack : Nat := 0) :
    R (M ⊕ Bool) := do
  let c ← peekOr0B a first last m.pointer slack      -- switch (pointer != last ? *pointer : 0)
  if c = 0x5C ∨ c = 0x2F then do
    let p ← mkptr first last (m.pointer + 1)         -- ++pointer
    pure (.inl { m with state := .fileHost, pointer := p })
  else do
    -- if (base && base->is_file_scheme() && urls.need_save())
    if (match base with | some b => b.file | none => false) = true ∧ ui.needSave = true then do
      sub first last m.pointer last                  -- detail::starts_with_windows_drive(pointer, last)
      let _ ← startsWithWindowsDrive a m.pointer last
      pure ()
    else pure ()
    pure (.inl { m with state := .path })

/-- `if (state == file_host_state)`   (url.h:2166-2201) -/
def bFileHost (a : Array Nat) (first last : Nat) (ov : Option Override) (ui : UrlInfo) (orc : Oracles) (m : M) :
    R (M ⊕ Bool) := do
  sub first last m.pointer last                      -- std::find_if(pointer, last, is_special_authority_end_char)
  let eoa ← findIf a first last isSpecialAuthorityEnd (last - m.pointer) m.pointer
  if m.pointer = eoa then
    if ov.isSome then pure (.inr true) else pure (.inl { m with state := .pathStart })
  else do
    -- !state_override && end_of_authority - pointer == 2 && is_windows_drive(pointer[0], pointer[1])
    let wd ← (
      if ov.isNone ∧ eoa - m.pointer = 2 then do
        let c0 ← rd a first last m.pointer           -- pointer[0]   [end_of_authority - pointer == 2]
        let c1 ← rd a first last (m.pointer + 1)     -- pointer[1]
        pure (isWindowsDrive c0 c1)
      else pure false : R Bool)
    if wd then pure (.inl { m with state := .path })
    else do
      sub first last m.pointer eoa                   -- parse_host(urls, pointer, end_of_authority)
      let ok := orc.hostOk (!m.special) m.pointer eoa
      if !ok || !ui.needSave then pure (.inr ok)      -- if (res != ok || !urls.need_save()) return res;
      else if ov.isSome then pure (.inr true)
      else pure (.inl { m with state := .pathStart, pointer := eoa })

/-- `if (!urls.need_save()) return validation_errc::ok;`   (url.h:2203-2204) -/
def bNeedSave (ui : UrlInfo) (m : M) : R (M ⊕ Bool) :=
  if !ui.needSave then pure (.inr true) else pure (.inl m)

/-- `if (state == path_start_state)`   (url.h:2206-2249) -/
def bPathStart (a : Array Nat) (first last : Nat) (ov : Option Override) (m : M) : R (M ⊕ Bool) :=
  if m.special then
    if m.pointer ≠ last then do
      let c ← rd a first last m.pointer              -- switch (*pointer)   [pointer != last]
      if c = 0x5C ∨ c = 0x2F then do
        let p ← mkptr first last (m.pointer + 1)     -- ++pointer
        pure (.inl { m with state := .path, pointer := p })
      else pure (.inl { m with state := .path })
    else pure (.inl { m with state := .path })
  else if m.pointer ≠ last then
    if ov.isNone then do
      let c ← rd a first last m.pointer              -- switch (pointer[0])   [pointer != last]
      if c = 0x3F then do
        let p ← mkptr first last (m.pointer + 1)     -- ++pointer
        pure (.inl { m with state := .query, pointer := p })
      else if c = 0x23 then do
        let p ← mkptr first last (m.pointer + 1)     -- ++pointer
        pure (.inl { m with state := .fragment, pointer := p })
      else if c = 0x2F then do
        let p ← mkptr first last (m.pointer + 1)     -- ++pointer
        pure (.inl { m with state := .path, pointer := p })
      else pure (.inl { m with state := .path })
    else do
      let c ← rd a first last m.pointer              -- if (pointer[0] == '/') ++pointer;   [pointer != last]
      if c = 0x2F then do
        let p ← mkptr first last (m.pointer + 1)
        pure (.inl { m with state := .path, pointer := p })
      else pure (.inl { m with state := .path })
  else pure (.inr true)                              -- EOF: commit_path, return ok

/-- `ch = *pointer++; state = ch == '?' ? query_state : fragment_state` after a path
    (url.h:2261-2272, 2286-2297) -/
def afterPathB (a : Array Nat) (first last : Nat) (m : M) (eop : Nat) : R (M ⊕ Bool) :=
  if eop = last then pure (.inr true)                -- if (pointer == last) return ok
  else do
    let ch ← rd a first last eop                     -- ch = *pointer++   [pointer != last]
    let p ← mkptr first last (eop + 1)
    pure (.inl { m with state := if ch = 0x3F then .query else .fragment, pointer := p })

/-- `std::find_if(pointer, last, [](CharT c) { return c == '?' || c == '#'; })` -/
def endOfPathB (a : Array Nat) (first last pointer : Nat) : R Nat := do
  sub first last pointer last
  findIf a first last isQorH (last - pointer) pointer

/-- `if (state == path_state)`   (url.h:2251-2273) -/
def bPath (e : Enc) (a : Array Nat) (first last : Nat) (ov : Option Override) (orc : Oracles) (m : M) :
    R (M ⊕ Bool) := do
  let eop ← (if ov.isSome then pure last else endOfPathB a first last m.pointer : R Nat)
  sub first last m.pointer eop                       -- parse_path(urls, pointer, end_of_path)
  parsePathB e a m.pointer eop m.special m.file orc.emptyPath
  afterPathB a first last m eop                      -- pointer = end_of_path; …

/-- `if (state == opaque_path_state)`   (url.h:2275-2298) -/
def bOpaquePath (e : Enc) (a : Array Nat) (first last : Nat) (m : M) : R (M ⊕ Bool) := do
  let eop ← endOfPathB a first last m.pointer
  sub first last m.pointer eop                       -- do_simple_path(pointer, end_of_path, str_path)
  doSimplePathB e a m.pointer eop
  afterPathB a first last m eop                      -- pointer = end_of_path; …

/-- `if (state == query_state)`   (url.h:2300-2358) -/
def bQuery (e : Enc) (a : Array Nat) (first last : Nat) (ov : Option Override) (fuel : Nat) (m : M) :
    R (M ⊕ Bool) := do
  -- end_of_query = state_override ? last : std::find(pointer, last, '#')
  let eoq ← (
    if ov.isSome then pure last
    else do
      sub first last m.pointer last
      match ← findCh a first last 0x23 (last - m.pointer) m.pointer with
      | some q => pure q
      | none => pure last : R Nat)
  -- while (pointer != end_of_query) { … }
  let _ ← encLoopB e a first last 0x80 true eoq fuel m.pointer
  if eoq = last then pure (.inr true)                -- pointer = end_of_query; if (pointer == last) return ok
  else do
    let p ← mkptr first last (eoq + 1)               -- ++pointer; // skip '#'
    pure (.inl { m with state := .fragment, pointer := p })

/-- `if (state == fragment_state)`   (url.h:2360-2386) -/
def bFragment (e : Enc) (a : Array Nat) (first last : Nat) (fuel : Nat) (m : M) : R (M ⊕ Bool) := do
  -- while (pointer < last) { … }
  let p ← encLoopB e a first last 0x80 false last fuel m.pointer
  pure (.inl { m with pointer := p })

/-- `if (state == X) { block }` followed by the rest `k` of the function -/
def stepB (c : St → Bool) (blk : M → R (M ⊕ Bool)) (k : M → R Bool) (m : M) : R Bool :=
  if c m.state then do
    match ← blk m with
    | .inl m' => k m'
    | .inr v => pure v
  else k m

/-- url_parser::url_parse(urls, first, last, base, state_override)   (url.h:1699-2389, i.e. from
    `auto pointer = first;` on: `[first, last)` is the buffer after do_remove_whitespace).
    `true` = `validation_errc::ok`.
    Guards that are optional arguments (defaults = the C++):
    * `sraDist = 1`  : `last - pointer > 1` in special_relative_or_authority_state (url.h:1825)
    * `sasDist = 1`  : `last - pointer > 1` in special_authority_slashes_state (url.h:1913)
    * `poaSlack = 0` : `pointer < last` in path_or_authority_state (url.h:1835)
    * `fileSlack = 0`: `pointer != last ? *pointer : 0` in file_state / file_slash_state (url.h:2084, 2133)
    * `portSlack = 0`: `end_of_digits == last ||` in port_state (url.h:2035) -/
def urlParseB (e : Enc) (a : Array Nat) (first last : Nat) (ov : Option Override) (base : Option BaseInfo)
    (ui : UrlInfo) (orc : Oracles) (fuel : Nat := last - first + 1)
    (sraDist : Nat := 1) (sasDist : Nat := 1) (poaSlack : Nat := 0) (fileSlack : Nat := 0) (portSlack : Nat := 0) :
    R Bool :=
  (stepB (· == .schemeStart) (bSchemeStart a first last ov) <|
   stepB (· == .scheme) (bScheme a first last ov base ui fuel) <|
   stepB (· == .noScheme) (bNoScheme a first last base) <|
   stepB (· == .specialRelativeOrAuthority) (fun m => bSpecialRelativeOrAuthority a first last m sraDist) <|
   stepB (· == .pathOrAuthority) (fun m => bPathOrAuthority a first last m poaSlack) <|
   stepB (· == .relative) (bRelative a first last base) <|
   stepB (· == .relativeSlash) (bRelativeSlash a first last base) <|
   stepB (· == .specialAuthoritySlashes) (fun m => bSpecialAuthoritySlashes a first last m sasDist) <|
   stepB (· == .specialAuthorityIgnoreSlashes) (bSpecialAuthorityIgnoreSlashes a first last fuel) <|
   stepB (· == .authority) (bAuthority e a first last ui) <|
   stepB (fun s => s == .host || s == .hostname) (bHost a first last ov ui orc fuel) <|
   stepB (· == .port) (fun m => bPort a first last ov ui orc fuel m portSlack) <|
   stepB (· == .file) (fun m => bFile a first last base m fileSlack) <|
   stepB (· == .fileSlash) (fun m => bFileSlash a first last base ui m fileSlack) <|
   stepB (· == .fileHost) (bFileHost a first last ov ui orc) <|
   stepB (fun _ => true) (bNeedSave ui) <|
   stepB (· == .pathStart) (bPathStart a first last ov) <|
   stepB (· == .path) (bPath e a first last ov orc) <|
   stepB (· == .opaquePath) (bOpaquePath e a first last) <|
   stepB (· == .query) (bQuery e a first last ov fuel) <|
   stepB (· == .fragment) (bFragment e a first last fuel) <|
   fun _ => pure true)
  ⟨St.ofOverride ov, first, ui.special, ui.file⟩

/-- url_parse from its first line: do_remove_whitespace, then (if whitespace was removed) the states run
    on the new buffer `buff_no_ws`.  (The copy `buff_no_ws.append(first, last)` of a setter input that
    aliases the URL reads exactly `[first, last)`.) -/
def urlParseWsB (e : Enc) (a : Array Nat) (first last : Nat) (ov : Option Override) (base : Option BaseInfo)
    (ui : UrlInfo) (orc : Array Nat → Oracles) : R Bool := do
  match ← doRemoveWhitespaceB a first last with
  | none => urlParseB e a first last ov base ui (orc a)
  | some buff => urlParseB e buff.toArray 0 buff.length ov base ui (orc buff.toArray)

/-! ## executable cross-check against the list model `Impl.urlParse` -/

def UP.BaseInfo.ofUrl (b : Url) : BaseInfo :=
  ⟨b.isSpecial, b.isFile, b.hasOpaquePath, fun s => s == b.scheme⟩

def UP.UrlInfo.ofUrl (u : Url) : UrlInfo :=
  { special := u.isSpecial, file := u.isFile, hasCredentials := u.hasCredentials, portNull := u.port.isNone,
    hostEmpty := u.hostText == [], hostNull := u.host.isNone, needSave := true }

/-- the REAL host parser verdict on the slice (list model `Impl.parseHost`); `emptyPath` and
    `isDefaultPort` do not influence the verdict -/
def UP.Oracles.real (idna : Idna) (e : Enc) (a : Array Nat) : Oracles :=
  ⟨fun opq p q => (parseHost idna (decode e (a.extract p q).toList) opq).isSome, fun _ => false, fun _ => false⟩

/-- runs the instrumented model (whitespace removal + states) on the code units `units` with the real
    host parser verdict plugged in: `some v` = ran to `.ok v`, `none` = one of the failure outcomes.
    To be compared with `(Impl.urlParse idna base ov u (prep e units)).out == .ok`. -/
def urlParseVerdictB (idna : Idna) (e : Enc) (units : List Nat) (base : Option Url) (ov : Option Override)
    (u : Url) : Option Bool :=
  let a := units.toArray
  match urlParseWsB e a 0 a.size ov (base.map BaseInfo.ofUrl) (UrlInfo.ofUrl u) (Oracles.real idna e) with
  | .ok v => some v
  | _ => none

end Upa.Impl.B
