import Upa.Basic
import Upa.Spec.Sets
/-
  Code-shaped model of include/upa/url_ip.h and src/url_ip.cpp.
  Pointers are modelled as the remaining suffix of the input; fixed-width accumulators carry an
  explicit `% 2^64`; fixed arrays are lists of the same length.
-/
namespace Upa.Impl

/-- hostname_ends_in_a_number (url_ip.h:24-48) -/
def endsInNumber (s : List Nat) : Bool :=
  if s = [] then false
  else
    -- if (*(last - 1) == '.') --last;
    let s := if s.getLast? = some 0x2E then s.dropLast else s
    -- start_of_label: scan back to the previous '.'
    let label := (s.reverse.takeWhile (· != 0x2E)).reverse
    if label.length = 0 then false
    else
      match label with
      | 0x30 :: x :: rest =>
        if x = 0x58 ∨ x = 0x78 then rest.all isHex
        else label.all isDigit
      | _ => label.all isDigit

def skipZeros : List Nat → List Nat
  | 0x30 :: cs => skipZeros cs
  | cs => cs

/-- the two accumulation loops of ipv4_parse_number; `num` is a uint64_t -/
def accumulate (radix : Nat) : List Nat → Nat → Option Nat
  | [], num => some num
  | ch :: cs, num =>
    if radix ≤ 10 then
      if ch > 0x30 - 1 + radix ∨ ch < 0x30 then none
      else accumulate radix cs ((num * radix + (ch - 0x30)) % 2^64)
    else
      if !isHex ch then none
      else accumulate radix cs ((num * radix + hexVal ch) % 2^64)

/-- ipv4_parse_number (url_ip.h:57-125): none = error, some n with n < 2^32 -/
def ipv4ParseNumber (inp : List Nat) : Option Nat :=
  match inp with
  | [] => none
  | 0x30 :: [] => some 0
  | 0x30 :: c1 :: rest =>
    let (radix, body) := if c1 = 0x58 ∨ c1 = 0x78 then (16, rest) else (8, c1 :: rest)
    let body := skipZeros body
    if body = [] then some 0
    else if body.length > 11 then none
    else match accumulate radix body 0 with
      | some v => if v > 0xFFFFFFFF then none else some v
      | none => none
  | cs =>
    if cs.length > 11 then none
    else match accumulate 10 cs 0 with
      | some v => if v > 0xFFFFFFFF then none else some v
      | none => none

/-- the scanning loop of ipv4_parse: splits into at most 5 parts (dot_count ≤ 4); fails on an empty
    part that is followed by a dot and on a character outside the IPv4 class.
    `cur` is the current part (reversed), `parts` the finished ones (reversed), returns parts incl. last. -/
def ipv4Scan : List Nat → List Nat → List (List Nat) → Option (List (List Nat))
  | [], cur, parts => some ((cur.reverse :: parts).reverse)
  | c :: cs, cur, parts =>
    if c = 0x2E then
      if parts.length = 4 then none                 -- dot_count == 4
      else if cur = [] then none                    -- part[dot_count] == it
      else ipv4Scan cs [] (cur.reverse :: parts)
    else if !Spec.ipv4Char c then none
    else ipv4Scan cs (c :: cur) parts

/-- ipv4_parse (url_ip.h:134-209): none = error, some address -/
def ipv4Parse (s : List Nat) : Option Nat :=
  if s = [] then none
  else match ipv4Scan s [] [] with
    | none => none
    | some parts =>
      -- part_count = dot_count + 1; a trailing empty part (after at least one dot) is dropped
      let parts := if parts.length > 1 ∧ parts.getLast? = some [] then parts.dropLast else parts
      if parts.length > 4 then none
      else match parts.mapM ipv4ParseNumber with
        | none => none
        | some number =>
          let partCount := number.length
          if (number.take (partCount - 1)).any (fun n => decide (n > 255)) then none
          else
            let ipv4 := number.getD (partCount - 1) 0
            if ipv4 > (0xFFFFFFFF >>> (8 * (partCount - 1))) then none
            else
              let rec add : List Nat → Nat → Nat → Nat
                | [], _, acc => acc
                | n :: ns, counter, acc => add ns (counter + 1) ((acc + (n <<< (8 * (3 - counter)))) % 2^32)
              some (add (number.take (partCount - 1)) 0 ipv4)

/-- util::unsigned_to_str: count digits with the divider loop, then fill from the end -/
def digitCountLoop (base num0 : Nat) : Nat → Nat → Nat → Nat
  | 0, _, count => count
  | fuel+1, divider, count =>
    if divider ≤ num0 then digitCountLoop base num0 fuel (divider * base) (count + 1) else count

def fillDigits (base : Nat) (digit : Nat → Nat) : Nat → Nat → List Nat → List Nat
  | 0, _, acc => acc
  | count+1, num, acc => fillDigits base digit count (num / base) (digit (num % base) :: acc)

def unsignedToStr (base : Nat) (digit : Nat → Nat) (num : Nat) : List Nat :=
  let count := digitCountLoop base (num / base) (num + 1) 1 1
  fillDigits base digit count num []

/-- ipv4_serialize (src/url_ip.cpp:14-20) -/
def ipv4Serialize (ipv4 : Nat) : List Nat :=
  let dec := unsignedToStr 10 (fun d => 0x30 + d)
  dec ((ipv4 >>> 24) &&& 0xFF) ++ [0x2E] ++ dec ((ipv4 >>> 16) &&& 0xFF) ++ [0x2E] ++
  dec ((ipv4 >>> 8) &&& 0xFF) ++ [0x2E] ++ dec (ipv4 &&& 0xFF)

/-! ### ipv6_parse (url_ip.h:241-384) -/

/-- detail::get_hex_number over at most `max` characters: (value, digits consumed, rest) -/
def getHexNumber : Nat → List Nat → Nat → Nat → Nat × Nat × List Nat
  | 0, p, v, n => (v, n, p)
  | _, [], v, n => (v, n, [])
  | max+1, c :: r, v, n => if isHex c then getHexNumber max r (v * 0x10 + hexVal c) (n + 1) else (v, n, c :: r)

structure V6St where
  address : List Nat := [0,0,0,0,0,0,0,0]
  pieceIndex : Nat := 0
  compress : Nat := 0      -- 0 = null

/-- main `while (pointer < last)` loop. Result: none = error; some (st, v4) where v4 = some p when the
    loop was left with `is_ipv4` and `pointer = p` (start of the dotted part). -/
def v6MainLoop : Nat → List Nat → V6St → Option (V6St × Option (List Nat))
  | 0, _, _ => none
  | _, [], st => some (st, none)
  | fuel+1, c :: r, st =>
    if st.pieceIndex = 8 then none
    else if c = 0x3A then
      if st.compress ≠ 0 then none
      else v6MainLoop fuel r { st with pieceIndex := st.pieceIndex + 1, compress := st.pieceIndex + 1 }
    else
      let pointer0 := c :: r
      let (value, n, p) := getHexNumber 4 pointer0 0 0
      match p with
      | [] => v6MainLoop fuel [] { st with address := st.address.set st.pieceIndex value, pieceIndex := st.pieceIndex + 1 }
      | ch :: p1 =>
        if ch = 0x2E then
          if n = 0 then none else some (st, some pointer0)
        else if ch = 0x3A then
          if p1 = [] then none
          else v6MainLoop fuel p1 { st with address := st.address.set st.pieceIndex value, pieceIndex := st.pieceIndex + 1 }
        else none

/-- inner digit loop of the IPv4 tail: (piece, rest) or none on leading zero / > 255 -/
def v6Digits : List Nat → Nat → Option (Nat × List Nat)
  | [], piece => some (piece, [])
  | d :: r, piece =>
    if isDigit d then
      if piece = 0 then none
      else
        let piece := piece * 10 + (d - 0x30)
        if piece > 255 then none else v6Digits r piece
    else some (piece, d :: r)

/-- the `if (is_ipv4)` block's while loop -/
def v6V4Loop : Nat → List Nat → Nat → V6St → Option V6St
  | 0, _, _, _ => none
  | _, [], numbersSeen, st => if numbersSeen ≠ 4 then none else some st
  | fuel+1, c :: r, numbersSeen, st =>
    let p? : Option (List Nat) :=
      if numbersSeen > 0 then (if c = 0x2E ∧ numbersSeen < 4 then some r else none) else some (c :: r)
    match p? with
    | none => none
    | some [] => none
    | some (d :: r) =>
      if !isDigit d then none
      else match v6Digits r (d - 0x30) with
        | none => none
        | some (piece, rest) =>
          let st := { st with address := st.address.set st.pieceIndex ((st.address.getD st.pieceIndex 0 * 0x100 + piece) % 65536) }
          let numbersSeen := numbersSeen + 1
          let st := if numbersSeen % 2 = 0 then { st with pieceIndex := st.pieceIndex + 1 } else st
          v6V4Loop fuel rest numbersSeen st

/-- final shift `for (ind = piece_index - 1; ind >= compress; --ind)` -/
def v6Shift (diff compress : Nat) : Nat → List Nat → List Nat
  | 0, a => a
  | k+1, a =>
    -- ind = compress + k
    let ind := compress + k
    v6Shift diff compress k ((a.set (ind + diff) (a.getD ind 0)).set ind 0)

def ipv6Parse (s : List Nat) : Option (List Nat) :=
  if s.length < 2 then none
  else
    let start : Option (List Nat × V6St) :=
      match s with
      | 0x3A :: c1 :: r => if c1 ≠ 0x3A then none else some (r, { pieceIndex := 1, compress := 1 })
      | _ => some (s, {})
    match start with
    | none => none
    | some (p, st) =>
      match v6MainLoop (s.length + 1) p st with
      | none => none
      | some (st, v4) =>
        let st? : Option V6St :=
          match v4 with
          | none => some st
          | some p => if st.pieceIndex > 6 then none else v6V4Loop (s.length + 1) p 0 st
        match st? with
        | none => none
        | some st =>
          if st.compress ≠ 0 then
            let diff := 8 - st.pieceIndex
            if diff ≠ 0 then some (v6Shift diff st.compress (st.pieceIndex - st.compress) st.address)
            else some st.address
          else if st.pieceIndex ≠ 8 then none
          else some st.address

/-! ### ipv6_serialize (src/url_ip.cpp:27-71) -/

def countZeros : List Nat → Nat
  | 0 :: r => countZeros r + 1
  | _ => 0

/-- longest_zero_sequence: returns (last_count, compress index). Index is meaningful when count > 0.
    `skip` > 0 means the C++ iterator is still inside/after a run that was already counted. -/
def longestZeroSeq : List Nat → Nat → Nat → Nat → Nat → Nat × Nat
  | [], _, _, lastCount, compress => (lastCount, compress)
  | a :: r, i, skip, lastCount, compress =>
    if skip > 0 then longestZeroSeq r (i + 1) (skip - 1) lastCount compress
    else if a = 0 then
      let count := countZeros (a :: r)
      let (lastCount, compress) := if lastCount < count then (count, i) else (lastCount, compress)
      -- it = ite; ++it  : skip the rest of the run and the following non-zero piece
      longestZeroSeq r (i + 1) count lastCount compress
    else longestZeroSeq r (i + 1) 0 lastCount compress

def ipv6SerLoop (compress : Option Nat) (compressLen : Nat) : Nat → List Nat → Nat → List Nat
  | 0, _, _ => []
  | _, [], _ => []
  | fuel+1, a :: r, i =>
    if compress = some i then
      let out := if i = 0 then [0x3A, 0x3A] else [0x3A]
      match (a :: r).drop compressLen with
      | [] => out
      | b :: r' =>
        out ++ unsignedToStr 16 hexDigitLower b ++
          (if r' = [] then [] else 0x3A :: ipv6SerLoop compress compressLen fuel r' (i + compressLen + 1))
    else
      unsignedToStr 16 hexDigitLower a ++
        (if r = [] then [] else 0x3A :: ipv6SerLoop compress compressLen fuel r (i + 1))

def ipv6Serialize (address : List Nat) : List Nat :=
  let (len, idx) := longestZeroSeq address 0 0 0 0
  let compress : Option Nat := if len = 0 ∨ len = 1 then none else some idx
  ipv6SerLoop compress len (address.length + 1) address 0

end Upa.Impl
