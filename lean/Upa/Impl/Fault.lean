/-
  Fault-injection model for C20: an operation on a `url` object is a list of primitive steps in
  C++ program order.  A step is tagged `mayThrow` when it can allocate (string growth, buffer growth,
  list node, `url_search_params` construction) and has an effect either on temporaries/locals only
  (`mutTemp`) or on the target object / its search params (`mutTarget`).  The environment picks at
  most one may-throw step whose allocation fails (`failAt` = index among the may-throw steps that get
  executed); independently a step's size computation may exceed `max_size()` (`tooLong`).

  include/upa/url.h:
    url::href (1450-1460):        url u; if (u.do_parse(..) == ok) { safe_assign(std::move(u)); return true; } return false;
    url::safe_assign (1095-1110): if (search_params_ptr_) {
                                    if (other.search_params_ptr_) { move_record(other); move_params(*other.search_params_ptr_) }
                                    else { url_search_params params(&other); move_record(other); move_params(params) } }
                                  else move_record(other);
    url::move_record (1112-1121): string move-assignment + POD copies + other.reset_record()   (UPA_NOEXCEPT_17)
    url_search_params::move_params (511-514): list move-assignment + bool copy              (UPA_NOEXCEPT_17)
  The `mayThrow := false` tags of `moveRecord`/`moveParams*` are the C++ facts the model takes as given.
  A throwing `mutTemp` step may leave the temporaries half-built; the model leaves them as before the
  step, which is immaterial because nothing below depends on the temporaries after a throw.
-/
namespace Upa.Impl.Fault

/-- the only exceptions the library's own operations can raise -/
inductive Exn where
  | badAlloc | lengthError
  deriving DecidableEq, Repr

structure St (α β : Type) where
  target : α     -- `*this` including its `url_search_params`
  temp   : β     -- locals and temporaries of the operation
  deriving DecidableEq, Repr

inductive Effect (α β : Type) where
  | mutTemp (f : St α β → β)            -- may read anything, writes temporaries only
  | mutTarget (g : St α β → St α β)     -- writes the target (and may reset moved-from temporaries)

def Effect.isMutTarget {α β : Type} : Effect α β → Bool
  | .mutTemp _ => false
  | .mutTarget _ => true

def Effect.apply {α β : Type} : Effect α β → St α β → St α β
  | .mutTemp f, s => { s with temp := f s }
  | .mutTarget g, s => g s

structure Step (α β : Type) where
  mayThrow : Bool
  /-- size check made by a may-throw step before allocating: `std::length_error` -/
  tooLong  : St α β → Bool := fun _ => false
  eff      : Effect α β

inductive Outcome (α β : Type) where
  | done (s : St α β)
  | threw (e : Exn) (s : St α β)     -- the state as it is when the exception leaves the operation
  deriving DecidableEq, Repr

/-- run the steps in order; `failAt = some k`: the `k`-th executed may-throw step fails to allocate -/
def runOp {α β : Type} : List (Step α β) → Option Nat → St α β → Outcome α β
  | [], _, s => .done s
  | st :: r, failAt, s =>
    if st.mayThrow then
      if st.tooLong s then .threw .lengthError s
      else match failAt with
        | some 0 => .threw .badAlloc s
        | some (k + 1) => runOp r (some k) (st.eff.apply s)
        | none => runOp r none (st.eff.apply s)
    else runOp r failAt (st.eff.apply s)

/-- every may-throw step precedes every target-modifying step, and no step is both -/
def Shape {α β : Type} (steps : List (Step α β)) : Prop :=
  (∀ st ∈ steps, st.eff.isMutTarget = true → st.mayThrow = false) ∧
  steps.Pairwise (fun a b => a.eff.isMutTarget = true → b.mayThrow = false)

instance {α β : Type} (steps : List (Step α β)) : Decidable (Shape steps) := by
  unfold Shape; exact inferInstance

/-! ### the two operations -/

/-- a url object: its record (`norm_url_` and the POD fields, abstracted to the serialisation) and
    the contents of its `url_search_params` object if it has one -/
structure UrlObj where
  record : List Nat
  params : Option (List Nat)
  deriving DecidableEq, Repr

/-- locals: `url u` of `href` = `other` of `safe_assign`; `url_search_params params(&other)` -/
structure Temps where
  u      : UrlObj
  params : List Nat := []
  deriving DecidableEq, Repr

/-- stand-in for parsing the query of a record into a parameter list: what follows the first `?` -/
def paramsOf (record : List Nat) : List Nat := (record.dropWhile (· != 63)).drop 1

abbrev UStep := Step UrlObj Temps

/-- one unit of the parser's output appended to `u.norm_url_` (string growth) -/
def parseStep (maxSize c : Nat) : UStep :=
  { mayThrow := true, tooLong := fun s => decide (maxSize ≤ s.temp.u.record.length),
    eff := .mutTemp fun s => { s.temp with u := { s.temp.u with record := s.temp.u.record ++ [c] } } }

def buildParams : UStep :=
  { mayThrow := true, eff := .mutTemp fun s => { s.temp with params := paramsOf s.temp.u.record } }

def moveRecord : UStep :=
  { mayThrow := false, eff := .mutTarget fun s =>
      { target := { s.target with record := s.temp.u.record },
        temp := { s.temp with u := { s.temp.u with record := [] } } } }

def moveParamsLocal : UStep :=
  { mayThrow := false, eff := .mutTarget fun s =>
      { target := { s.target with params := some s.temp.params }, temp := { s.temp with params := [] } } }

def moveParamsOther : UStep :=
  { mayThrow := false, eff := .mutTarget fun s =>
      { target := { s.target with params := some (s.temp.u.params.getD []) },
        temp := { s.temp with u := { s.temp.u with params := some [] } } } }

/-- `url::safe_assign`, by which of the two objects has a `url_search_params` -/
def safeAssignSteps (thisHasParams otherHasParams : Bool) : List UStep :=
  match thisHasParams, otherHasParams with
  | true, true => [moveRecord, moveParamsOther]
  | true, false => [buildParams, moveRecord, moveParamsLocal]
  | false, _ => [moveRecord]

/-- `url::href`: parse into the fresh temporary `u` (one growth step per output unit; `valid` = the
    parser returned ok), then `safe_assign(std::move(u))`; `u` is fresh, so it has no params object -/
def hrefSteps (maxSize : Nat) (thisHasParams : Bool) (output : List Nat) (valid : Bool) : List UStep :=
  output.map (parseStep maxSize) ++ (if valid then safeAssignSteps thisHasParams false else [])

/-- a hypothetical `safe_assign` that moves the record before building the params -/
def badSafeAssignSteps : List UStep := [moveRecord, buildParams, moveParamsLocal]

end Upa.Impl.Fault
