import Upa.Impl.Api
/-
  Model of url_from_file_path / path_from_file_url and their scanners
  (include/upa/url.h:1038-1056, 3010-3307).
-/
namespace Upa.Impl

inductive PathFormat where
  | posix | windows
  deriving DecidableEq, Repr

def isWindowsSlash (c : Nat) : Bool := c == 0x5C || c == 0x2F

/-- detail::has_dot_dot_segment: scan for '.', test "..", skip two -/
def hasDotDotSegment (isSl : Nat → Bool) : Option Nat → List Nat → Bool
  | _, [] => false
  | _, [_] => false
  | prev, c :: r@(d :: r2) =>
    if c = 0x2E then
      if d = 0x2E && (match prev with | none => true | some p => isSl p) &&
         (match r2 with | [] => true | x :: _ => isSl x) then true
      else hasDotDotSegment isSl (some d) r2
    else hasDotDotSegment isSl (some c) r

/-- detail::is_unc_path: some (suffix after the share name) or none.
    `n` = number of components seen so far, `share` = end_of_share_name once known. -/
def isUncPathAux : Nat → List Nat → Nat → Option (List Nat) → Option (List Nat)
  | 0, _, _, _ => none
  | _, [], _, share => share
  | fuel+1, s, n, share =>
    let comp := s.takeWhile (fun c => !isWindowsSlash c)
    let rest := s.dropWhile (fun c => !isWindowsSlash c)
    if comp = [] then none
    else if comp.any (· == 0) then none
    else
      let n := n + 1
      let bad :=
        if n = 1 then
          (match comp with
           | [a] => a == 0x3F || a == 0x2E
           | [a, b] => isWindowsDrive a b
           | _ => false)
        else if n = 2 then
          (match comp with
           | [a] => a == 0x2E
           | [a, b] => a == 0x2E && b == 0x2E
           | _ => false)
        else false
      if bad then none
      else
        let share := if n = 2 then some rest else share
        match rest with
        | [] => share
        | _ :: r => isUncPathAux fuel r n share

def isUncPath (s : List Nat) : Option (List Nat) := isUncPathAux (s.length + 1) s 0 none

/-- detail::is_windows_drive_absolute_path -/
def isWindowsDriveAbsolutePath : List Nat → Option (List Nat)
  | a :: b :: c :: r => if isWindowsDrive a b && isWindowsSlash c then some r else none
  | _ => none

/-- detail::pathname_has_windows_drive on a (decoded) pathname -/
def pathnameHasWindowsDrive : List Nat → Bool
  | [s, a, b] => isWindowsSlash s && isNormalizedWindowsDrive a b
  | s :: a :: b :: c :: _ => isWindowsSlash c && isWindowsSlash s && isNormalizedWindowsDrive a b
  | _ => false

def sFilePrefix := asciiStr "file://"

/-- the final check of url_from_file_path: a URL whose hostname is "." is not returned
    (`file_url.hostname() == "."` → file_unsupported_path) -/
def rejectDotHost (o : Option Url) : Option Url :=
  o.bind (fun u => if u.hostText = [0x2E] then none else some u)

/-- upa::url_from_file_path on decoded input; none = url_error -/
def urlFromFilePath (idna : Idna) (s : List Nat) (fmt : PathFormat) : Option Url :=
  match s with
  | [] => none
  | c0 :: _ =>
    match fmt with
    | .posix =>
      if c0 ≠ 0x2F then none
      else if hasDotDotSegment (· == 0x2F) none s then none
      else if s.any (· == 0) then none
      else rejectDotHost (parse idna .u8 (sFilePrefix ++ percentEncode posixPathNoEnc s) none)
    | .windows =>
      let (pointer, isUnc) : List Nat × Bool :=
        match s with
        | a :: b :: r =>
          if isWindowsSlash a && isWindowsSlash b then
            match r with
            | x :: y :: r2 =>
              if (x == 0x3F || x == 0x2E) && isWindowsSlash y then
                match r2 with
                | u :: n :: c :: sl :: r3 =>
                  if (u ||| 0x20) == 0x75 && (n ||| 0x20) == 0x6E && (c ||| 0x20) == 0x63 && isWindowsSlash sl
                  then (r3, true) else (r2, false)
                | _ => (r2, false)
              else (r, true)
            | _ => (r, true)
          else (s, false)
        | _ => (s, false)
      let startOfCheck := if isUnc then isUncPath pointer else isWindowsDriveAbsolutePath pointer
      match startOfCheck with
      | none => none
      | some chk =>
        if hasDotDotSegment isWindowsSlash none chk then none
        else if chk.any (· == 0) then none
        else
          rejectDotHost
            (parse idna .u8 (sFilePrefix ++ (if isUnc then [] else [0x2F]) ++ percentEncode rawPathNoEnc pointer) none)

/-- upa::path_from_file_url; none = url_error; result is a UTF-8 byte string -/
def pathFromFileUrl (u : Url) (fmt : PathFormat) : Option (List Nat) :=
  if !u.isFile then none
  else
    let hostname := u.hostText
    let isHost := hostname ≠ []
    let r : Option (List Nat) :=
      match fmt with
      | .posix => if isHost then none else some (percentDecode (pathText u))
      | .windows =>
        if isHost && hostname == [0x2E] then none
        else
          let pre := if isHost then [0x5C, 0x5C] ++ hostname else []
          let body := (percentDecode (pathText u)).map (fun c => if c = 0x2F then 0x5C else c)
          let path := pre ++ body
          if isHost then
            if (isUncPath (path.drop 2)).isNone then none else some path
          else if pathnameHasWindowsDrive path then
            let p := path.drop 1
            some (if p.length = 2 then p ++ [0x5C] else p)
          else
            let lead := ((path.take 4).takeWhile (· == 0x5C)).length
            let path? := if lead = 3 then some (path.drop 1) else if lead ≠ 2 then none else some path
            match path? with
            | none => none
            | some path => if (isUncPath (path.drop 2)).isNone then none else some path
    match r with
    | none => none
    | some path => if path.any (· == 0) then none else some path

end Upa.Impl
