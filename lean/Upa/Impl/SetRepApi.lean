import Upa.Impl.SetRep
/-
  The WHOLE setters of `upa::url` as the C++ executes them on the stored representation
  (`Impl.Rep`: one normalised string + 11 part end offsets + flags + segment count + scheme index):
  the guards of `url::protocol/username/password/host/hostname/port/pathname/search/hash`
  (include/upa/url.h:1466-1605), then the state blocks of `url_parser::url_parse`
  (url.h:1614-2324) that run under a state override, every write going through the in-place edit
  operations of `detail::url_setter` modelled in `Impl/SetRep.lean`.

  Every DECISION the C++ takes by reading the url object (`is_special_scheme`, `is_file_scheme`,
  `is_null(HOST)`, `has_credentials`, `is_null(PORT)`, `port_int`, `is_empty(HOST)`,
  `has_opaque_path`, `get_part_view(HOST) == "localhost"` …) is taken from a getter of the
  representation `r`, never from a record.  Pure input processing (tab/newline removal, decoding of
  the input encoding, percent-encoding, scanning, the host parser) reuses the functions of
  `Impl/Url.lean`, `Impl/Api.lean`, `Impl/Host.lean`, `Impl/Percent.lean`.

  `Rep.toRecord` reads the record a representation stands for off its parts.

  `Props/C05d.lean` proves that `setRep` on a representation of a record `u` yields a representation
  of `(setValid … u).1` and returns `(setValid … u).2`.
-/
namespace Upa.Impl

/-! ### the getters of the url object the parser consults -/

/-- url::is_special_scheme (url.h:1305-1307): `scheme_inf_ && scheme_inf_->is_special`; every entry
    of url::kSchemes (src/url.cpp:48-56) has `is_special = 1` -/
def Rep.isSpecialScheme (r : Rep) : Bool := r.schemeIdx.isSome

/-- url::is_file_scheme (url.h:1309-1311): `scheme_inf_ && scheme_inf_->is_file`; kSchemes[4] = "file" -/
def Rep.isFileScheme (r : Rep) : Bool := r.schemeIdx == some 4

/-- `scheme_inf->default_port` of url::kSchemes (src/url.cpp:48-56) by table index; `none` for a null
    `scheme_inf` and for the `-1` of "file" -/
def schemeInfDefaultPort : Option Nat → Option Nat
  | some 0 => some 80      -- ws
  | some 1 => some 443     -- wss
  | some 2 => some 21      -- ftp
  | some 3 => some 80      -- http
  | some 5 => some 443     -- https
  | _ => none

/-- url::port_int (url.h:1201-1204): `port_from_str` of the PORT part view, `none` for `-1` -/
def Rep.portInt (r : Rep) : Option Nat :=
  let v := r.partView PORT
  if v.isEmpty then none else some (decimalValue v)

/-- url::canHaveUsernamePasswordPort (url.h:1364-1366) of a valid url -/
def Rep.canHaveUsernamePasswordPort (r : Rep) : Bool := !(r.isEmpty HOST || r.isFileScheme)

/-! ### scheme_start_state / scheme_state under a state override (url.h:1638-1733) -/

def protocolRep (r : Rep) (p : List Nat) : Rep × Bool :=
  match p with
  | [] => (r, false)                                   -- 1641-1646
  | c0 :: r0 =>
    if !isAlpha c0 then (r, false)                     -- is_first_scheme_char, 1639-1646
    else
      -- 1657-1660
      let body := r0.takeWhile isSchemeChar
      let rest := r0.dropWhile isSchemeChar
      let isScheme := match rest with
        | c :: _ => c == 0x3A
        | [] => true                                   -- EOF and state override is given
      if !isScheme then (r, false)                     -- 1729-1732
      else
        -- 1664-1669: `strp_` = the scheme with the 0x20 bit set
        let scheme := (c0 :: body).map (· ||| 0x20)
        -- 1672-1674
        let inf := schemeIndex scheme
        if r.isSpecialScheme != inf.isSome then (r, false)                     -- 1675-1676
        else if inf == some 4 && (r.hasCredentials || r.portNotNull) then (r, false)   -- 1678-1679
        else if r.isFileScheme && r.isEmpty HOST then (r, false)               -- 1681-1682
        else
          let r1 := saveScheme r scheme                                        -- 1686
          -- 1690-1694
          let dp := schemeInfDefaultPort inf
          let r2 := if dp.isSome && r1.portInt == dp then clearPart r1 PORT else r1
          (r2, true)

/-! ### host_parser::parse_host writing through `hostStart`/`hostDone` (url_host.h:159-361) -/

/-- url_parser::parse_host (url.h:2329-2331).  The host parser writes the host only when it succeeds
    (`hostStart` … `hostDone(ht)`), except for the empty input, which is written as the empty host
    before `is_opaque` decides between ok and host_missing (url_host.h:166-173). -/
def parseHostRep (idna : Idna) (r : Rep) (s : List Nat) : Rep × Bool :=
  let isOpaque := !r.isSpecialScheme
  match s with
  | [] => (writeHost r [] 0, isOpaque)
  | _ =>
    match parseHost idna s isOpaque with
    | none => (r, false)
    | some h => (writeHost r h.text (hostKindCode h.kind), true)

/-! ### port_state under a state override (url.h:1966-2011) -/

def portStateRep (r : Rep) (p : List Nat) : Rep × Bool :=
  let digits := p.takeWhile isDigit
  -- `is_end_of_authority || state_override` holds
  if digits ≠ [] then
    let d := stripLeadingZeros digits                  -- 1978
    if d.length > 5 then (r, false)                    -- 1980-1981
    else
      let port := decimalValue d                       -- 1983-1985
      if port > 0xFFFF then (r, false)                 -- 1988-1989
      else if r.schemeIdx.isNone || schemeInfDefaultPort r.schemeIdx != some port then
        (writePartFlag r PORT d, true)                 -- 1992-1995: the digits as written
      else (clearPart r PORT, true)                    -- 1998
  else (r, true)                                       -- 2003-2004

/-! ### file_host_state under a state override (url.h:2101-2136) -/

def fileHostStateRep (idna : Idna) (r : Rep) (p : List Nat) : Rep × Bool :=
  let buf := p.takeWhile (fun c => !isSpecialAuthorityEnd c)
  if buf = [] then (setEmptyHost r, true)              -- 2104-2110
  else
    -- 2112: `!state_override` is false, no Windows drive letter quirk
    let res := parseHostRep idna r buf                 -- 2122
    if !res.2 then res                                 -- 2123-2124
    else if res.1.partView HOST == sLocalhost then (emptyHostRep res.1, true)  -- 2126-2129
    else res                                           -- 2131-2132

/-! ### host_state / hostname_state under a state override (url.h:1905-1964) -/

def hostStateRep (idna : Idna) (hostnameOnly : Bool) (r : Rep) (p : List Nat) : Rep × Bool :=
  if r.isFileScheme then fileHostStateRep idna r p     -- 1906-1907
  else
    -- 1909-1928
    let isEndC := if r.isSpecialScheme then isSpecialAuthorityEnd else isAuthorityEnd
    let auth := p.takeWhile (fun c => !isEndC c)
    let afterAuth := p.dropWhile (fun c => !isEndC c)
    let scan := hostScan auth false
    let hostPart := scan.1
    let portPart := scan.2
    let isPort := portPart.isSome
    if hostPart = [] && (isPort || r.isSpecialScheme) then (r, false)              -- 1931-1936
    else if hostPart = [] && (r.hasCredentials || r.portNotNull) then (r, false)   -- 1939-1941
    else if isPort && hostnameOnly then (r, false)                                 -- 1945-1946
    else
      let res := parseHostRep idna r hostPart                                     -- 1949
      if !res.2 then res                                                           -- 1951-1952
      else
        match portPart with
        | some pp => portStateRep res.1 (pp ++ afterAuth)                          -- 1954-1956
        | none => res                                                              -- 1958-1961

/-! ### path_start_state / path_state under a state override (url.h:2141-2197, 2333-2404) -/

/-- one iteration of the `while (true)` loop of url_parser::parse_path (url.h:2365-2403) on the
    setter's path buffer -/
def pathSegmentBuf (isFile : Bool) (b : PathBuf) (seg : List Nat) (isLast : Bool) : PathBuf :=
  if doubleDot seg then
    let b := b.shorten isFile                          -- 2376
    if isLast then b.push [] else b                    -- 2377
  else if singleDot seg then
    if isLast then b.push [] else b                    -- 2379
  else
    match seg with
    | [a, c] =>
      -- 2381-2390; `is_empty_path()` is `path_seg_end_.empty()` (url.h:2981-2985)
      if isFile && b.segEnd.isEmpty && isWindowsDrive a c then b.push [a, 0x3A]
      else b.push (percentEncode pathNoEnc seg)        -- 2393-2395
    | _ => b.push (percentEncode pathNoEnc seg)

def pathSegmentsBuf (isFile : Bool) (b : PathBuf) : List (List Nat) → PathBuf
  | [] => b
  | [seg] => pathSegmentBuf isFile b seg true
  | seg :: rest => pathSegmentsBuf isFile (pathSegmentBuf isFile b seg false) rest

/-- url_parser::parse_path (url.h:2333-2404) on the setter's (initially empty) path buffer -/
def parsePathBuf (r : Rep) (s : List Nat) : PathBuf :=
  let segs := if r.isSpecialScheme then splitOnP isSlash s else splitOnP (· == 0x2F) s
  pathSegmentsBuf r.isFileScheme {} segs

def pathStartStateRep (r : Rep) (p : List Nat) : Rep × Bool :=
  if r.isSpecialScheme then
    -- 2142-2151
    let p' := match p with
      | c :: rest => if isSlash c then rest else p
      | [] => p
    (commitPathBuf r (parsePathBuf r p'), true)        -- 2186-2197
  else
    match p with
    | c :: rest =>
      let p' := if c = 0x2F then rest else p           -- 2172-2175
      (commitPathBuf r (parsePathBuf r p'), true)      -- 2186-2197
    | [] =>
      -- 2176-2183
      let b : PathBuf := if !r.hostNotNull then PathBuf.push {} [] else {}
      (commitPathBuf r b, true)

/-! ### query_state / fragment_state under a state override (url.h:2235-2321) -/

def queryStateRep (r : Rep) (p : List Nat) : Rep × Bool :=
  let cpset := if r.isSpecialScheme then specialQueryNoEnc else queryNoEnc    -- 2253-2255
  (writePartFlag r QUERY (percentEncode cpset p), true)                       -- 2260-2284

def fragmentStateRep (r : Rep) (p : List Nat) : Rep × Bool :=
  (writePartFlag r FRAGMENT (percentEncode fragmentNoEnc p), true)            -- 2297-2320

/-! ### the setters -/

/-- A setter of `upa::url` (url.h:1466-1605) applied to the stored representation of a VALID url:
    the new representation and the returned bool.  `units` is the argument in encoding `e`.
    `.href` is not an in-place edit (url.h:1454-1464: a fresh object is parsed and move-assigned
    through `safe_assign`), it is outside this model: `(r, false)` is returned for it. -/
def setRep (idna : Idna) (s : Setter) (e : Enc) (units : List Nat) (r : Rep) : Rep × Bool :=
  match s with
  | .href => (r, false)
  | .protocol => protocolRep r (prep e units)                                  -- 1466-1475
  | .username =>                                                               -- 1477-1491
    if r.canHaveUsernamePasswordPort then
      (writePart r USERNAME (percentEncode userinfoNoEnc (decode e units)), true)
    else (r, false)
  | .password =>                                                               -- 1493-1507
    if r.canHaveUsernamePasswordPort then
      (writePart r PASSWORD (percentEncode userinfoNoEnc (decode e units)), true)
    else (r, false)
  | .host => if !r.opaquePath then hostStateRep idna false r (prep e units) else (r, false)     -- 1509-1518
  | .hostname => if !r.opaquePath then hostStateRep idna true r (prep e units) else (r, false)  -- 1520-1529
  | .port =>                                                                   -- 1531-1547
    if r.canHaveUsernamePasswordPort then
      if units = [] then (clearPart r PORT, true)      -- the RAW input is empty, 1540-1543
      else portStateRep r (prep e units)
    else (r, false)
  | .pathname => if !r.opaquePath then pathStartStateRep r (prep e units) else (r, false)       -- 1549-1558
  | .search =>                                                                 -- 1560-1585
    match units with
    | [] => (stripTrailingSpacesRep (clearPart r QUERY), true)                 -- 1571-1577
    | c :: rest => queryStateRep r (prep e (if c = 0x3F then rest else units)) -- 1578-1579
  | .hash =>                                                                   -- 1587-1605
    match units with
    | [] => (stripTrailingSpacesRep (clearPart r FRAGMENT), true)              -- 1596-1600
    | c :: rest => fragmentStateRep r (prep e (if c = 0x23 then rest else units))   -- 1601-1602

/-! ### the record a representation stands for -/

/-- inverse of `hostKindCode` (upa::HostType, url_host.h) -/
def hostKindOfCode : Nat → HostKind
  | 0 => .empty | 1 => .opaque | 2 => .domain | 3 => .ipv4 | _ => .ipv6

/-- the segments of a serialised list path: "/a/b" ↦ ["a", "b"], "/" ↦ [""], "" ↦ [] -/
def splitPathText : List Nat → List (List Nat)
  | [] => []
  | _ :: rest => splitOnP (· == 0x2F) rest

/-- the record read off the parts of a representation (the offsets of never-started trailing parts
    read as the string length: `Rep.fill`) -/
def Rep.toRecord (r : Rep) : Url :=
  let f := r.fill
  { scheme := f.partView SCHEME,
    username := f.partView USERNAME,
    password := f.partView PASSWORD,
    host := if f.hostNotNull then some { kind := hostKindOfCode f.hostType, text := f.partView HOST } else none,
    port := if f.portNotNull then some (decimalValue (f.partView PORT)) else none,
    hasOpaquePath := f.opaquePath,
    opaquePath := if f.opaquePath then f.partView PATH else [],
    path := if f.opaquePath then [] else splitPathText (f.partView PATH),
    query := if f.queryNotNull then some (f.partView QUERY) else none,
    fragment := if f.fragmentNotNull then some (f.partView FRAGMENT) else none }

end Upa.Impl
