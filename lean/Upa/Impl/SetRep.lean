import Upa.Impl.Rep
/-
  Operational model of the IN-PLACE edits of the stored representation of `upa::url`
  (one normalised string + 11 part end offsets + flags + segment count + scheme index, `Impl.Rep`)
  performed by `detail::url_setter` (include/upa/url.h:2809-3008) on top of
  `detail::url_serializer` (url.h:2545-2806).  Every definition cites the C++ lines it mirrors.

  Parts that were never started keep the offset `0`, exactly as in the C++ (`part_end_` is zero
  initialised and `url::clear` refills it with zeros); `Rep.equiv` identifies a representation with
  the one in which the trailing zeros are replaced by the string length (the `≈` of DESIGN.md, the
  `pe_norm` of harness/driver.cpp).

  `Props/C05b.lean` proves that each operation, run on (a representation equivalent to) the
  from-scratch layout `layout u` of a record, yields (a representation equivalent to) the
  from-scratch layout of the edited record.

  Faithfulness of this model was checked against the real library (UPA_VERIF_HOOKS): for ≈ 49 000
  single setter calls (all ten setters but href, on 25 start URLs incl. opaque paths, "/." prefixes,
  file URLs, never-started trailing parts) the operation below, run on the dumped `norm_url_`,
  `part_end_`, `flags_`, `path_segment_count_`, `scheme_inf_` BEFORE the call, gave exactly the dumped
  state AFTER the call (zeros included, not only up to `≈`).
-/
namespace Upa.Impl

/-! ### the two encodings of trailing offsets -/

/-- `pe_norm` (harness/driver.cpp:237-252): a zero offset all of whose successors are zero too is a
    part that was never started; it is read as the string length -/
def fillTrailing (n : Nat) : List Nat → List Nat
  | [] => []
  | x :: xs => (if x = 0 ∧ xs.all (· == 0) then n else x) :: fillTrailing n xs

def Rep.fill (r : Rep) : Rep := { r with partEnd := fillTrailing r.norm.length r.partEnd }

/-- `≈`: same string, flags, host type, segment count, scheme index, and the same offsets once
    trailing zeros are replaced by the string length -/
def Rep.equiv (a b : Rep) : Prop := a.fill = b.fill

instance (a b : Rep) : Decidable (a.equiv b) := by unfold Rep.equiv; infer_instance

/-- well-formedness of the offset table, as far as the two encodings of trailing offsets go:
    * eleven offsets;
    * a never-started (zero) part directly follows only a never-started part or a part that ends
      the string (the string has no text belonging to a part whose offset is still `0`);
    * the parts up to HOST were started (every parse writes the host, or starts the path, and
      `url_serializer::start_part` then fills all the earlier offsets);
    * a non-null port has a started PORT part (`host()` reads `part_end_[PORT]` when the flag is on). -/
def Rep.wf (r : Rep) : Prop :=
  r.partEnd.length = 11 ∧
  (∀ i, i < 10 → r.pe (i + 1) = 0 → r.pe i = 0 ∨ r.pe i = r.norm.length) ∧
  r.pe HOST ≠ 0 ∧ (r.portNotNull = true → r.pe PORT ≠ 0)

instance (r : Rep) : Decidable r.wf := by unfold Rep.wf; infer_instance

/-! ### url_serializer: offsets, replace_part -/

/-- `std::fill(part_end_ + a, part_end_ + b, v)` (url.h:2796) / `fill_parts_offset(a, b, v)`
    (url.h:2559-2562) -/
def fillRange (pe : List Nat) (a b v : Nat) : List Nat :=
  if a ≤ b then pe.take a ++ List.replicate (b - a) v ++ pe.drop b else pe

/-- the loop of url.h:2800-2804: `for (it = …; it != end; ++it) { if (*it == 0) break; *it += diff; }` -/
def shiftTail (f : Nat → Nat) : List Nat → List Nat
  | [] => []
  | x :: xs => if x = 0 then x :: xs else f x :: shiftTail f xs

def shiftFrom (pe : List Nat) (i : Nat) (f : Nat → Nat) : List Nat :=
  pe.take i ++ shiftTail f (pe.drop i)

/-- url_serializer::get_part_pos (url.h:2778-2780) -/
def Rep.partPos (r : Rep) (pt : Nat) : Nat := if pt > SCHEME then r.pe (pt - 1) else 0

/-- url_serializer::get_part_len (url.h:2782-2784) -/
def Rep.partLen (r : Rep) (pt : Nat) : Nat := r.pe pt - r.pe (pt - 1)

/-- url_serializer::replace_part(last_pt, str, len, first_pt, len0) (url.h:2790-2806):
    `b := get_part_pos(first_pt)`, `l := part_end_[last_pt] - b`, `norm_url_.replace(b, l, str)`,
    `part_end_[first_pt .. last_pt) := b + len0`, then every offset from `last_pt` on is shifted by
    `len - l`, stopping at the first zero.  (`x + len - l` is the signed `x + diff`: `x ≥ b + l`.) -/
def replacePart (r : Rep) (lastPt firstPt : Nat) (str : List Nat) (len0 : Nat) : Rep :=
  let b := r.partPos firstPt
  let l := r.pe lastPt - b
  let norm' := r.norm.take b ++ str ++ r.norm.drop (b + l)
  let pe1 := fillRange r.partEnd firstPt lastPt (b + len0)
  let pe2 := if str.length = l then pe1 else shiftFrom pe1 lastPt (fun x => x + str.length - l)
  { r with norm := norm', partEnd := pe2 }

/-- url_serializer::replace_part(new_pt, str, len) (url.h:2786-2788) -/
def replacePart1 (r : Rep) (pt : Nat) (str : List Nat) : Rep := replacePart r pt pt str 0

/-- url_serializer::start_part (url.h:2564-2615) with `last_pt_ = lastPt`; the new `last_pt_` is
    `newPt`.  Returns the representation with the delimiters appended and the offsets of the skipped
    parts filled; the caller appends the part text and calls `save_part`. -/
def serStartPart (r : Rep) (lastPt newPt : Nat) : Rep :=
  if lastPt = PATH ∧ newPt = PATH then r          -- 2589-2592: continue on path
  else
    -- first switch, 2567-2594
    let r1 : Rep × Nat :=
      if lastPt = SCHEME then
        (if newPt ≤ HOST then { r with norm := r.norm ++ [0x2F, 0x2F] } else r, lastPt + 1)
      else if lastPt = USERNAME then
        if newPt = PASSWORD then ({ r with norm := r.norm ++ [0x3A] }, lastPt + 1)
        else
          let r' := { r with partEnd := r.partEnd.set PASSWORD r.norm.length }
          (if newPt = HOST then { r' with norm := r'.norm ++ [0x40] } else r', HOST_START)
      else if lastPt = PASSWORD then
        (if newPt = HOST then { r with norm := r.norm ++ [0x40] } else r, lastPt + 1)
      else (r, lastPt + 1)
    let r2 := r1.1
    -- 2596
    let r3 := { r2 with partEnd := fillRange r2.partEnd r1.2 newPt r2.norm.length }
    -- second switch, 2598-2609
    let d : List Nat :=
      if newPt = PORT then [0x3A] else if newPt = QUERY then [0x3F]
      else if newPt = FRAGMENT then [0x23] else []
    { r3 with norm := r3.norm ++ d }

/-- url_serializer::save_part (url.h:2617-2619) with `last_pt_ = pt` -/
def serSavePart (r : Rep) (pt : Nat) : Rep := { r with partEnd := r.partEnd.set pt r.norm.length }

/-! ### url_setter: start_part / save_part -/

/-- url_setter::find_last_part (url.h:3003-3008) -/
def findLastPart (r : Rep) : Nat → Nat
  | 0 => SCHEME
  | n + 1 => if r.pe (n + 1) ≠ 0 then n + 1 else findLastPart r n

/-- `for (…; pt <= FRAGMENT && part_end_[pt]; ++pt) part_end_[pt] = v;`
    (url.h:2863-2864 with `v = 0`, url.h:2998-2999 with `v = newlen`) -/
def setWhileNonzero (v : Nat) : List Nat → List Nat
  | [] => []
  | x :: xs => if x = 0 then x :: xs else v :: setWhileNonzero v xs

/-- an open part: the state of a `url_setter` between `start_part` and `save_part` -/
structure Open where
  rep : Rep
  /-- `use_strp_` -/
  useStrp : Bool
  /-- `strp_` -/
  strp : List Nat
  /-- `curr_pt_` (and, when `use_strp_` is false, `last_pt_`) -/
  currPt : Nat
  deriving DecidableEq, Repr

/-- url_setter::start_part (url.h:2831-2871) -/
def setStartPart (r : Rep) (newPt : Nat) : Open :=
  if r.pe newPt ≠ 0 then
    -- is there any part after new_pt?  (2836)
    if newPt < FRAGMENT ∧ r.pe newPt < r.norm.length then
      let strp : List Nat :=
        if newPt = HOST then (if r.partLen SCHEME_SEP < 3 then [0x3A, 0x2F, 0x2F] else [])
        else if newPt = PASSWORD ∨ newPt = PORT then [0x3A]
        else if newPt = QUERY then [0x3F]
        else []
      { rep := r, useStrp := true, strp := strp, currPt := newPt }
    else
      -- remove new_pt part (2859-2864)
      let lastPt := newPt - 1
      let pe1 := r.partEnd.set newPt 0
      let r1 := { r with norm := r.norm.take (r.pe lastPt),
                         partEnd := pe1.take (newPt + 1) ++ setWhileNonzero 0 (pe1.drop (newPt + 1)) }
      { rep := serStartPart r1 lastPt newPt, useStrp := false, strp := [], currPt := newPt }
  else
    -- 2866
    { rep := serStartPart r (findLastPart r newPt) newPt, useStrp := false, strp := [], currPt := newPt }

/-- appending to the string returned by `start_part` (`strp_` or `norm_url_`) -/
def Open.append (o : Open) (t : List Nat) : Open :=
  if o.useStrp then { o with strp := o.strp ++ t }
  else { o with rep := { o.rep with norm := o.rep.norm ++ t } }

/-- url::has_credentials (url.h:1317-1319) -/
def Rep.hasCredentials (r : Rep) : Bool := !r.isEmpty USERNAME || !r.isEmpty PASSWORD

/-- url_setter::save_part (url.h:2873-2909) -/
def setSavePart (o : Open) : Rep :=
  let r := o.rep
  if o.useStrp then
    if o.currPt = HOST then
      if r.partLen SCHEME_SEP < 3 then
        -- SCHEME_SEP, USERNAME, PASSWORD, HOST_START; HOST  (2878)
        replacePart r HOST SCHEME_SEP o.strp 3
      else replacePart1 r HOST o.strp
    else
      let emptyVal : Bool := decide (o.strp.length ≤ kPartStart.getD o.currPt 0)
      let isCred : Bool := o.currPt == USERNAME || o.currPt == PASSWORD
      if isCred && !emptyVal && !r.hasCredentials then
        -- 2887-2890
        let s := o.strp ++ [0x40]
        replacePart r HOST_START o.currPt s (s.length - 1)
      else if isCred && emptyVal &&
          r.isEmpty (if o.currPt = USERNAME then PASSWORD else USERNAME) then
        -- both username and password will be empty, so also drop '@' (2891-2894)
        replacePart r HOST_START o.currPt [] 0
      else
        -- 2897-2901
        let s := if (o.currPt == PASSWORD || o.currPt == PORT) && emptyVal then [] else o.strp
        replacePart1 r o.currPt s
  else serSavePart r o.currPt

/-- the protocol "write part": `start_part(pt)`; append `text`; `save_part()` -/
def writePart (r : Rep) (pt : Nat) (text : List Nat) : Rep :=
  setSavePart ((setStartPart r pt).append text)

/-! ### flags -/

/-- `flags_ &= ~(1u << pt)` (url.h:2914); only the four not-null bits that can be cleared are
    modelled (`hostNotNull`, `portNotNull`, `queryNotNull`, `fragmentNotNull`) -/
def Rep.setNull (r : Rep) (pt : Nat) : Rep :=
  if pt = HOST then { r with hostNotNull := false }
  else if pt = PORT then { r with portNotNull := false }
  else if pt = QUERY then { r with queryNotNull := false }
  else if pt = FRAGMENT then { r with fragmentNotNull := false }
  else r

/-- `set_flag(1u << pt)` (url.h:1348-1350), called by the parser after `save_part` for PORT, QUERY,
    FRAGMENT (url.h:1995, 2284, 2320) -/
def Rep.setNotNull (r : Rep) (pt : Nat) : Rep :=
  if pt = HOST then { r with hostNotNull := true }
  else if pt = PORT then { r with portNotNull := true }
  else if pt = QUERY then { r with queryNotNull := true }
  else if pt = FRAGMENT then { r with fragmentNotNull := true }
  else r

/-- url::set_host_type (url.h:1360-1362): host type bits, and HOST_FLAG on -/
def Rep.setHostType (r : Rep) (ht : Nat) : Rep := { r with hostNotNull := true, hostType := ht }

/-- "write part and mark it non-null": the port / query / fragment blocks of the parser
    (url.h:1993-1995, 2260-2284, 2297-2320) -/
def writePartFlag (r : Rep) (pt : Nat) (text : List Nat) : Rep := (writePart r pt text).setNotNull pt

/-! ### clear / empty -/

/-- url_setter::clear_part (url.h:2911-2916) -/
def clearPart (r : Rep) (pt : Nat) : Rep :=
  if r.pe pt ≠ 0 then (replacePart1 r pt []).setNull pt else r

/-- url_setter::empty_part (url.h:2918-2922) -/
def emptyPart (r : Rep) (pt : Nat) : Rep :=
  if r.pe pt ≠ 0 then replacePart1 r pt [] else r

/-- url_setter::empty_host (url.h:2924-2927) -/
def emptyHostRep (r : Rep) : Rep := (emptyPart r HOST).setHostType 0

/-! ### host -/

/-- url_serializer::hostDone (url.h:2694-2703) on an open HOST part (`save_part` is virtual: the
    setter's), then the host type, then removal of a "/." path prefix -/
def hostDone (o : Open) (ht : Nat) : Rep :=
  let r := (setSavePart o).setHostType ht
  if !r.isEmpty PATH_PREFIX then replacePart1 r PATH_PREFIX [] else r

/-- `hostStart()`; append the serialised host; `hostDone(ht)` -/
def writeHost (r : Rep) (text : List Nat) (ht : Nat) : Rep :=
  hostDone ((setStartPart r HOST).append text) ht

/-- url_serializer::set_empty_host (url.h:2671-2675), `start_part`/`save_part` being the setter's -/
def setEmptyHost (r : Rep) : Rep := (writePart r HOST []).setHostType 0

/-! ### path -/

/-- url_serializer::adjust_path_prefix (url.h:2648-2659) -/
def adjustPathPrefix (r : Rep) : Rep :=
  let pathname := r.partView PATH
  let newPrefix : List Nat :=
    if !r.hostNotNull && decide (r.segCount > 1) &&
        (decide (pathname.length > 1) && pathname.getD 0 0 == 0x2F && pathname.getD 1 0 == 0x2F)
    then [0x2F, 0x2E] else []
  if r.isEmpty PATH_PREFIX != newPrefix.isEmpty then replacePart1 r PATH_PREFIX newPrefix else r

/-- the loop of url.h:2941-2944: `for (ind = PATH; ind > 0; --ind) { if (part_end_[ind]) break;
    part_end_[ind] = norm_url_.length(); }` -/
def fillUnsetDown (pe : List Nat) (n : Nat) : Nat → List Nat
  | 0 => pe
  | ind + 1 => if pe.getD (ind + 1) 0 ≠ 0 then pe else fillUnsetDown (pe.set (ind + 1) n) n ind

/-- url_setter::commit_path (url.h:2939-2951); `pathText` is `strp_` (the segments, each preceded by
    "/", accumulated by `start_path_segment`/`save_path_segment`, url.h:2929-2937) and `segCount`
    is `path_seg_end_.size()` -/
def commitPath (r : Rep) (pathText : List Nat) (segCount : Nat) : Rep :=
  let r1 := { r with partEnd := fillUnsetDown r.partEnd r.norm.length PATH }
  let r2 := replacePart1 r1 PATH pathText
  let r3 := { r2 with segCount := segCount }
  adjustPathPrefix r3

/-- the path being rebuilt by the setter: `strp_` and `path_seg_end_` (url.h:863-867) -/
structure PathBuf where
  strp : List Nat := []
  segEnd : List Nat := []
  deriving DecidableEq, Repr

/-- url_setter: `start_path_segment()`; append the segment text; `save_path_segment()`
    (url.h:2929-2937) -/
def PathBuf.push (b : PathBuf) (seg : List Nat) : PathBuf :=
  let s := b.strp ++ 0x2F :: seg
  { strp := s, segEnd := b.segEnd ++ [s.length] }

/-- url_setter::shorten_path (url.h:2955-2966) -/
def PathBuf.shorten (isFile : Bool) (b : PathBuf) : PathBuf :=
  if b.segEnd.length = 1 then
    if isFile && b.strp.length == 3 &&
        isNormalizedWindowsDrive (b.strp.getD 1 0) (b.strp.getD 2 0) then b
    else { strp := [], segEnd := [] }
  else if b.segEnd.length ≥ 2 then
    let se := b.segEnd.dropLast
    { strp := b.strp.take (se.getLast?.getD 0), segEnd := se }
  else b

/-- the buffer after the segments of `p` were pushed one by one -/
def PathBuf.ofPath (p : List (List Nat)) : PathBuf := p.foldl PathBuf.push {}

/-- url_setter::commit_path (url.h:2939-2951) on the buffer -/
def commitPathBuf (r : Rep) (b : PathBuf) : Rep := commitPath r b.strp b.segEnd.length

/-! ### scheme -/

/-- url_setter::save_scheme (url.h:2824-2827): `replace_part(SCHEME, strp_)`, then
    `set_scheme(strp_.length())` = `part_end_[SCHEME] = len; scheme_inf_ = get_scheme_info(view)`
    (url.h:1341-1344) -/
def saveScheme (r : Rep) (s : List Nat) : Rep :=
  let r1 := replacePart1 r SCHEME s
  let r2 := { r1 with partEnd := r1.partEnd.set SCHEME s.length }
  { r2 with schemeIdx := schemeIndex (r2.partView SCHEME) }

/-! ### opaque path -/

/-- `norm_url_.find_last_not_of(' ') + 1` (`npos + 1 = 0`) -/
def lastNotSpaceLen (l : List Nat) : Nat := (l.reverse.dropWhile (· == 0x20)).length

/-- url_setter::potentially_strip_trailing_spaces_from_an_opaque_path (url.h:2989-3001) -/
def stripTrailingSpacesRep (r : Rep) : Rep :=
  if r.opaquePath && !r.fragmentNotNull && !r.queryNotNull then
    let newlen := lastNotSpaceLen r.norm
    { r with norm := r.norm.take newlen,
             partEnd := r.partEnd.take PATH ++ setWhileNonzero newlen (r.partEnd.drop PATH) }
  else r

end Upa.Impl
