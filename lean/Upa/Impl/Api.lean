import Upa.Impl.Url
import Upa.Impl.Form
/-
  Model of the public API of `upa::url` (include/upa/url.h:1110-1590): preprocessing, parse / can_parse,
  the ten setters, the getters, the URL serializer, origin, and the link to the owned
  url_search_params object.  Arguments arrive as code units in encoding `e`.
-/
namespace Upa.Impl

def isTrimChar (c : Nat) : Bool := decide (c ≤ 0x20)
def isRemovable (c : Nat) : Bool := c == 0x0D || c == 0x0A || c == 0x09

/-- detail::do_trim -/
def doTrim (l : List Nat) : List Nat := ((l.dropWhile isTrimChar).reverse.dropWhile isTrimChar).reverse
/-- detail::do_remove_whitespace -/
def removeWs (l : List Nat) : List Nat := l.filter (fun c => !isRemovable c)

/-- what `url_parse` sees: tab/newline removed on the code units, then lazily decoded -/
def prep (e : Enc) (units : List Nat) : List Nat := decode e (removeWs units)

/-! ### serializer and getters (record level; the offset-based getters are in `Rep`) -/

def pathText (u : Url) : List Nat :=
  if u.hasOpaquePath then u.opaquePath else u.path.flatMap (fun seg => 0x2F :: seg)

def needsPathPrefix (u : Url) : Bool :=
  u.host.isNone && !u.hasOpaquePath && decide (u.path.length > 1) && u.path.head? == some []

def serialize (u : Url) (excludeFragment : Bool := false) : List Nat :=
  u.scheme ++ [0x3A] ++
  (match u.host with
   | some h =>
     [0x2F, 0x2F] ++
     (if u.hasCredentials then
        u.username ++ (if u.password ≠ [] then 0x3A :: u.password else []) ++ [0x40] else []) ++
     h.text ++ (match u.port with | some p => 0x3A :: toDecimal p | none => [])
   | none => []) ++
  (if needsPathPrefix u then [0x2F, 0x2E] else []) ++
  pathText u ++
  (match u.query with | some q => 0x3F :: q | none => []) ++
  (if excludeFragment then [] else match u.fragment with | some f => 0x23 :: f | none => [])

def getProtocol (u : Url) : List Nat := u.scheme ++ [0x3A]
def getHost (u : Url) : List Nat :=
  match u.host with
  | none => []
  | some h => h.text ++ (match u.port with | some p => 0x3A :: toDecimal p | none => [])
def getHostname (u : Url) : List Nat := u.hostText
def getPort (u : Url) : List Nat := match u.port with | some p => toDecimal p | none => []
def getSearch (u : Url) : List Nat := match u.query with | some (c :: q) => 0x3F :: c :: q | _ => []
def getHash (u : Url) : List Nat := match u.fragment with | some (c :: f) => 0x23 :: c :: f | _ => []
/-- url::path(): pathname plus `?query` when the query is non-null -/
def getPath (u : Url) : List Nat := pathText u ++ (match u.query with | some q => 0x3F :: q | none => [])

/-! ### parse -/

/-- url::do_parse: trim, url_parse; some = ok -/
def parse (idna : Idna) (e : Enc) (units : List Nat) (base : Option Url) : Option Url :=
  match urlParse idna base none {} (prep e (doTrim units)) with
  | ⟨.ok, u⟩ => some u
  | _ => none

def sNull := asciiStr "null"
def sBlob := asciiStr "blob"

/-- url::origin -/
def origin (idna : Idna) (u : Url) : List Nat :=
  if u.isSpecial then
    if u.isFile then sNull
    else u.scheme ++ [0x3A, 0x2F, 0x2F] ++ getHost u
  else if u.scheme = sBlob then
    match parse idna .u8 (pathText u) none with
    | some pu =>
      if pu.scheme = sHttp ∨ pu.scheme = sHttps then pu.scheme ++ [0x3A, 0x2F, 0x2F] ++ getHost pu
      else sNull
    | none => sNull
  else sNull

/-! ### setters -/

inductive Setter where
  | href | protocol | username | password | host | hostname | port | pathname | search | hash
  deriving DecidableEq, Repr

def canHaveUsernamePasswordPort (u : Url) : Bool := !(u.hostText = [] || u.isFile)

/-- url_setter::potentially_strip_trailing_spaces_from_an_opaque_path -/
def stripTrailingSpaces (u : Url) : Url :=
  if u.hasOpaquePath && u.fragment.isNone && u.query.isNone then
    { u with opaquePath := (u.opaquePath.reverse.dropWhile (· == 0x20)).reverse }
  else u

/-- a setter applied to a valid URL: the new URL and the returned bool -/
def setValid (idna : Idna) (s : Setter) (e : Enc) (units : List Nat) (u : Url) : Url × Bool :=
  let run (ov : Override) (u : Url) (units : List Nat) : Url × Bool :=
    let r := urlParse idna none (some ov) u (prep e units)
    (r.url, r.out == .ok)
  match s with
  | .href =>
    match parse idna e units none with
    | some u' => (u', true)
    | none => (u, false)
  | .protocol => run .schemeStart u units
  | .username =>
    if canHaveUsernamePasswordPort u then
      ({ u with username := percentEncode userinfoNoEnc (decode e units) }, true) else (u, false)
  | .password =>
    if canHaveUsernamePasswordPort u then
      ({ u with password := percentEncode userinfoNoEnc (decode e units) }, true) else (u, false)
  | .host => if !u.hasOpaquePath then run .host u units else (u, false)
  | .hostname => if !u.hasOpaquePath then run .hostname u units else (u, false)
  | .port =>
    if canHaveUsernamePasswordPort u then
      if units = [] then ({ u with port := none }, true) else run .port u units
    else (u, false)
  | .pathname => if !u.hasOpaquePath then run .pathStart { u with path := [] } units else (u, false)
  | .search =>
    match units with
    | [] => (stripTrailingSpaces { u with query := none }, true)
    | c :: r => run .query u (if c = 0x3F then r else units)
  | .hash =>
    match units with
    | [] => (stripTrailingSpaces { u with fragment := none }, true)
    | c :: r => run .fragment u (if c = 0x23 then r else units)

/-! ### the url object with its lazily created, owned url_search_params -/

structure UrlObj where
  /-- none: `is_valid()` is false (never parsed, cleared, or the last parse failed) -/
  url : Option Url := none
  /-- the owned params object, once `search_params()` has been called -/
  sp : Option Params := none
  deriving DecidableEq, Repr

def queryBytes (u : Option Url) : List Nat :=
  match u with
  | some u => (u.query.getD [])
  | none => []

/-- url::parse_search_params -/
def UrlObj.reparseParams (o : UrlObj) : UrlObj :=
  match o.sp with
  | some _ => { o with sp := some { list := formParse false (queryBytes o.url), isSorted := false } }
  | none => o

/-- url::clear_search_params -/
def UrlObj.clearParams (o : UrlObj) : UrlObj :=
  match o.sp with
  | some _ => { o with sp := some { list := [], isSorted := true } }
  | none => o

/-- url::parse(str, base) on an existing object.  `new_url()` clears a non-empty object first
    (a valid object is never empty; for an invalid one the params content is not observable). -/
def UrlObj.parse (idna : Idna) (o : UrlObj) (e : Enc) (units : List Nat) (base : Option (Option Url)) : UrlObj × Bool :=
  let o := if o.url.isSome then o.clearParams else o
  match base with
  | some none => ({ o with url := none }, false)           -- invalid base object
  | _ =>
    match Impl.parse idna e units (base.bind id) with
    | some u => (({ o with url := some u } : UrlObj).reparseParams, true)
    | none => ({ o with url := none }, false)

def UrlObj.clear (o : UrlObj) : UrlObj := ({ o with url := none } : UrlObj).clearParams

/-- url::safe_assign(url&&) as used by the href setter: record replaced, params refilled -/
def UrlObj.set (idna : Idna) (o : UrlObj) (s : Setter) (e : Enc) (units : List Nat) : UrlObj × Bool :=
  match s, o.url with
  | .href, _ =>
    match Impl.parse idna e units none with
    | some u => (({ o with url := some u } : UrlObj).reparseParams, true)
    | none => (o, false)
  | _, none => (o, false)
  | .search, some u =>
    let (u', ok) := setValid idna .search e units u
    let o' : UrlObj := { o with url := some u' }
    (if units = [] then o'.clearParams else o'.reparseParams, ok)
  | s, some u =>
    let (u', ok) := setValid idna s e units u
    ({ o with url := some u' }, ok)

/-- url::search_params() & : create on first use -/
def UrlObj.searchParams (o : UrlObj) : UrlObj :=
  match o.sp with
  | some _ => o
  | none => { o with sp := some { list := formParse false (queryBytes o.url), isSorted := false } }

/-- url_search_params::update after a mutation of the owned params -/
def UrlObj.update (o : UrlObj) : UrlObj :=
  match o.url, o.sp with
  | some u, some p =>
    if p.list = [] then { o with url := some (stripTrailingSpaces { u with query := none }) }
    else { o with url := some { u with query := some (formSerialize p.list) } }
  | _, _ => o

/-- apply a params mutation through the URL's params object -/
def UrlObj.spApply (o : UrlObj) (f : Params → Params) (always : Bool := true) : UrlObj :=
  let o := o.searchParams
  match o.sp with
  | some p =>
    let p' := f p
    let o' : UrlObj := { o with sp := some p' }
    if always || p'.list.length ≠ p.list.length then o'.update else o'
  | none => o

/-! copy / move / swap / safe_assign between two objects (dst, src) ↦ (dst', src') -/

/-- copy assignment `dst = src`: record copied; url_search_params_ptr::operator=(const&) -/
def copyAssign (dst src : UrlObj) : UrlObj :=
  match dst.sp, src.sp with
  | some _, some sp => { url := src.url, sp := some { list := sp.list, isSorted := sp.isSorted } }
  | some _, none => ({ url := src.url, sp := dst.sp } : UrlObj).reparseParams
  | none, _ => { url := src.url, sp := none }

/-- copy construction: url_search_params_ptr copy ctor leaves the new object without params -/
def copyConstruct (src : UrlObj) : UrlObj := { url := src.url, sp := none }

/-- move assignment / construction: takes the record and the params pointer; the source is left
    without params.  (The moved-from source must be re-initialised before use: finding F1.) -/
def moveAssign (src : UrlObj) : UrlObj × UrlObj := (src, { url := none, sp := none })

/-- url::safe_assign(url&&) -/
def safeAssign (dst src : UrlObj) : UrlObj × UrlObj :=
  let dst' : UrlObj :=
    match dst.sp, src.sp with
    | some _, some sp => { url := src.url, sp := some { list := sp.list, isSorted := sp.isSorted } }
    | some _, none => { url := src.url, sp := some { list := formParse false (queryBytes src.url), isSorted := false } }
    | none, _ => { url := src.url, sp := none }
  (dst', { url := none, sp := src.sp.map (fun _ => { list := [], isSorted := false }) })

end Upa.Impl
