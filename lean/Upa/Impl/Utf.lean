import Upa.Basic
/-
  Code-shaped model of include/upa/url_utf.h and src/url_utf.cpp.
  `readU8/readU16/readU32` mirror the three `url_utf::read_code_point` overloads: they return
  `(ok, codePoint, rest)`; on failure `rest` is where the C++ leaves `first` (the already consumed
  maximal prefix is skipped), `codePoint` is then irrelevant (read_utf_char substitutes U+FFFD).
-/
namespace Upa.Impl

/-- k_U8_LEAD3_T1_BITS (src/url_utf.cpp) -/
def lead3T1Bits : List Nat :=
  [0x20, 0x30, 0x30, 0x30, 0x30, 0x30, 0x30, 0x30, 0x30, 0x30, 0x30, 0x30, 0x30, 0x10, 0x30, 0x30]
/-- k_U8_LEAD4_T1_BITS (src/url_utf.cpp) -/
def lead4T1Bits : List Nat :=
  [0x00, 0x00, 0x00, 0x00, 0x00, 0x00, 0x00, 0x00, 0x1E, 0x0F, 0x0F, 0x0F, 0x00, 0x00, 0x00, 0x00]

/-- `static_cast<uint8_t>(b - 0x80)` for a byte `b` -/
def subByte80 (b : Nat) : Nat := (b + 256 - 0x80) % 256

/-- url_utf::read_code_point(const char*&, ...) — ICU U8_NEXT-style decoder. Input bytes < 256. -/
def readU8 : List Nat → Bool × Nat × List Nat
  | [] => (false, 0xFFFD, [])
  | b0 :: r =>
    if b0 < 0x80 then (true, b0, r)
    else match r with
      | [] => (false, 0xFFFD, [])
      | b1 :: r1 =>
        if b0 ≥ 0xE0 then
          if b0 < 0xF0 then
            -- U+0800..U+FFFF except surrogates
            let c := b0 &&& 0xF
            if (lead3T1Bits.getD c 0) &&& (1 <<< (b1 >>> 5)) ≠ 0 then
              let c := (c <<< 6) ||| (b1 &&& 0x3F)
              match r1 with
              | [] => (false, 0xFFFD, [])
              | b2 :: r2 =>
                let t := subByte80 b2
                if t ≤ 0x3F then (true, (c <<< 6) ||| t, r2) else (false, 0xFFFD, b2 :: r2)
            else (false, 0xFFFD, b1 :: r1)
          else
            -- U+10000..U+10FFFF
            let c := b0 - 0xF0
            if c ≤ 4 ∧ (lead4T1Bits.getD (b1 >>> 4) 0) &&& (1 <<< c) ≠ 0 then
              let c := (c <<< 6) ||| (b1 &&& 0x3F)
              match r1 with
              | [] => (false, 0xFFFD, [])
              | b2 :: r2 =>
                let t := subByte80 b2
                if t ≤ 0x3F then
                  let c := (c <<< 6) ||| t
                  match r2 with
                  | [] => (false, 0xFFFD, [])
                  | b3 :: r3 =>
                    let t3 := subByte80 b3
                    if t3 ≤ 0x3F then (true, (c <<< 6) ||| t3, r3) else (false, 0xFFFD, b3 :: r3)
                else (false, 0xFFFD, b2 :: r2)
            else (false, 0xFFFD, b1 :: r1)
        else
          -- U+0080..U+07FF
          if b0 ≥ 0xC2 then
            let t := subByte80 b1
            if t ≤ 0x3F then (true, ((b0 &&& 0x1F) <<< 6) ||| t, r1) else (false, 0xFFFD, b1 :: r1)
          else (false, 0xFFFD, b1 :: r1)

/-- url_utf::read_code_point(const char16_t*&, ...). Input units < 65536. -/
def readU16 : List Nat → Bool × Nat × List Nat
  | [] => (false, 0xFFFD, [])
  | c :: r =>
    if c &&& 0xFFFFF800 = 0xD800 then          -- u16_is_surrogate
      if c &&& 0x400 = 0 then                  -- u16_is_surrogate_lead
        match r with
        | [] => (false, 0xFFFD, [])
        | t :: r1 =>
          if t &&& 0xFFFFFC00 = 0xDC00 then    -- u16_is_trail
            (true, (c <<< 10) + t - ((0xD800 <<< 10) + 0xDC00 - 0x10000), r1)
          else (false, 0xFFFD, t :: r1)
      else (false, 0xFFFD, r)
    else (true, c, r)

/-- url_utf::read_code_point(const char32_t*&, ...). Input units < 2^32. -/
def readU32 : List Nat → Bool × Nat × List Nat
  | [] => (false, 0xFFFD, [])
  | c :: r => (decide (c < 0xD800) || (decide (c > 0xDFFF) && decide (c ≤ 0x10FFFF)), c, r)

def readChar : Enc → List Nat → Bool × Nat × List Nat
  | .u8 => readU8
  | .u16 => readU16
  | .u32 => readU32

/-- read_utf_char: the code point, U+FFFD on failure -/
def readUtfChar (e : Enc) (l : List Nat) : Nat × List Nat :=
  let (ok, cp, rest) := readChar e l
  (if ok then cp else 0xFFFD, rest)

/-- The loop `for (it = first; it < last;) read_utf_char(it, last)` that every consumer runs.
    `fuel` bounds the iterations; `decode` supplies `length` (each step consumes ≥ 1 unit). -/
def decodeAux (e : Enc) : Nat → List Nat → List Nat
  | 0, _ => []
  | _, [] => []
  | fuel+1, l =>
    let (cp, rest) := readUtfChar e l
    cp :: decodeAux e fuel rest

/-- code units (encoding `e`) → scalar values, ill-formed sequences replaced by U+FFFD -/
def decode (e : Enc) (l : List Nat) : List Nat := decodeAux e l.length l

/-- url_utf::append_utf8 -/
def encodeUtf8Char (cp : Nat) : List Nat :=
  if cp ≤ 0x7F then [cp]
  else if cp ≤ 0x7FF then [(cp >>> 6) ||| 0xC0, (cp &&& 0x3F) ||| 0x80]
  else if cp ≤ 0xFFFF then [(cp >>> 12) ||| 0xE0, ((cp >>> 6) &&& 0x3F) ||| 0x80, (cp &&& 0x3F) ||| 0x80]
  else [((cp >>> 18) ||| 0xF0) % 256, ((cp >>> 12) &&& 0x3F) ||| 0x80, ((cp >>> 6) &&& 0x3F) ||| 0x80,
        (cp &&& 0x3F) ||| 0x80]

def encodeUtf8 (s : List Nat) : List Nat := s.flatMap encodeUtf8Char

/-- url_utf::append_utf16 -/
def encodeUtf16Char (cp : Nat) : List Nat :=
  if cp ≤ 0xFFFF then [cp] else [((cp >>> 10) + 0xD7C0) % 65536, (cp &&& 0x3FF) ||| 0xDC00]

def encodeUtf16 (s : List Nat) : List Nat := s.flatMap encodeUtf16Char

def encode : Enc → List Nat → List Nat
  | .u8 => encodeUtf8
  | .u16 => encodeUtf16
  | .u32 => id

/-- url_utf::check_fix_utf8: every maximal ill-formed subsequence becomes EF BF BD. -/
def checkFixUtf8 (bytes : List Nat) : List Nat := encodeUtf8 (decode .u8 bytes)

/-- `make_string` / `to_utf8_string` for non-char input: decode + re-encode; for `char` input the
    library returns the bytes as they are (no repair) — see finding F3. -/
def makeString (e : Enc) (units : List Nat) : List Nat :=
  match e with
  | .u8 => units
  | _ => encodeUtf8 (decode e units)

/-- url_utf::compare_by_code_units (sign only: -1, 0, 1 as Int) on UTF-8 byte strings. -/
def compareByCodeUnitsAux : Nat → List Nat → List Nat → Int
  | 0, _, _ => 0
  | _, [], [] => 0
  | _, _ :: _, [] => 1
  | _, [], _ :: _ => -1
  | fuel+1, a :: ra, b :: rb =>
    if a < 0x80 ∨ b < 0x80 then
      if a = b then compareByCodeUnitsAux fuel ra rb
      else (a : Int) - (b : Int)
    else
      let (cp1, r1) := readUtfChar .u8 (a :: ra)
      let (cp2, r2) := readUtfChar .u8 (b :: rb)
      if cp1 = cp2 then compareByCodeUnitsAux fuel r1 r2
      else
        let cu1 := if cp1 ≤ 0xFFFF then cp1 else (cp1 >>> 10) + 0xD7C0
        let cu2 := if cp2 ≤ 0xFFFF then cp2 else (cp2 >>> 10) + 0xD7C0
        if cu1 = cu2 then ((cp1 &&& 0x3FF : Nat) : Int) - ((cp2 &&& 0x3FF : Nat) : Int)
        else (cu1 : Int) - (cu2 : Int)

def compareByCodeUnits (a b : List Nat) : Int := compareByCodeUnitsAux (a.length + b.length + 1) a b

end Upa.Impl
