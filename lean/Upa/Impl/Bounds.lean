import Upa.Basic
import Upa.Spec.Sets
import Upa.Impl.Utf
import Upa.Impl.Url
import Upa.Impl.FilePath
/-
  BOUNDS-INSTRUMENTED models of the pointer-arithmetic scanners (property C04).

  The list models of `Upa/Impl/*.lean` abstract a pointer as "the remaining suffix", so a read outside
  the range cannot even be written down.  Here the input is an `Array Nat` together with the valid
  range `[first, last)`; a pointer is an index (`Nat`), and EVERY element read `p[k]` goes through the
  checked accessor `rd`, which yields the explicit outcome `.oob` when the index is outside
  `[first, last)`.  Fixed-size local arrays (`part[6]`, `number[4]`, `address[8]`) are `Loc`s whose
  reads and writes are checked against the declared size; an index into a constant lookup table (the
  two ICU bit tables of 16 entries, `kCharToHexLookup[8]`) is checked with `idx`.  The control flow
  follows the C++ read by read, every `if` / `&&` / `||` guard in source order.

  Conventions
  * `R α` has five outcomes: `.ok v`, `.oob` (an out-of-range access happened), `.hang` (a loop ran out
    of the fuel the caller supplied), `.abort` (an `assert` of the source failed; there is one, in
    compare_by_code_units) and `.badptr` (a pointer outside `[first, last]` was formed).
    `Upa/Props/C04b.lean` proves that none of the four failures is reachable.
  * POINTER FORMATION: every pointer the C++ forms by arithmetic (`++p`, `p + k`, `p += k`, `last - k`,
    `--p`) and that is not itself the operand of a checked read goes through `mkptr` / `mkptrSub`.
    (`p[k]` and `*(p - 1)` are reads: `rd` / `rdPrev` are stricter.  Pointers advanced inside
    `std::find`, `std::find_if`, `std::all_of`, `char_traits::find` belong to the library.)
  * `*(p - 1)` is read with `rdPrev` (checks `first < p`), because `p - 1` on `Nat` would silently
    truncate at 0.
  * A callee that receives a sub-range `(p, e)` of the caller's range is called as `callee a p e`
    after the explicit check `sub first last p e` (`first ≤ p ≤ e ≤ last`); the callee then treats
    `[p, e)` as ITS valid range — which is smaller, so its reads are valid for the caller as well.
  * `while`/`for` loops are `iter step fuel s`: `step` returns `.inl s'` (next iteration, also
    `continue`) or `.inr r` (loop left: `break` or `return`).
  * `static_cast<uint8_t>(x)` is `x % 256`.
  * NON-VACUITY: one guard of each function is an optional argument whose default is the value the C++
    has (`minLen := 4`, `slack := 0`, …).  The theorems are about the default; the examples in
    `Upa/Props/C04b.lean` run the function with a wrong value and reach `.oob` (or `.badptr`, when the
    wrong guard already lets a pointer outside `[first, last]` be formed).
-/
namespace Upa.Impl.B

inductive R (α : Type) where
  | ok (v : α)
  | oob      -- an access outside the valid range / outside a fixed-size array
  | hang     -- a loop ran out of fuel
  | abort    -- an `assert(…)` of the source failed
  | badptr   -- a pointer outside `[first, last]` was FORMED (undefined per [expr.add], even if never read)
  deriving DecidableEq, Repr

def R.bind {α β : Type} : R α → (α → R β) → R β
  | .ok v, f => f v
  | .oob, _ => .oob
  | .hang, _ => .hang
  | .abort, _ => .abort
  | .badptr, _ => .badptr

instance : Monad R where
  pure := .ok
  bind := R.bind

/-- checked element read `p[k]` with `i = p + k`: in range iff `first ≤ i < last` -/
def rd (a : Array Nat) (first last i : Nat) : R Nat :=
  if first ≤ i ∧ i < last ∧ i < a.size then .ok a[i]! else .oob

/-- checked read of `*(p - 1)`: in range iff `first < p ≤ last` -/
def rdPrev (a : Array Nat) (first last p : Nat) : R Nat :=
  if first < p ∧ p ≤ last ∧ p ≤ a.size then .ok a[p - 1]! else .oob

/-- a callee is handed the range `[p, e)`: it must be a well-formed sub-range of `[first, last)` -/
def sub (first last p e : Nat) : R Unit :=
  if first ≤ p ∧ p ≤ e ∧ e ≤ last then .ok () else .oob

/-- checked pointer FORMATION `p = q + k` (the sum is passed): forming it is defined iff
    `first ≤ p ≤ last` — one past the end is allowed, anything beyond is undefined ([expr.add]) -/
def mkptr (first last p : Nat) : R Nat := if first ≤ p ∧ p ≤ last then .ok p else .badptr

/-- checked pointer formation `p - k` (`Nat` subtraction would truncate at 0, so the two operands are
    passed): defined iff `first ≤ p - k` over the integers, i.e. `first + k ≤ p`, and `p - k ≤ last` -/
def mkptrSub (first last p k : Nat) : R Nat := if first + k ≤ p ∧ p - k ≤ last then .ok (p - k) else .badptr

/-- `assert(c)` -/
def chk (c : Prop) [Decidable c] : R Unit := if c then .ok () else .abort

/-- index check for a constant lookup table of `n` entries -/
def idx (n i : Nat) : R Unit := if i < n then .ok () else .oob

/-- fixed-size local array `T name[size]` -/
structure Loc where
  size : Nat
  get : Nat → Nat

def Loc.new (n : Nat) : Loc := ⟨n, fun _ => 0⟩
/-- checked `name[i]` -/
def Loc.rd (l : Loc) (i : Nat) : R Nat := if i < l.size then .ok (l.get i) else .oob
/-- checked `name[i] = v` -/
def Loc.wr (l : Loc) (i v : Nat) : R Loc :=
  if i < l.size then .ok ⟨l.size, fun j => if j = i then v else l.get j⟩ else .oob
def Loc.toList (l : Loc) : List Nat := (List.range l.size).map l.get

/-- test inputs: the code units of an ASCII string as an exactly-sized buffer -/
def ofStr (s : String) : Array Nat := (asciiStr s).toArray

/-- loop combinator: `.inl` = go round again, `.inr` = leave the loop with a result -/
def iter {σ β : Type} (step : σ → R (σ ⊕ β)) : Nat → σ → R β
  | 0, _ => .hang
  | fuel+1, s =>
    match step s with
    | .ok (.inl s') => iter step fuel s'
    | .ok (.inr b) => .ok b
    | .oob => .oob
    | .hang => .hang
    | .abort => .abort
    | .badptr => .badptr

/-- `std::char_traits<CharT>::find(p, n, ch)` / `std::find`: reads `p[0] … p[n-1]` until a hit -/
def findCh (a : Array Nat) (first last : Nat) (ch : Nat) : Nat → Nat → R (Option Nat)
  | 0, _ => pure none
  | n+1, p => do
    let c ← rd a first last p
    if c = ch then pure (some p) else findCh a first last ch n (p + 1)

/-- `std::find_if(p, p + n, pred)`: position of the first hit, `p + n` when there is none -/
def findIf (a : Array Nat) (first last : Nat) (pred : Nat → Bool) : Nat → Nat → R Nat
  | 0, p => pure p
  | n+1, p => do
    let c ← rd a first last p
    if pred c then pure p else findIf a first last pred n (p + 1)

/-- `std::all_of(p, p + n, pred)` -/
def allOf (a : Array Nat) (first last : Nat) (pred : Nat → Bool) : Nat → Nat → R Bool
  | 0, _ => pure true
  | n+1, p => do
    let c ← rd a first last p
    if pred c then allOf a first last pred n (p + 1) else pure false

/-! ## 1, 2  url_utf.h  read_code_point -/

/-- `(tmp = uint8_t(uint8_t(*first) - 0x80)) <= 0x3F && (c = (c << 6) | tmp, ++first, 1)`:
    the read of `*first` is guarded by the `first != last` / `++first != last` test just before. -/
def u8LastTrail (a : Array Nat) (first last p c : Nat) : R (Bool × Nat × Nat) := do
  let b ← rd a first last p
  let tmp := (b % 256 + 256 - 0x80) % 256
  if tmp ≤ 0x3F then do
    let p' ← mkptr first last (p + 1)               -- ++first
    pure (true, (c <<< 6) ||| tmp, p')
  else pure (false, 0xFFFD, p)

/-- `(c = (c << 6) | tmp, ++first != last) && <last trail byte>` -/
def u8SecondToLast (a : Array Nat) (first last p c tmp : Nat) : R (Bool × Nat × Nat) := do
  let c := (c <<< 6) ||| tmp
  let p ← mkptr first last (p + 1)                  -- ++first
  if p ≠ last then u8LastTrail a first last p c     -- … != last
  else pure (false, 0xFFFD, p)

/-- url_utf::read_code_point(const char*& first, const char* last, uint32_t& c)   (url_utf.h:118-150)
    PRECONDITION (callers: `it < last` / `it != last`): `first < last`.
    Result `(ok, c, first')`; on failure the C++ leaves `c` unspecified (read_utf_char substitutes
    U+FFFD, so does the model). -/
def readU8 (a : Array Nat) (first last : Nat) (slack : Nat := 0) : R (Bool × Nat × Nat) := do
  let c0 ← rd a first last first                    -- c = uint8_t(*first++)   [precondition]
  let c := c0 % 256
  let p ← mkptr first last (first + 1)              -- … first++
  if c &&& 0x80 = 0 then pure (true, c, p)
  else if p = last + slack then pure (false, 0xFFFD, p)     -- `first != last &&`   (slack = 0)
  else if c ≥ 0xE0 then
    if c < 0xF0 then do
      let c := c &&& 0xF
      idx 16 c                                      -- k_U8_LEAD3_T1_BITS[c &= 0xF]
      let b1 ← rd a first last p                    -- tmp = uint8_t(*first)   [first != last]
      let tmp := b1 % 256
      if lead3T1Bits.getD c 0 &&& (1 <<< (tmp >>> 5)) ≠ 0 then
        u8SecondToLast a first last p c (tmp &&& 0x3F)
      else pure (false, 0xFFFD, p)
    else
      let c := c - 0xF0
      if c ≤ 4 then do                              -- `(c -= 0xF0) <= 4 &&`
        let b1 ← rd a first last p                  -- tmp = uint8_t(*first)   [first != last]
        let tmp := b1 % 256
        idx 16 (tmp >>> 4)                          -- k_U8_LEAD4_T1_BITS[tmp >> 4]
        if lead4T1Bits.getD (tmp >>> 4) 0 &&& (1 <<< c) ≠ 0 then
          let c := (c <<< 6) ||| (tmp &&& 0x3F)
          let p ← mkptr first last (p + 1)          -- `++first != last &&`
          if p ≠ last then do
            let b2 ← rd a first last p              -- uint8_t(*first) - 0x80  [++first != last]
            let tmp := (b2 % 256 + 256 - 0x80) % 256
            if tmp ≤ 0x3F then u8SecondToLast a first last p c tmp
            else pure (false, 0xFFFD, p)
          else pure (false, 0xFFFD, p)
        else pure (false, 0xFFFD, p)
      else pure (false, 0xFFFD, p)
  else if c ≥ 0xC2 then u8LastTrail a first last p (c &&& 0x1F)   -- [first != last]
  else pure (false, 0xFFFD, p)

/-- url_utf::read_code_point(const char16_t*&, …)   (url_utf.h:195-207); precondition `first < last` -/
def readU16 (a : Array Nat) (first last : Nat) (slack : Nat := 0) : R (Bool × Nat × Nat) := do
  let c ← rd a first last first                     -- c = *first++            [precondition]
  let p ← mkptr first last (first + 1)              -- … first++
  if c &&& 0xFFFFF800 = 0xD800 then                 -- u16_is_surrogate(c)
    if c &&& 0x400 = 0 ∧ p ≠ last + slack then do   -- u16_is_surrogate_lead(c) && first != last &&   (slack = 0)
      let t ← rd a first last p                     -- u16_is_trail(*first)    [first != last]
      if t &&& 0xFFFFFC00 = 0xDC00 then do
        let t ← rd a first last p                   -- u16_get_supplementary(c, *first)
        let p' ← mkptr first last (p + 1)           -- ++first
        pure (true, (c <<< 10) + t - ((0xD800 <<< 10) + 0xDC00 - 0x10000), p')
      else pure (false, 0xFFFD, p)
    else pure (false, 0xFFFD, p)
  else pure (true, c, p)

/-- url_utf::read_code_point(const char32_t*&, …): a single read; precondition `first < last` -/
def readU32 (a : Array Nat) (first last : Nat) : R (Bool × Nat × Nat) := do
  let c ← rd a first last first                     -- c = *first++            [precondition]
  let p ← mkptr first last (first + 1)              -- … first++
  pure (decide (c < 0xD800) || (decide (c > 0xDFFF) && decide (c ≤ 0x10FFFF)), c, p)

def readChar : Enc → Array Nat → Nat → Nat → R (Bool × Nat × Nat)
  | .u8 => fun a first last => readU8 a first last
  | .u16 => fun a first last => readU16 a first last
  | .u32 => readU32

/-- read_utf_char(it, last): `(code point or U+FFFD, it')`; the callee gets the range `[it, last)` -/
def readUtfChar (e : Enc) (a : Array Nat) (first last it : Nat) : R (Nat × Nat) := do
  sub first last it last
  let (ok, cp, it') ← readChar e a it last
  pure (if ok then cp else 0xFFFD, it')

/-! ## 3  src/url_utf.cpp  check_fix_utf8, compare_by_code_units -/

def replUtf8 : List Nat := [0xEF, 0xBF, 0xBD]

/-- url_utf::check_fix_utf8(std::string& str)   (src/url_utf.cpp:37-68)
    `first = str.data()`, `last = first + str.length()`; returns the new content of `str`.
    `buff.append(p, q)` reads the range `[p, q)`: checked with `sub`. -/
def checkFixUtf8 (a : Array Nat) (first last : Nat) (slack : Nat := 0) : R (List Nat) := do
  -- while (it != last && read_code_point(it, last, code_point)) ptr = it;
  let (ptr, it) ← iter (fun (s : Nat × Nat) => do
      let (ptr, it) := s
      if it = last + slack then pure (.inr (ptr, it))  -- it != last   (slack = 0)
      else do
        sub first last it last                      -- read_code_point(it, last, …)  [it != last]
        let (ok, _, it') ← readU8 a it last
        if ok then pure (.inl (it', it')) else pure (.inr (ptr, it'))) (last - first + 1) (first, first)
  if ptr ≠ last then do
    sub first last first ptr                        -- buff.append(first, ptr)
    let buff := (a.extract first ptr).toList ++ replUtf8
    -- bgn = it; ptr = it; while (it != last) { … }
    let (buff, bgn, ptr) ← iter (fun (s : List Nat × Nat × Nat × Nat) => do
        let (buff, bgn, ptr, it) := s
        if it = last then pure (.inr (buff, bgn, ptr))
        else do
          sub first last it last                    -- read_code_point(it, last, …)  [it != last]
          let (ok, _, it') ← readU8 a it last
          if ok then pure (.inl (buff, bgn, it', it'))
          else do
            sub first last bgn ptr                  -- buff.append(bgn, ptr)
            pure (.inl (buff ++ (a.extract bgn ptr).toList ++ replUtf8, it', it', it')))
      (last - first + 1) (buff, it, it, it)
    sub first last bgn ptr                          -- buff.append(bgn, ptr)
    pure (buff ++ (a.extract bgn ptr).toList)
  else pure (a.extract first last).toList

/-- url_utf::compare_by_code_units(first1, last1, first2, last2)   (src/url_utf.cpp:70-104),
    including its `assert(detail::u16_is_lead(cu1))` -/
def compareByCodeUnits (a1 : Array Nat) (first1 last1 : Nat) (a2 : Array Nat) (first2 last2 : Nat)
    (slack : Nat := 0) : R Int :=
  iter (fun (s : Nat × Nat) => do
    let (it1, it2) := s
    if it1 ≠ last1 ∧ it2 ≠ last2 + slack then do    -- while (it1 != last1 && it2 != last2)   (slack = 0)
      let c1 ← rd a1 first1 last1 it1               -- *it1   [it1 != last1]
      let c2 ← rd a2 first2 last2 it2               -- *it2   [it2 != last2]
      let c1 := c1 % 256
      let c2 := c2 % 256
      if c1 < 0x80 ∨ c2 < 0x80 then
        if c1 = c2 then do
          let it1' ← mkptr first1 last1 (it1 + 1)     -- ++it1,
          let it2' ← mkptr first2 last2 (it2 + 1)     -- ++it2
          pure (.inl (it1', it2'))
        else pure (.inr ((c1 : Int) - (c2 : Int)))
      else do
        let (cp1, it1) ← readUtfChar .u8 a1 first1 last1 it1
        let (cp2, it2) ← readUtfChar .u8 a2 first2 last2 it2
        if cp1 = cp2 then pure (.inl (it1, it2))
        else
          let cu1 := if cp1 ≤ 0xFFFF then cp1 else (cp1 >>> 10) + 0xD7C0
          let cu2 := if cp2 ≤ 0xFFFF then cp2 else (cp2 >>> 10) + 0xD7C0
          if cu1 = cu2 then do
            chk (cu1 &&& 0xFFFFFC00 = 0xD800)         -- assert(detail::u16_is_lead(cu1))
            pure (.inr (((cp1 &&& 0x3FF : Nat) : Int) - ((cp2 &&& 0x3FF : Nat) : Int)))
          else pure (.inr ((cu1 : Int) - (cu2 : Int)))
    else pure (.inr (if it1 ≠ last1 then 1 else if it2 ≠ last2 then -1 else 0)))
  (last1 - first1 + 1) (first1, first2)

/-! ## 4  url_percent_encode.h  decode_hex_to_byte, append_percent_decoded -/

/-- detail::decode_hex_to_byte(first, last, unescaped_value)   (url_percent_encode.h:428-441):
    `some (value, first + 2)` on success, `none` (first unchanged) otherwise -/
def decodeHexToByte (a : Array Nat) (first last : Nat) (minLen : Nat := 2) : R (Option (Nat × Nat)) :=
  if last - first < minLen then pure none           -- `last - first < 2 ||`   (minLen = 2)
  else do
    let c0 ← rd a first last first                  -- !is_hex_char(first[0])   [last - first >= 2]
    if !isHex c0 then pure none else do
    let c1 ← rd a first last (first + 1)            -- !is_hex_char(first[1])   [last - first >= 2]
    if !isHex c1 then pure none else do
    let uc1 := c0 % 256                             -- static_cast<unsigned char>(first[0])
    let uc2 := c1 % 256                             -- static_cast<unsigned char>(first[1])
    idx 8 (uc1 / 0x20)                              -- kCharToHexLookup[c / 0x20]
    idx 8 (uc2 / 0x20)
    let first' ← mkptr first last (first + 2)       -- first += 2
    pure (some (hexVal uc1 * 16 + hexVal uc2, first'))

/-- inner loop of append_percent_decoded: `while (it != last && *it == '%') { ++it; … }` -/
def pctRun (a : Array Nat) (first last : Nat) : Nat → Nat × List Nat → R (Nat × List Nat) :=
  iter (fun (s : Nat × List Nat) => do
    let (it, buff) := s
    if it = last then pure (.inr (it, buff)) else do  -- it != last &&
    let c ← rd a first last it                        -- *it == '%'   [it != last]
    if c ≠ 0x25 then pure (.inr (it, buff)) else do
    let it ← mkptr first last (it + 1)                -- ++it; // skip '%'
    sub first last it last                            -- decode_hex_to_byte(it, last, uc8)
    match ← decodeHexToByte a it last with
    | some (uc8, it) => pure (.inl (it, buff ++ [uc8]))
    | none => pure (.inl (it, buff ++ [0x25])))

/-- detail::append_percent_decoded(str, output)   (url_percent_encode.h:507-547), any CharT -/
def appendPercentDecoded (e : Enc) (a : Array Nat) (first last : Nat) (back : Nat := 1) : R (List Nat) :=
  iter (fun (s : Nat × List Nat) => do
    let (it, out) := s
    if it = last then pure (.inr out) else do         -- for (it = first; it != last;)
    let uch ← rd a first last it                      -- uch = *it; ++it   [it != last]
    let it ← mkptr first last (it + 1)
    if uch < 0x80 then
      if uch ≠ 0x25 then pure (.inl (it, out ++ [uch]))
      else do
        sub first last it last                        -- decode_hex_to_byte(it, last, uc8)
        match ← decodeHexToByte a it last with
        | some (uc8, it) =>
          if uc8 < 0x80 then pure (.inl (it, out ++ [uc8]))
          else do
            let (it, buff) ← pctRun a first last (last - it + 1) (it, [uc8])
            let fixed ← checkFixUtf8 buff.toArray 0 buff.length   -- check_fix_utf8(buff_utf8)
            pure (.inl (it, out ++ fixed))
        | none => pure (.inl (it, out ++ [0x25]))
    else do
      -- --it; read_char_append_utf8(it, last, output)   (back = 1)
      let it ← mkptrSub first last it back
      let (cp, it) ← readUtfChar e a first last it
      pure (.inl (it, out ++ encodeUtf8Char cp)))
  (last - first + 1) (first, [])

/-! ## 5  util.h  has_xn_label -/

/-- util::has_xn_label(first, last)   (util.h:168-181) -/
def hasXnLabel (a : Array Nat) (first last : Nat) (minLen : Nat := 4) : R Bool :=
  if last - first ≥ minLen then do                   -- if (last - first >= 4)   (minLen = 4)
    let end_ ← mkptrSub first last last 4            -- const auto end = last - 4;
    iter (fun (p : Nat) => do                        -- for (auto p = first; ; ++p)
      let c0 ← rd a first last p                     -- (p[0] | 0x20) == 'x'   [p <= end = last - 4]
      let hit ← (
        if c0 ||| 0x20 = 0x78 then do
          let c1 ← rd a first last (p + 1)           -- (p[1] | 0x20) == 'n'
          if c1 ||| 0x20 = 0x6E then do
            let c2 ← rd a first last (p + 2)         -- p[2] == '-'
            if c2 = 0x2D then do
              let c3 ← rd a first last (p + 3)       -- p[3] == '-'
              pure (c3 == 0x2D)
            else pure false
          else pure false
        else pure false : R Bool)
      if hit then pure (.inr true) else do
      -- p = char_traits::find(p, end - p, '.'); if (p == nullptr) break;
      match ← findCh a first last 0x2E (end_ - p) p with
      | none => pure (.inr false)
      | some q => do
        let p' ← mkptr first last (q + 1)            -- ++p  // skip '.'
        pure (.inl p'))
      (last - first + 1) first
  else pure false

/-! ## 6  url_ip.h -/

/-- hostname_ends_in_a_number(first, last)   (url_ip.h:25-48) -/
def endsInNumber (a : Array Nat) (first last : Nat) (minLen : Nat := 2) : R Bool :=
  if first ≠ last then do                            -- if (first != last)
    let c ← rdPrev a first last last                 -- *(last - 1) == '.'   [first != last]
    let last' ← (if c = 0x2E then mkptrSub first last last 1 else pure last : R Nat)   -- --last
    -- while (start_of_label != first && *(start_of_label - 1) != '.') --start_of_label;
    let sol ← iter (fun (sol : Nat) =>
        if sol ≠ first then do
          let c ← rdPrev a first last sol            -- *(start_of_label - 1)   [start_of_label != first]
          if c ≠ 0x2E then do
            let sol' ← mkptrSub first last sol 1     -- --start_of_label
            pure (.inl sol')
          else pure (.inr sol)
        else pure (.inr sol)) (last - first + 1) last'
    let len := last' - sol
    if len ≠ 0 then do
      let is0x ← (
        if len ≥ minLen then do                      -- len >= 2 &&   (minLen = 2)
          let c0 ← rd a first last sol               -- start_of_label[0] == '0'   [len >= 2]
          if c0 = 0x30 then do
            let c1 ← rd a first last (sol + 1)       -- start_of_label[1] == 'X' || … == 'x'   [len >= 2]
            pure (c1 == 0x58 || c1 == 0x78)
          else pure false
        else pure false : R Bool)
      if is0x then do
        let sol2 ← mkptr first last (sol + 2)        -- start_of_label + 2
        sub first last sol2 last'                    -- std::all_of(start_of_label + 2, last, is_hex_char)
        allOf a first last isHex (last' - sol2) sol2
      else do
        sub first last sol last'                     -- std::all_of(start_of_label, last, is_ascii_digit)
        allOf a first last isDigit (last' - sol) sol
    else pure false
  else pure false

/-- ipv4_parse_number(first, last, number)   (url_ip.h:58-125): `none` = error -/
def ipv4ParseNumber (a : Array Nat) (first last : Nat) (oneLen : Nat := 1) : R (Option Nat) :=
  if first = last then pure none else do             -- if (first == last) return error
  let c0 ← rd a first last first                     -- first[0] == '0'   [first != last]
  let pre ← (
    if c0 = 0x30 then
      if last - first = oneLen then pure (.inl (some 0))  -- len == 1   (oneLen = 1)
      else do
        let c1 ← rd a first last (first + 1)         -- first[1]   [len >= 2]
        let rp : Nat × Nat := if c1 = 0x58 ∨ c1 = 0x78 then (16, first + 2) else (8, first + 1)
        let p0 ← mkptr first last rp.2               -- first += 2;  resp.  first += 1;
        -- while (first < last && first[0] == '0') ++first;
        let p ← iter (fun (p : Nat) =>
            if p < last then do
              let c ← rd a first last p              -- first[0]   [first < last]
              if c = 0x30 then do
                let p' ← mkptr first last (p + 1)    -- ++first
                pure (.inl p')
              else pure (.inr p)
            else pure (.inr p)) (last - first + 1) p0
        pure (.inr (rp.1, p))
    else pure (.inr (10, first)) : R ((Option Nat) ⊕ (Nat × Nat)))
  match pre with
  | .inl r => pure r
  | .inr (radix, p) =>
    if p = last then pure (some 0)                   -- if (first == last) number = 0
    else if last - p > 11 then pure none
    else do
      let r ← iter (fun (s : Nat × Nat) => do
          let (it, num) := s
          if it = last then pure (.inr (some num)) else do   -- for (it = first; it != last; ++it)
          let ch ← rd a first last it                        -- *it   [it != last]
          if radix ≤ 10 then
            if ch > 0x30 - 1 + radix ∨ ch < 0x30 then pure (.inr none)
            else do
              let it' ← mkptr first last (it + 1)            -- ++it
              pure (.inl (it', (num * radix + (ch - 0x30)) % 2^64))
          else
            let uch := ch % 256
            if !isHex uch then pure (.inr none) else do
            idx 8 (uch / 0x20)                               -- kCharToHexLookup[c / 0x20]
            let it' ← mkptr first last (it + 1)              -- ++it
            pure (.inl (it', (num * radix + hexVal uch) % 2^64)))
        (last - p + 1) (p, 0)
      match r with
      | none => pure none
      | some num => if num > 0xFFFFFFFF then pure none else pure (some num)

/-- the splitting loop of ipv4_parse (url_ip.h:150-168): `some (dot_count, part)` or `none` = error.
    Local `const CharT* part[6]`. -/
def ipv4Scan (a : Array Nat) (first last : Nat) (maxDots : Nat := 4) : R (Option (Nat × Loc)) := do
  let part ← (Loc.new 6).wr 0 first                  -- part[0] = first
  iter (fun (s : Nat × Nat × Loc) => do              -- for (it = first; it != last; ++it)
      let (it, dotCount, part) := s
      if it = last then pure (.inr (some (dotCount, part))) else do
      let uc ← rd a first last it                    -- *it   [it != last]
      if uc = 0x2E then
        if dotCount = maxDots then pure (.inr none) else do    -- if (dot_count == 4) return   (maxDots = 4)
        let pd ← part.rd dotCount                              -- part[dot_count] == it
        if pd = it then pure (.inr none) else do
        let nx ← mkptr first last (it + 1)                     -- it + 1
        let part ← part.wr (dotCount + 1) nx                   -- part[++dot_count] = it + 1   [dot_count != 4]
        let it' ← mkptr first last (it + 1)                    -- ++it
        pure (.inl (it', dotCount + 1, part))
      else if !Spec.ipv4Char uc then pure (.inr none)
      else do
        let it' ← mkptr first last (it + 1)                    -- ++it
        pure (.inl (it', dotCount, part)))
    (last - first + 1) (first, 0, part)

/-- steps 7, 8 and 14.1 of ipv4_parse (url_ip.h:192-205) on the local `uint32_t number[4]` -/
def ipv4Combine (number : Loc) (partCount : Nat) : R (Option Nat) := do
  -- for (ind = 0; ind < part_count - 1; ++ind) if (number[ind] > 255) return
  let big ← iter (fun (ind : Nat) =>
      if ind + 1 < partCount then do
        let n ← number.rd ind                        -- number[ind]   [ind < part_count - 1]
        if n > 255 then pure (.inr true) else pure (.inl (ind + 1))
      else pure (.inr false)) (partCount + 1) 0
  if big then pure none else do
  let ipv4 ← number.rd (partCount - 1)               -- ipv4 = number[part_count - 1]
  if ipv4 > (0xFFFFFFFF >>> (8 * (partCount - 1))) then pure none else do
  -- for (counter = 0; counter < part_count - 1; ++counter) ipv4 += number[counter] << (8 * (3 - counter));
  let ipv4 ← iter (fun (s : Nat × Nat) => do
      let (counter, ipv4) := s
      if counter + 1 < partCount then do
        let n ← number.rd counter                    -- number[counter]   [counter < part_count - 1]
        pure (.inl (counter + 1, (ipv4 + (n <<< (8 * (3 - counter)))) % 2^32))
      else pure (.inr ipv4)) (partCount + 1) (0, ipv4)
  pure (some ipv4)

/-- ipv4_parse(first, last, ipv4)   (url_ip.h:135-208, as of commit b0c7a48): the end of a part is
    `part[ind + 1] - 1` for `ind < dot_count` and `last` for the last part -/
def ipv4Parse (a : Array Nat) (first last : Nat) (maxDots : Nat := 4) : R (Option Nat) :=
  if first = last then pure none else do             -- if (first == last) return
  match ← ipv4Scan a first last maxDots with
  | none => pure none
  | some (dotCount, part) =>
    let partCount := dotCount + 1                    -- int part_count = dot_count + 1;
    let dropLast ← (
      if dotCount > 0 then do                        -- if (dot_count > 0 && part[dot_count] == last)
        let pd ← part.rd dotCount
        pure (decide (pd = last))
      else pure false : R Bool)
    let partCount := if dropLast then partCount - 1 else partCount   -- --part_count;
    if partCount > 4 then pure none else do          -- if (part_count > 4) return
    let numbers ← iter (fun (s : Nat × Loc) => do    -- for (ind = 0; ind < part_count; ++ind)
        let (ind, number) := s
        if ind < partCount then do
          -- part_end = ind < dot_count ? part[ind + 1] - 1 : last;
          let partEnd ← (
            if ind < dotCount then do
              let nx ← part.rd (ind + 1)             -- part[ind + 1]   [ind < dot_count <= 4]
              mkptrSub first last nx 1               -- … - 1
            else pure last : R Nat)
          let f ← part.rd ind                        -- part[ind]
          sub first last f partEnd                   -- ipv4_parse_number(part[ind], part_end, number[ind])
          match ← ipv4ParseNumber a f partEnd with
          | none => pure (.inr none)
          | some n => do
            let number ← number.wr ind n             -- number[ind]   [ind < part_count <= 4]
            pure (.inl (ind + 1, number))
        else pure (.inr (some number))) (partCount + 1) (0, Loc.new 4)
    match numbers with
    | none => pure none
    | some number => ipv4Combine number partCount

/-- ipv4_parse BEFORE commit b0c7a48 (finding: a pointer two past the end of the input is formed).
    Same scan; then the sentinel `part[part_count] = last + 1` "so that part[part_count] - 1 points to
    the end of the last part", and every part ends at `part[ind + 1] - 1`. -/
def ipv4ParseOldSentinel (a : Array Nat) (first last : Nat) : R (Option Nat) :=
  if first = last then pure none else do
  match ← ipv4Scan a first last with
  | none => pure none
  | some (dotCount, part) =>
    let partCount := dotCount + 1
    let dropLast ← (
      if dotCount > 0 then do                        -- if (dot_count > 0 && part[dot_count] == last)
        let pd ← part.rd dotCount
        pure (decide (pd = last))
      else pure false : R Bool)
    let pp ← (
      if dropLast then pure (partCount - 1, part)    --   --part_count;
      else do                                        -- else
        let sentinel ← mkptr first last (last + 1)   --   … last + 1          <== two past the end
        let part ← part.wr partCount sentinel        --   part[part_count] = last + 1;
        pure (partCount, part) : R (Nat × Loc))
    let partCount := pp.1
    let part := pp.2
    if partCount > 4 then pure none else do
    let numbers ← iter (fun (s : Nat × Loc) => do
        let (ind, number) := s
        if ind < partCount then do
          let f ← part.rd ind                        -- part[ind]
          let nx ← part.rd (ind + 1)                 -- part[ind + 1] - 1
          let l ← mkptrSub first last nx 1
          sub first last f l
          match ← ipv4ParseNumber a f l with
          | none => pure (.inr none)
          | some n => do
            let number ← number.wr ind n
            pure (.inl (ind + 1, number))
        else pure (.inr (some number))) (partCount + 1) (0, Loc.new 4)
    match numbers with
    | none => pure none
    | some number => ipv4Combine number partCount

/-! ## 7  url.h  Windows-drive tests, has_dot_dot_segment, is_unc_path, parse_path lambdas;
         url_search_params.h  do_parse -/

/-- detail::starts_with_windows_drive(pointer, last)   (url.h:1032-1045, the `#if 1` variant):
    the length test comes FIRST, `pointer[0]`, `pointer[1]` are read after it because of `&&`. -/
def startsWithWindowsDrive (a : Array Nat) (first last : Nat) (minLen : Nat := 2) : R Bool := do
  let length := last - first
  -- (length == 2 || (length > 2 && is_special_authority_end_char(pointer[2]))) &&
  let lenOk ← (
    if length = 2 then pure true
    else if length > minLen then do                  -- length > 2   (minLen = 2)
      let c2 ← rd a first last (first + 2)           -- pointer[2]   [length > 2]
      pure (isSpecialAuthorityEnd c2)
    else pure false : R Bool)
  if lenOk then do
    let c0 ← rd a first last first                   -- pointer[0]   [length >= 2]
    let c1 ← rd a first last (first + 1)             -- pointer[1]   [length >= 2]
    pure (isWindowsDrive c0 c1)
  else pure false

/-- detail::pathname_has_windows_drive(string_view pathname)   (url.h:1048-1053) -/
def pathnameHasWindowsDrive (a : Array Nat) (first last : Nat) (minLen : Nat := 3) : R Bool := do
  let length := last - first
  -- (pathname.length() == 3 || (pathname.length() > 3 && is_windows_slash(pathname[3]))) &&
  let lenOk ← (
    if length = 3 then pure true
    else if length > minLen then do                  -- length > 3   (minLen = 3)
      let c3 ← rd a first last (first + 3)           -- pathname[3]   [length > 3]
      pure (isWindowsSlash c3)
    else pure false : R Bool)
  if lenOk then do
    let c0 ← rd a first last first                   -- is_windows_slash(pathname[0]) &&   [length >= 3]
    if isWindowsSlash c0 then do
      let c1 ← rd a first last (first + 1)           -- pathname[1]   [length >= 3]
      let c2 ← rd a first last (first + 2)           -- pathname[2]   [length >= 3]
      pure (isNormalizedWindowsDrive c1 c2)
    else pure false
  else pure false

/-- detail::is_windows_drive_absolute_path(pointer, last)   (url.h:1059-1064): `some (pointer + 3)` -/
def isWindowsDriveAbsolutePath (a : Array Nat) (first last : Nat) (minLen : Nat := 2) : R (Option Nat) :=
  if last - first > minLen then do                   -- last - pointer > 2 &&   (minLen = 2)
    let c0 ← rd a first last first                   -- pointer[0]   [last - pointer > 2]
    let c1 ← rd a first last (first + 1)             -- pointer[1]
    if isWindowsDrive c0 c1 then do
      let c2 ← rd a first last (first + 2)           -- is_windows_slash(pointer[2])
      if isWindowsSlash c2 then do
        let p ← mkptr first last (first + 3)         -- ? pointer + 3 : nullptr
        pure (some p)
      else pure none
    else pure none
  else pure none

/-- detail::has_dot_dot_segment(first, last, is_slash)   (url.h:3098-3114) -/
def hasDotDotSegment (isSl : Nat → Bool) (a : Array Nat) (first last : Nat) (tailLen : Nat := 2) : R Bool :=
  if last - first ≥ 2 then do                        -- if (last - first >= 2)
    let end_ ← mkptrSub first last last 1            -- const auto* end = last - 1;
    iter (fun (ptr : Nat) => do
      -- while ((ptr = char_traits::find(ptr, end - ptr, '.')) != nullptr)
      match ← findCh a first last 0x2E (end_ - ptr) ptr with
      | none => pure (.inr false)
      | some ptr => do
        let c1 ← rd a first last (ptr + 1)           -- ptr[1] == '.' &&   [ptr < end = last - 1]
        let hit ← (
          if c1 = 0x2E then do
            let left ← (
              if ptr = first then pure true          -- (ptr == first ||
              else do
                let c ← rdPrev a first last ptr      --  is_slash(*(ptr - 1))) &&   [ptr != first]
                pure (isSl c) : R Bool)
            if left then
              if last - ptr = tailLen then pure true -- (last - ptr == 2 ||   (tailLen = 2)
              else do
                let c ← rd a first last (ptr + 2)    --  is_slash(ptr[2]))   [last - ptr != 2]
                pure (isSl c)
            else pure false
          else pure false : R Bool)
        if hit then pure (.inr true) else do
        let ptr ← mkptr first last (ptr + 2)         -- ptr += 2;   (may pass `end`, never `last`)
        if ptr ≥ end_ then pure (.inr false)         -- if (ptr >= end) break;
        else pure (.inl ptr))
      (last - first + 1) first
  else pure false

/-- the two `switch (pcend - start)` blocks of is_unc_path -/
def uncBadComponent (a : Array Nat) (first last start pcend count : Nat) : R Bool :=
  if count = 1 then
    if pcend - start = 1 then do                     -- case 1:
      let c ← rd a first last start                  -- start[0] == '?' || start[0] == '.'
      pure (c == 0x3F || c == 0x2E)
    else if pcend - start = 2 then do                -- case 2:
      let c0 ← rd a first last start                 -- start[0]
      let c1 ← rd a first last (start + 1)           -- start[1]
      pure (isWindowsDrive c0 c1)
    else pure false
  else if count = 2 then
    if pcend - start = 1 then do                     -- case 1:
      let c ← rd a first last start                  -- start[0] == '.'
      pure (c == 0x2E)
    else if pcend - start = 2 then do                -- case 2:
      let c0 ← rd a first last start                 -- start[0] == '.' &&
      if c0 = 0x2E then do
        let c1 ← rd a first last (start + 1)         -- start[1] == '.'
        pure (c1 == 0x2E)
      else pure false
    else pure false
  else pure false

/-- detail::is_unc_path(first, last)   (url.h:3032-3089): `some end_of_share_name` or `none` -/
def isUncPath (a : Array Nat) (first last : Nat) (slack : Nat := 0) : R (Option Nat) :=
  iter (fun (s : Nat × Nat × Option Nat) => do
    let (start, count, eos) := s
    if start = last then pure (.inr eos) else do     -- while (start != last)
    sub first last start last                        -- std::find_if(start, last, is_windows_slash)
    let pcend ← findIf a first last isWindowsSlash (last - start) start
    if start = pcend then pure (.inr none) else do
    sub first last start pcend                       -- std::find(start, pcend, '\0') != pcend
    match ← findCh a first last 0 (pcend - start) start with
    | some _ => pure (.inr none)
    | none => do
      let count := count + 1                         -- ++path_components_count
      let bad ← uncBadComponent a first last start pcend count
      if bad then pure (.inr none) else
      let eos := if count = 2 then some pcend else eos
      if pcend = last + slack then pure (.inr eos)   -- if (pcend == last) break;   (slack = 0)
      else do
        let start' ← mkptr first last (pcend + 1)    -- start = pcend + 1
        pure (.inl (start', count, eos)))
  (last - first + 1) (first, 0, none)

/-- parse_path lambda `escaped_dot(pointer)`   (url.h:2338-2341); the callers guarantee three units -/
def escapedDot (a : Array Nat) (first last p : Nat) : R Bool := do
  let c0 ← rd a first last p                         -- pointer[0] == '%' &&
  if c0 = 0x25 then do
    let c1 ← rd a first last (p + 1)                 -- pointer[1] == '2' &&
    if c1 = 0x32 then do
      let c2 ← rd a first last (p + 2)               -- (pointer[2] | 0x20) == 'e'
      pure ((c2 ||| 0x20) == 0x65)
    else pure false
  else pure false

/-- parse_path lambda `double_dot(pointer, len)` with `pointer = first`, `len = last - first`
    (`len = end_of_segment - pointer`, url.h:2342-2354) -/
def doubleDot (a : Array Nat) (first last : Nat) (midLen : Nat := 4) : R Bool :=
  let len := last - first
  if len = 2 then do                                 -- case 2: pointer[0] == '.' && pointer[1] == '.'
    let c0 ← rd a first last first
    if c0 = 0x2E then do
      let c1 ← rd a first last (first + 1)
      pure (c1 == 0x2E)
    else pure false
  else if len = midLen then do                       -- case 4:   (midLen = 4)
    let c0 ← rd a first last first                   -- (pointer[0] == '.' && escaped_dot(pointer + 1)) ||
    let l ← (
      if c0 = 0x2E then do
        let p1 ← mkptr first last (first + 1)        -- pointer + 1
        escapedDot a first last p1
      else pure false : R Bool)
    if l then pure true else do
    let e ← escapedDot a first last first            -- (escaped_dot(pointer) && pointer[3] == '.')
    if e then do
      let c3 ← rd a first last (first + 3)
      pure (c3 == 0x2E)
    else pure false
  else if len = 6 then do                            -- case 6: escaped_dot(pointer) && escaped_dot(pointer + 3)
    let e ← escapedDot a first last first
    if e then do
      let p3 ← mkptr first last (first + 3)          -- pointer + 3
      escapedDot a first last p3
    else pure false
  else pure false

/-- parse_path lambda `single_dot(pointer, len)`   (url.h:2355-2361) -/
def singleDot (a : Array Nat) (first last : Nat) (escLen : Nat := 3) : R Bool :=
  let len := last - first
  if len = 1 then do                                 -- case 1: pointer[0] == '.'
    let c0 ← rd a first last first
    pure (c0 == 0x2E)
  else if len = escLen then escapedDot a first last first   -- case 3: escaped_dot(pointer)   (escLen = 3)
  else pure false

/-- state of the do_parse loop: `it`, `start`, `pval == &value`, `name`, `value`, `lst` -/
abbrev ParseSt := Nat × Nat × Bool × List Nat × List Nat × List (List Nat × List Nat)

/-- url_search_params::do_parse(rem_qmark, query)   (url_search_params.h:676-738) on the bytes
    `[first, last)` of `str_query` -/
def doParse (remQmark : Bool) (a : Array Nat) (first last : Nat) (minDist : Nat := 2) :
    R (List (List Nat × List Nat)) := do
  -- if (rem_qmark && b != e && *b == '?') ++b;
  let b ← (
    if remQmark ∧ first ≠ last then do
      let c ← rd a first last first                  -- *b   [b != e]
      if c = 0x3F then mkptr first last (first + 1) else pure first   -- ++b
    else pure first : R Nat)
  let flush (start it : Nat) (name value : List Nat) (lst : List (List Nat × List Nat)) :
      R (List (List Nat × List Nat)) :=
    if start ≠ it then do
      let n ← checkFixUtf8 name.toArray 0 name.length     -- url_utf::check_fix_utf8(name)
      let v ← checkFixUtf8 value.toArray 0 value.length   -- url_utf::check_fix_utf8(value)
      pure (lst ++ [(n, v)])
    else pure lst
  let (start, name, value, lst) ← iter (fun (s : ParseSt) => do
      let (it, start, inValue, name, value, lst) := s
      -- `pval->push_back(c); break;` followed by the `++it` of the for statement
      let push (c : Nat) : R (ParseSt ⊕ (Nat × List Nat × List Nat × List (List Nat × List Nat))) := do
        let it' ← mkptr first last (it + 1)          -- ++it
        if inValue then pure (.inl (it', start, inValue, name, value ++ [c], lst))
        else pure (.inl (it', start, inValue, name ++ [c], value, lst))
      if it = last then pure (.inr (start, name, value, lst)) else do   -- for (it = b; it != e; ++it)
      let c ← rd a first last it                     -- switch (*it)   [it != e]
      if c = 0x3D then
        if !inValue then do
          let it' ← mkptr first last (it + 1)        -- ++it
          pure (.inl (it', start, true, name, value, lst))
        else push c
      else if c = 0x26 then do
        let lst ← flush start it name value lst
        let start' ← mkptr first last (it + 1)       -- start = it + 1; // skip '&'
        let it' ← mkptr first last (it + 1)          -- ++it
        pure (.inl (it', start', false, [], [], lst))
      else if c = 0x2B then push 0x20
      else if c = 0x25 then
        if last - it > minDist then do               -- if (std::distance(it, e) > 2)   (minDist = 2)
          let itc ← mkptr first last (it + 1)        -- auto itc = it; … ++itc
          let uc1 ← rd a first last itc              -- *(++itc)   [distance > 2]
          let itc ← mkptr first last (itc + 1)       -- … ++itc
          let uc2 ← rd a first last itc              -- *(++itc)   [distance > 2]
          let uc1 := uc1 % 256
          let uc2 := uc2 % 256
          if isHex uc1 && isHex uc2 then do
            idx 8 (uc1 / 0x20)                       -- kCharToHexLookup[c / 0x20]
            idx 8 (uc2 / 0x20)
            let v := (hexVal uc1 * 16 + hexVal uc2) % 256
            let it' ← mkptr first last (itc + 1)     -- it = itc; (then ++it of the for statement)
            if inValue then pure (.inl (it', start, inValue, name, value ++ [v], lst))
            else pure (.inl (it', start, inValue, name ++ [v], value, lst))
          else push c
        else push c
      else push c)
    (last - first + 1) (b, b, false, [], [], [])
  flush start last name value lst

/-! ## 6 (cont.)  url_ip.h  ipv6_parse -/

/-- detail::get_hex_number<uint16_t>(pointer, last)   (url_ip.h:221-229): `(pointer', value)` -/
def getHexNumber (a : Array Nat) (first last : Nat) : R (Nat × Nat) :=
  iter (fun (s : Nat × Nat) => do
    let (p, value) := s
    if p = last then pure (.inr (p, value)) else do  -- while (pointer != last &&
    let c ← rd a first last p                        --   is_hex_char(*pointer))   [pointer != last]
    if isHex c then do
      let uc := c % 256
      idx 8 (uc / 0x20)                              -- kCharToHexLookup[c / 0x20]
      let p' ← mkptr first last (p + 1)              -- ++pointer
      pure (.inl (p', (value * 0x10 + hexVal uc) % 65536))
    else pure (.inr (p, value)))
  (last - first + 1) (first, 0)

/-- what the part of the main loop after get_hex_number decides -/
inductive V6Next where
  | fail                  -- return error
  | v4                    -- pointer = pointer0; is_ipv4 = true; break
  | go (pointer : Nat)    -- address[piece_index++] = value, next iteration at `pointer`
  deriving DecidableEq, Repr

/-- `if (pointer != last) { const CharT ch = *pointer; … }` inside the main loop (url_ip.h:295-318) -/
def v6AfterHex (a : Array Nat) (first last pointer0 pointer : Nat) : R V6Next :=
  if pointer ≠ last then do                          -- if (pointer != last)
    let ch ← rd a first last pointer                 -- ch = *pointer   [pointer != last]
    if ch = 0x2E then
      if pointer = pointer0 then pure .fail else pure .v4
    else if ch = 0x3A then do
      let pointer ← mkptr first last (pointer + 1)   -- if (++pointer == last) return
      if pointer = last then pure .fail
      else pure (.go pointer)
    else pure .fail
  else pure (.go pointer)

/-- state of the main loop: pointer, piece_index, compress, address[8] -/
abbrev V6Main := Nat × Nat × Nat × Loc

/-- main `while (pointer < last)` loop (url_ip.h:276-320); result `none` = error,
    `some (st, is_ipv4)` -/
def v6MainLoop (a : Array Nat) (first last maxPieces : Nat) : Nat → V6Main → R (Option (V6Main × Bool)) :=
  iter (fun (s : V6Main) => do
    let (pointer, pieceIndex, compress, address) := s
    if ¬ pointer < last then pure (.inr (some (s, false))) else   -- while (pointer < last)
    if pieceIndex = maxPieces then pure (.inr none) else do       -- if (piece_index == 8) return   (maxPieces = 8)
    let c ← rd a first last pointer                  -- pointer[0] == ':'   [pointer < last]
    if c = 0x3A then
      if compress ≠ 0 then pure (.inr none)
      else do
        let pointer' ← mkptr first last (pointer + 1)   -- ++pointer
        pure (.inl (pointer', pieceIndex + 1, pieceIndex + 1, address))
    else do
      -- get_hex_number(pointer, (last - pointer <= 4 ? last : pointer + 4))
      let lim ← (if last - pointer ≤ 4 then pure last else mkptr first last (pointer + 4) : R Nat)
      sub first last pointer lim
      let (pointer', value) ← getHexNumber a pointer lim
      match ← v6AfterHex a first last pointer pointer' with
      | .fail => pure (.inr none)
      | .v4 => pure (.inr (some ((pointer, pieceIndex, compress, address), true)))
      | .go pointer'' => do
        let address ← address.wr pieceIndex value    -- address[piece_index++] = value   [piece_index != 8]
        pure (.inl (pointer'', pieceIndex + 1, compress, address)))

/-- `while (pointer != last && is_ascii_digit(*pointer))` of the IPv4 tail: `some (pointer, ipv4Piece)` -/
def v6Digits (a : Array Nat) (first last : Nat) : Nat → Nat × Nat → R (Option (Nat × Nat)) :=
  iter (fun (s : Nat × Nat) => do
    let (pointer, piece) := s
    if pointer = last then pure (.inr (some s)) else do
    let c ← rd a first last pointer                  -- *pointer   [pointer != last]
    if isDigit c then
      if piece = 0 then pure (.inr none)
      else
        let piece := piece * 10 + (c - 0x30)
        if piece > 255 then pure (.inr none) else do
        let pointer' ← mkptr first last (pointer + 1)  -- ++pointer
        pure (.inl (pointer', piece))
    else pure (.inr (some s)))

/-- state of the IPv4 tail: pointer, numbers_seen, piece_index, address -/
abbrev V6V4 := Nat × Nat × Nat × Loc

/-- `while (pointer < last)` of the `if (is_ipv4)` block (url_ip.h:329-361) -/
def v6V4Loop (a : Array Nat) (first last : Nat) : Nat → V6V4 → R (Option V6V4) :=
  iter (fun (s : V6V4) => do
    let (pointer, numbersSeen, pieceIndex, address) := s
    if ¬ pointer < last then pure (.inr (some s)) else do
    let p? ← (
      if numbersSeen > 0 then do
        let c ← rd a first last pointer              -- *pointer == '.' && numbers_seen < 4   [pointer < last]
        if c = 0x2E ∧ numbersSeen < 4 then do
          let pointer' ← mkptr first last (pointer + 1)   -- ++pointer
          pure (some pointer')
        else pure none
      else pure (some pointer) : R (Option Nat))
    match p? with
    | none => pure (.inr none)
    | some pointer =>
      if pointer = last then pure (.inr none) else do  -- pointer == last ||
      let d ← rd a first last pointer                  -- !is_ascii_digit(*pointer)   [pointer != last]
      if !isDigit d then pure (.inr none) else do
      let d ← rd a first last pointer                  -- ipv4Piece = *(pointer++) - '0'
      let pointer1 ← mkptr first last (pointer + 1)    -- … pointer++
      match ← v6Digits a first last (last - pointer + 1) (pointer1, d - 0x30) with
      | none => pure (.inr none)
      | some (pointer, piece) => do
        let cur ← address.rd pieceIndex                -- address[piece_index] * 0x100 + ipv4Piece
        let address ← address.wr pieceIndex ((cur * 0x100 + piece) % 65536)   -- address[piece_index] = …
        let numbersSeen := numbersSeen + 1
        let pieceIndex := if numbersSeen % 2 = 0 then pieceIndex + 1 else pieceIndex
        pure (.inl (pointer, numbersSeen, pieceIndex, address)))

/-- `for (int ind = piece_index - 1; ind >= compress; --ind)` of the finale; entered only when
    `compress != 0`, so `ind >= compress >= 1` in the body and `ind - 1` is exact on `Nat` -/
def v6Shift (diff compress : Nat) : Nat → Nat × Loc → R Loc :=
  iter (fun (s : Nat × Loc) => do
    let (ind, address) := s
    if ind ≥ compress then do
      let v ← address.rd ind                         -- address[ind]
      let address ← address.wr (ind + diff) v        -- address[ind + diff] = address[ind]
      let address ← address.wr ind 0                 -- address[ind] = 0
      pure (.inl (ind - 1, address))
    else pure (.inr address))

/-- ipv6_parse(first, last, address)   (url_ip.h:240-383): `some address` (eight pieces) or `none` -/
def ipv6Parse (a : Array Nat) (first last : Nat) (maxPieces : Nat := 8) : R (Option (List Nat)) :=
  let address := Loc.new 8                           -- uint16_t(&address)[8], std::fill(…, 0)
  let len := last - first
  if len < 2 then
    if len = 0 then pure none else do
    let _ ← rd a first last first                    -- switch (first[0])   [len == 1]
    pure none
  else do
  let c0 ← rd a first last first                     -- pointer[0] == ':'   [len >= 2]
  let start ← (
    if c0 = 0x3A then do
      let c1 ← rd a first last (first + 1)           -- pointer[1] != ':'   [len >= 2]
      if c1 ≠ 0x3A then pure none else do
        let pointer ← mkptr first last (first + 2)   -- pointer += 2
        pure (some (pointer, 1, 1, address))
    else pure (some (first, 0, 0, address)) : R (Option V6Main))
  match start with
  | none => pure none
  | some st =>
  match ← v6MainLoop a first last maxPieces (last - first + 1) st with
  | none => pure none
  | some ((pointer, pieceIndex, compress, address), isIpv4) =>
    let tail ← (
      if isIpv4 then
        if pieceIndex > 6 then pure none             -- if (piece_index > 6) return
        else do
          match ← v6V4Loop a first last (last - first + 1) (pointer, 0, pieceIndex, address) with
          | none => pure none
          | some (_, numbersSeen, pieceIndex, address) =>
            if numbersSeen ≠ 4 then pure none else pure (some (pieceIndex, address))
      else pure (some (pieceIndex, address)) : R (Option (Nat × Loc)))
    match tail with
    | none => pure none
    | some (pieceIndex, address) =>
      if compress ≠ 0 then                           -- if (compress)
        let diff := 8 - pieceIndex
        if diff ≠ 0 then do                          -- if (const int diff = 8 - piece_index)
          let address ← v6Shift diff compress 9 (pieceIndex - 1, address)
          pure (some address.toList)
        else pure (some address.toList)
      else if pieceIndex ≠ 8 then pure none
      else pure (some address.toList)

end Upa.Impl.B
