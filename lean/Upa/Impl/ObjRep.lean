import Upa.Impl.Api
import Upa.Impl.SetRepApi
import Upa.Impl.ParseRep
import Upa.Impl.UpdateRep
/-
  The `upa::url` OBJECT at the level of the stored representation.

  `Impl/Api.lean` models the object as `UrlObj` = (abstract record, owned params object).  This file is
  the same object model, operation by operation, but the object carries the stored representation
  (`Rep`: `norm_url_`, the eleven `part_end_`, the flag bits, `path_segment_count_`, the scheme index)
  instead of a record, and every operation is the one the C++ executes on that representation:

    parse            `parseRep`  (Impl/ParseRep.lean: url_parser driving url_serializer, `append_parts`
                     reading the raw representation of the base)
    the nine in-place setters     `setRep`  (Impl/SetRepApi.lean, on top of Impl/SetRep.lean)
    href             a fresh object is parsed, then `safe_assign(std::move(u))`   (url.h:1500-1509)
    URLSearchParams edits         the list operation, then `updateRep` (Impl/UpdateRep.lean)
    search_params(), parse_search_params(), the copy / safe_assign refills
                     `do_parse(false, get_part_view(QUERY))`: the QUERY part view of the
                     representation (`Rep.partView QUERY`), never a record field

  NOTHING in `RObj` and its operations looks at a record (`Url`).  `Props/C05g.lean` proves that the
  two object models simulate each other over arbitrary operation histories on two objects.

  Also here: the operation alphabet `Op` on two object slots and the two interpreters `stepR` / `runR`
  (representation level) and `stepU` / `runU` (record level, `UrlObj` of Impl/Api.lean).
  Everything is computable (used by the correspondence driver).
-/
namespace Upa.Impl

/-! ### the object -/

structure RObj where
  /-- none: `is_valid()` is false (never parsed, cleared, moved-from, or the last parse failed);
      the record members are then the reset ones (empty string, zero offsets: `reset_record`) -/
  rep : Option Rep := none
  /-- the owned params object, once `search_params()` has been called -/
  sp : Option Params := none
  deriving DecidableEq, Repr

/-- `get_part_view(url::QUERY)` of the object (url.h:1297-1304): computed from the offsets; the reset
    record of an invalid object has the empty string and zero offsets, hence the empty view -/
def rQueryView (r : Option Rep) : List Nat :=
  match r with
  | some r => r.partView QUERY
  | none => []

/-- url::parse_search_params (url.h:1276-1279): `parse_params(get_part_view(QUERY))` -/
def RObj.reparseParams (o : RObj) : RObj :=
  match o.sp with
  | some _ => { o with sp := some { list := formParse false (rQueryView o.rep), isSorted := false } }
  | none => o

/-- url::clear_search_params (url.h:1271-1274) -/
def RObj.clearParams (o : RObj) : RObj :=
  match o.sp with
  | some _ => { o with sp := some { list := [], isSorted := true } }
  | none => o

/-- url::parse(str, base) on an existing object (url.h:1415-1460): `new_url()` resets the record (and
    clears the params of a non-empty object); an invalid base object fails; otherwise the parser
    runs on the fresh record against the RAW representation of the base; on success the params are
    refilled from the QUERY part view; on failure `reset_record()` leaves the empty record (`rep :=
    none`) and does not touch the params again.  `base`: `none` no base, `some none` an invalid base object,
    `some (some rb)` a valid base with stored representation `rb`. -/
def RObj.parse (idna : Idna) (o : RObj) (e : Enc) (units : List Nat) (base : Option (Option Rep)) :
    RObj × Bool :=
  let o := if o.rep.isSome then o.clearParams else o
  match base with
  | some none => ({ o with rep := none }, false)           -- invalid base object
  | _ =>
    match parseRep idna e units (base.bind id) with
    | some r => (({ o with rep := some r } : RObj).reparseParams, true)
    | none => ({ o with rep := none }, false)

/-- url::clear (url.h:1394-1401) -/
def RObj.clear (o : RObj) : RObj := ({ o with rep := none } : RObj).clearParams

/-! ### copy / move / swap / safe_assign between two objects (dst, src) ↦ (dst', src') -/

/-- copy assignment `dst = src` (defaulted: members copied; url_search_params_ptr::operator=(const&),
    url_search_params-inl.h:46-56: `copy_params` when the source has a params object, otherwise
    `parse_params(url_ptr_->get_part_view(QUERY))` of the ALREADY copied record) -/
def rCopyAssign (dst src : RObj) : RObj :=
  match dst.sp, src.sp with
  | some _, some sp => { rep := src.rep, sp := some { list := sp.list, isSorted := sp.isSorted } }
  | some _, none => ({ rep := src.rep, sp := dst.sp } : RObj).reparseParams
  | none, _ => { rep := src.rep, sp := none }

/-- copy construction: the url_search_params_ptr copy ctor leaves the new object without params -/
def rCopyConstruct (src : RObj) : RObj := { rep := src.rep, sp := none }

/-- move assignment / construction (url.h:1078-1104): the record and the params pointer are taken;
    the source is left with the reset record (`reset_record`) and without params -/
def rMoveAssign (src : RObj) : RObj × RObj := (src, { rep := none, sp := none })

/-- url::safe_assign(url&&) (url.h:1106-1125): `move_record`; the destination's params object (if
    any) takes the source's list, or — the source having none — the list parsed from the source's
    QUERY part view before the move -/
def rSafeAssign (dst src : RObj) : RObj × RObj :=
  let dst' : RObj :=
    match dst.sp, src.sp with
    | some _, some sp => { rep := src.rep, sp := some { list := sp.list, isSorted := sp.isSorted } }
    | some _, none => { rep := src.rep, sp := some { list := formParse false (rQueryView src.rep), isSorted := false } }
    | none, _ => { rep := src.rep, sp := none }
  (dst', { rep := none, sp := src.sp.map (fun _ => { list := [], isSorted := false }) })

/-- url::swap (url.h:1403-1407): `url tmp{std::move(*this)}; *this = std::move(other); other = std::move(tmp);` -/
def rSwap (a b : RObj) : RObj × RObj :=
  let (tmp, _) := rMoveAssign a
  let (a', _) := rMoveAssign b
  let (b', _) := rMoveAssign tmp
  (a', b')

/-- the same three moves on the record-level objects (Impl/Api.lean has no `swap`) -/
def uSwap (a b : UrlObj) : UrlObj × UrlObj :=
  let (tmp, _) := moveAssign a
  let (a', _) := moveAssign b
  let (b', _) := moveAssign tmp
  (a', b')

/-! ### setters -/

/-- The ten setters on the object.  `href` (url.h:1500-1509): `url u; if (u.parse(str, nullptr) == ok)
    { safe_assign(std::move(u)); return true; } return false;`.  Every other setter is ignored by an
    invalid object (`if (is_valid())`, url.h:1512-1654) and otherwise edits the representation in
    place (`setRep`); `search` then clears (empty input) or refills the params (url.h:1610-1634). -/
def RObj.set (idna : Idna) (o : RObj) (s : Setter) (e : Enc) (units : List Nat) : RObj × Bool :=
  match s, o.rep with
  | .href, _ =>
    match (({} : RObj).parse idna e units none) with
    | (fresh, true) => ((rSafeAssign o fresh).1, true)
    | (_, false) => (o, false)
  | _, none => (o, false)
  | .search, some r =>
    let (r', ok) := setRep idna .search e units r
    let o' : RObj := { o with rep := some r' }
    (if units = [] then o'.clearParams else o'.reparseParams, ok)
  | s, some r =>
    let (r', ok) := setRep idna s e units r
    ({ o with rep := some r' }, ok)

/-! ### the owned url_search_params object -/

/-- url::search_params() & (url.h:1259-1263): created on first use by `url_search_params(url*)`,
    i.e. `do_parse(false, url_ptr->get_part_view(url::QUERY))` (url_search_params-inl.h:20-23) -/
def RObj.searchParams (o : RObj) : RObj :=
  match o.sp with
  | some _ => o
  | none => { o with sp := some { list := formParse false (rQueryView o.rep), isSorted := false } }

/-- url_search_params::update (url_search_params-inl.h:25-40) after a mutation of the owned params:
    nothing unless the owner is valid -/
def RObj.update (o : RObj) : RObj :=
  match o.rep, o.sp with
  | some r, some p => { o with rep := some (updateRep r p.list) }
  | _, _ => o

/-- apply a params mutation through the URL's params object -/
def RObj.spApply (o : RObj) (f : Params → Params) (always : Bool := true) : RObj :=
  let o := o.searchParams
  match o.sp with
  | some p =>
    let p' := f p
    let o' : RObj := { o with sp := some p' }
    if always || p'.list.length ≠ p.list.length then o'.update else o'
  | none => o

/-- `url::search_params() &&` (url.h:1265-1269): `if (search_params_ptr_) return std::move(*search_params_ptr_);
    return url_search_params{ search() };` — the result is a detached object (not part of the state
    here).  When the url owns a params object its list is MOVED OUT: the owned list is left empty
    (`is_sorted_` kept, url_search_params.h:456-460), `update()` is NOT called, the url keeps its query.
    Without a params object the url is not touched.  (As `Own.urlSearchParamsRvalue`, Impl/Own.lean.) -/
def RObj.searchParamsRvalue (o : RObj) : RObj :=
  match o.sp with
  | some p => { o with sp := some { list := [], isSorted := p.isSorted } }
  | none => o

/-- the same on the record-level object (Impl/Api.lean has no such operation) -/
def uSearchParamsRvalue (o : UrlObj) : UrlObj :=
  match o.sp with
  | some p => { o with sp := some { list := [], isSorted := p.isSorted } }
  | none => o

/-! ### operations on two objects -/

/-- a mutation of the params object of a URL, as the correspondence driver's `sp` operations
    (names and values are the stored UTF-8 byte strings) -/
inductive SpOp where
  | append (n v : List Nat)
  | set (n v : List Nat)
  | del (n : List Nat)
  | del2 (n v : List Nat)
  /-- `remove(n)` / `remove(n, v)` (url_search_params.h:559-589): the list edit of `del`, but
      `remove_if` calls `update()` only when something was removed (`if (count) update();`) -/
  | remove (n : List Nat)
  | remove2 (n v : List Nat)
  | sort
  | clear
  /-- `url.search_params().parse(q)`: one leading `?` is dropped -/
  | parse (q : List Nat)
  deriving DecidableEq, Repr

def SpOp.fn : SpOp → Params → Params
  | .append n v => (·.append n v)
  | .set n v => (·.set n v)
  | .del n => (·.del n)
  | .del2 n v => (·.del2 n v)
  | .remove n => (·.del n)
  | .remove2 n v => (·.del2 n v)
  | .sort => (·.sort)
  | .clear => (·.clear)
  | .parse q => fun p => p.parse true q

/-- whether `update()` runs unconditionally after the list edit (the `always` argument of `spApply`):
    `false` for `remove` / `remove2`, which update only when the list got shorter -/
def SpOp.always : SpOp → Bool
  | .remove _ => false
  | .remove2 _ _ => false
  | _ => true

/-- side condition of a params mutation for the theorems of Props/C05g: the names, values and query
    strings handed in are byte strings (`char` arguments are stored as they are; in the C++ a `char`
    IS a byte, in the model a code unit is a `Nat`) -/
def SpOp.WF : SpOp → Prop
  | .append n v => (∀ b ∈ n, b < 256) ∧ (∀ b ∈ v, b < 256)
  | .set n v => (∀ b ∈ n, b < 256) ∧ (∀ b ∈ v, b < 256)
  | .parse q => ∀ b ∈ q, b < 256
  | _ => True

instance (f : SpOp) : Decidable f.WF := by
  cases f <;> unfold SpOp.WF <;> infer_instance

/-- the base argument of a parse -/
inductive BaseArg where
  /-- `u.parse(str, nullptr)` -/
  | none
  /-- the string-base overload `u.parse(str, str_base)` (url.h:202-212): the base is parsed first into
      a fresh object; when that fails the call behaves as `u.parse(str, &invalid_base_object)`: the
      parse fails and the url is left empty and invalid (`clear(); return res;`).  (On a url that was
      ALREADY invalid `clear()` also empties an owned params list, which the parse against an invalid
      base object leaves alone; the params content of an invalid url is not observed.) -/
  | str (e : Enc) (units : List Nat)
  /-- the object in the OTHER slot is the base -/
  | other
  /-- the object itself is the base: `u.parse(str, &u)` parses against a copy of `u` (url.h:1419-1422) -/
  | same
  deriving DecidableEq, Repr

/-- the slot of an object: `false` = slot 0, `true` = slot 1 -/
abbrev Slot := Bool

/-- everything the correspondence driver does to two `upa::url` objects (`parse`, `set`, `sp`, `obj`) -/
inductive Op where
  | parse (k : Slot) (e : Enc) (units : List Nat) (base : BaseArg)
  | set (k : Slot) (s : Setter) (e : Enc) (units : List Nat)
  /-- first `search_params()` without a mutation (the driver's `sp get`) -/
  | searchParams (k : Slot)
  | sp (k : Slot) (op : SpOp)
  /-- `url.search_params() = other` from a STANDALONE params object holding `list` / `sorted`
      (url_search_params.h:464-470: `copy_params(other); update();`) -/
  | spAssign (k : Slot) (list : List BPair) (sorted : Bool)
  /-- `url.search_params().safe_assign(std::move(other))` from a standalone params object
      (url_search_params.h:478-482: `move_params(other); update();`; the emptied source is not part
      of the state) -/
  | spSafeAssign (k : Slot) (list : List BPair) (sorted : Bool)
  /-- `std::move(url).search_params()`: the `&&` overload, see `RObj.searchParamsRvalue` -/
  | searchParamsRvalue (k : Slot)
  | clear (k : Slot)
  /-- `obj[d] = obj[s]`; for all four two-slot operations `d = s` is not generated by the driver and
      is a no-op here (as in the C++: self copy and self move / safe_assign leave the url as it is) -/
  | copyAssign (d s : Slot)
  /-- `obj[d]` is destroyed and re-created as a copy of `obj[s]` -/
  | copyConstruct (d s : Slot)
  | moveAssign (d s : Slot)
  | safeAssign (d s : Slot)
  | swap
  deriving DecidableEq, Repr

def Op.WF : Op → Prop
  | .sp _ f => f.WF
  | .spAssign _ list _ => ∀ pr ∈ list, (∀ b ∈ pr.1, b < 256) ∧ (∀ b ∈ pr.2, b < 256)
  | .spSafeAssign _ list _ => ∀ pr ∈ list, (∀ b ∈ pr.1, b < 256) ∧ (∀ b ∈ pr.2, b < 256)
  | _ => True

instance (op : Op) : Decidable op.WF := by
  cases op <;> unfold Op.WF <;> infer_instance

/-- the operation is not a call of the protocol setter (the only operation that can produce one of
    the two file-exception records of C02) -/
def Op.NoProtocol : Op → Prop
  | .set _ .protocol _ _ => False
  | _ => True

instance (op : Op) : Decidable op.NoProtocol := by
  cases op with
  | set k s e units => cases s <;> unfold Op.NoProtocol <;> infer_instance
  | _ => unfold Op.NoProtocol; infer_instance

def getSlot {α : Type} (st : α × α) (k : Slot) : α := if k then st.2 else st.1
def setSlot {α : Type} (st : α × α) (k : Slot) (x : α) : α × α := if k then (st.1, x) else (x, st.2)

/-- one operation on the two representation-level objects; the bool is the operation's result
    (`parse(...) == ok`, the setter's return value; `true` for the operations without a result) -/
def stepR (idna : Idna) (op : Op) (st : RObj × RObj) : (RObj × RObj) × Bool :=
  match op with
  | .parse k e units base =>
    let o := getSlot st k
    let res : RObj × Bool :=
      match base with
      | .none => o.parse idna e units none
      | .other => o.parse idna e units (some (getSlot st (!k)).rep)
      | .same => o.parse idna e units (some o.rep)
      | .str eb ub =>
        match (({} : RObj).parse idna eb ub none) with
        | (b, true) => o.parse idna e units (some b.rep)
        | (_, false) => o.parse idna e units (some none)
    (setSlot st k res.1, res.2)
  | .set k s e units =>
    let res := (getSlot st k).set idna s e units
    (setSlot st k res.1, res.2)
  | .searchParams k => (setSlot st k (getSlot st k).searchParams, true)
  | .sp k f => (setSlot st k ((getSlot st k).spApply f.fn f.always), true)
  | .spAssign k list sorted =>
    (setSlot st k ((getSlot st k).spApply (fun _ => { list := list, isSorted := sorted })), true)
  | .spSafeAssign k list sorted =>
    (setSlot st k ((getSlot st k).spApply (fun _ => { list := list, isSorted := sorted })), true)
  | .searchParamsRvalue k => (setSlot st k (getSlot st k).searchParamsRvalue, true)
  | .clear k => (setSlot st k (getSlot st k).clear, true)
  | .copyAssign d s =>
    if d = s then (st, true) else (setSlot st d (rCopyAssign (getSlot st d) (getSlot st s)), true)
  | .copyConstruct d s =>
    if d = s then (st, true) else (setSlot st d (rCopyConstruct (getSlot st s)), true)
  | .moveAssign d s =>
    if d = s then (st, true) else
      let r := rMoveAssign (getSlot st s)
      (setSlot (setSlot st d r.1) s r.2, true)
  | .safeAssign d s =>
    if d = s then (st, true) else
      let r := rSafeAssign (getSlot st d) (getSlot st s)
      (setSlot (setSlot st d r.1) s r.2, true)
  | .swap => (rSwap st.1 st.2, true)

/-- the same operation on the two record-level objects (`UrlObj`, Impl/Api.lean) -/
def stepU (idna : Idna) (op : Op) (st : UrlObj × UrlObj) : (UrlObj × UrlObj) × Bool :=
  match op with
  | .parse k e units base =>
    let o := getSlot st k
    let res : UrlObj × Bool :=
      match base with
      | .none => o.parse idna e units none
      | .other => o.parse idna e units (some (getSlot st (!k)).url)
      | .same => o.parse idna e units (some o.url)
      | .str eb ub =>
        match (({} : UrlObj).parse idna eb ub none) with
        | (b, true) => o.parse idna e units (some b.url)
        | (_, false) => o.parse idna e units (some none)
    (setSlot st k res.1, res.2)
  | .set k s e units =>
    let res := (getSlot st k).set idna s e units
    (setSlot st k res.1, res.2)
  | .searchParams k => (setSlot st k (getSlot st k).searchParams, true)
  | .sp k f => (setSlot st k ((getSlot st k).spApply f.fn f.always), true)
  | .spAssign k list sorted =>
    (setSlot st k ((getSlot st k).spApply (fun _ => { list := list, isSorted := sorted })), true)
  | .spSafeAssign k list sorted =>
    (setSlot st k ((getSlot st k).spApply (fun _ => { list := list, isSorted := sorted })), true)
  | .searchParamsRvalue k => (setSlot st k (uSearchParamsRvalue (getSlot st k)), true)
  | .clear k => (setSlot st k (getSlot st k).clear, true)
  | .copyAssign d s =>
    if d = s then (st, true) else (setSlot st d (copyAssign (getSlot st d) (getSlot st s)), true)
  | .copyConstruct d s =>
    if d = s then (st, true) else (setSlot st d (copyConstruct (getSlot st s)), true)
  | .moveAssign d s =>
    if d = s then (st, true) else
      let r := moveAssign (getSlot st s)
      (setSlot (setSlot st d r.1) s r.2, true)
  | .safeAssign d s =>
    if d = s then (st, true) else
      let r := safeAssign (getSlot st d) (getSlot st s)
      (setSlot (setSlot st d r.1) s r.2, true)
  | .swap => (uSwap st.1 st.2, true)

/-- a history on the two representation-level objects -/
def runR (idna : Idna) (ops : List Op) (st : RObj × RObj) : RObj × RObj :=
  ops.foldl (fun st op => (stepR idna op st).1) st

/-- the same history on the two record-level objects -/
def runU (idna : Idna) (ops : List Op) (st : UrlObj × UrlObj) : UrlObj × UrlObj :=
  ops.foldl (fun st op => (stepU idna op st).1) st

/-- the results the operations of a history return, in order -/
def retR (idna : Idna) : List Op → RObj × RObj → List Bool
  | [], _ => []
  | op :: ops, st => (stepR idna op st).2 :: retR idna ops (stepR idna op st).1

def retU (idna : Idna) : List Op → UrlObj × UrlObj → List Bool
  | [], _ => []
  | op :: ops, st => (stepU idna op st).2 :: retU idna ops (stepU idna op st).1

end Upa.Impl
