import Upa.Basic
import Upa.Spec.Sets
import Upa.Impl.Utf
/-
  Code-shaped model of url_search_params::do_parse / urlencode / serialize and the list operations
  (include/upa/url_search_params.h).  Names and values are UTF-8 byte strings as stored in
  `std::list<std::pair<std::string,std::string>>`.
-/
namespace Upa.Impl

abbrev BPair := List Nat × List Nat

structure FormSt where
  name : List Nat := []
  value : List Nat := []
  inValue : Bool := false      -- pval == &value
  nonEmpty : Bool := false     -- start != it  (the current piece has at least one byte)

def FormSt.push (st : FormSt) (b : Nat) : FormSt :=
  if st.inValue then { st with value := st.value ++ [b], nonEmpty := true }
  else { st with name := st.name ++ [b], nonEmpty := true }

def FormSt.flush (st : FormSt) (acc : List BPair) : List BPair :=
  if st.nonEmpty then acc ++ [(checkFixUtf8 st.name, checkFixUtf8 st.value)] else acc

/-- the `for (it = b; it != e; ++it) switch (*it)` loop of do_parse -/
def formParseAux : List Nat → FormSt → List BPair → List BPair
  | [], st, acc => st.flush acc
  | c :: r@(h1 :: h2 :: r'), st, acc =>
    if c = 0x3D then
      if !st.inValue then formParseAux r { st with inValue := true, nonEmpty := true } acc
      else formParseAux r (st.push c) acc
    else if c = 0x26 then formParseAux r {} (st.flush acc)
    else if c = 0x2B then formParseAux r (st.push 0x20) acc
    else if c = 0x25 then
      if isHex h1 && isHex h2 then formParseAux r' (st.push (hexVal h1 * 16 + hexVal h2)) acc
      else formParseAux r (st.push c) acc
    else formParseAux r (st.push c) acc
  | c :: r, st, acc =>
    -- fewer than two bytes follow: '%' is literal
    if c = 0x3D then
      if !st.inValue then formParseAux r { st with inValue := true, nonEmpty := true } acc
      else formParseAux r (st.push c) acc
    else if c = 0x26 then formParseAux r {} (st.flush acc)
    else if c = 0x2B then formParseAux r (st.push 0x20) acc
    else formParseAux r (st.push c) acc

/-- do_parse(rem_qmark, query) on the UTF-8 bytes of the query -/
def formParse (remQmark : Bool) (bytes : List Nat) : List BPair :=
  let b := match remQmark, bytes with
    | true, 0x3F :: r => r
    | _, l => l
  formParseAux b {} []

/-- url_search_params::urlencode with kEncByte given by its specification (tied in C13) -/
def urlencode (bytes : List Nat) : List Nat :=
  bytes.flatMap fun b =>
    let cenc := Spec.urlencodedByte b
    if cenc = 0x25 then pctByte b else [cenc]

/-- url_search_params::serialize -/
def formSerialize : List BPair → List Nat
  | [] => []
  | [(n, v)] => urlencode n ++ 0x3D :: urlencode v
  | (n, v) :: rest => urlencode n ++ 0x3D :: urlencode v ++ 0x26 :: formSerialize rest

/-! ### list operations with the `is_sorted_` cache -/

structure Params where
  list : List BPair := []
  isSorted : Bool := false
  deriving Repr, DecidableEq

def Params.append (p : Params) (n v : List Nat) : Params := { list := p.list ++ [(n, v)], isSorted := false }
def Params.del (p : Params) (n : List Nat) : Params := { p with list := p.list.filter (fun x => x.1 ≠ n) }
def Params.del2 (p : Params) (n v : List Nat) : Params :=
  { p with list := p.list.filter (fun x => ¬ (x.1 = n ∧ x.2 = v)) }
def Params.get (p : Params) (n : List Nat) : Option (List Nat) := (p.list.find? (fun x => x.1 = n)).map (·.2)
def Params.getAll (p : Params) (n : List Nat) : List (List Nat) := (p.list.filter (fun x => x.1 = n)).map (·.2)
def Params.has (p : Params) (n : List Nat) : Bool := p.list.any (fun x => x.1 = n)
def Params.has2 (p : Params) (n v : List Nat) : Bool := p.list.any (fun x => x.1 = n ∧ x.2 = v)

/-- the erase loop of `set` -/
def setLoop (n v : List Nat) : List BPair → Bool → List BPair × Bool
  | [], m => ([], m)
  | x :: xs, m =>
    if x.1 = n then
      if m then setLoop n v xs true
      else let (r, _) := setLoop n v xs true; ((x.1, v) :: r, true)
    else let (r, m') := setLoop n v xs m; (x :: r, m')

def Params.set (p : Params) (n v : List Nat) : Params :=
  let (l, isMatch) := setLoop n v p.list false
  if !isMatch then p.append n v else { p with list := l }

/-- the comparator handed to std::list::sort -/
def nameLess (a b : BPair) : Bool := decide (compareByCodeUnits a.1 b.1 < 0)

/-- sort(): std::list::sort is a stable merge sort (C++ standard); rendered as List.mergeSort with
    `le a b := !less b a` -/
def Params.sort (p : Params) : Params :=
  if !p.isSorted then { list := p.list.mergeSort (fun a b => !nameLess b a), isSorted := true } else p

def Params.clear (_ : Params) : Params := { list := [], isSorted := true }
def Params.parse (_ : Params) (remQmark : Bool) (bytes : List Nat) : Params :=
  { list := formParse remQmark bytes, isSorted := false }

end Upa.Impl
