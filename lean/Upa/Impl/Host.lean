import Upa.Basic
import Upa.Spec.Sets
import Upa.Impl.Utf
import Upa.Impl.Percent
import Upa.Impl.Ip
/-
  Code-shaped model of host_parser (include/upa/url_host.h:159-361) and util::has_xn_label.
  IDNA (`domain_to_ascii`: UTS #46 ToASCII through ICU) is a parameter:
  `idna : UTF-16 code units → Option ASCII` (none = failure, including the empty result).
-/
namespace Upa

inductive HostKind where
  | empty | opaque | domain | ipv4 | ipv6
  deriving DecidableEq, Repr

/-- a parsed host as the library stores it: its type and its serialization -/
structure Host where
  kind : HostKind
  text : List Nat
  deriving DecidableEq, Repr

abbrev Idna := List Nat → Option (List Nat)

namespace Impl

def hasXnAt : List Nat → Bool
  | a :: b :: c :: d :: _ => (a ||| 0x20) == 0x78 && (b ||| 0x20) == 0x6E && c == 0x2D && d == 0x2D
  | _ => false

def hasXnAfterDot : List Nat → Bool
  | [] => false
  | c :: r => (c == 0x2E && hasXnAt r) || hasXnAfterDot r

/-- util::has_xn_label -/
def hasXnLabel (s : List Nat) : Bool := hasXnAt s || hasXnAfterDot s

/-- host_parser::parse_ipv4 -/
def hostParseIpv4 (s : List Nat) : Option Host :=
  (ipv4Parse s).map fun n => { kind := .ipv4, text := ipv4Serialize n }

/-- host_parser::parse_ipv6 (input without the brackets) -/
def hostParseIpv6 (s : List Nat) : Option Host :=
  (ipv6Parse s).map fun a => { kind := .ipv6, text := [0x5B] ++ ipv6Serialize a ++ [0x5D] }

/-- host_parser::parse_opaque_host -/
def parseOpaqueHost (s : List Nat) : Option Host :=
  if s.any Spec.forbiddenHost then none
  else
    let t := percentEncodeC0 s
    some { kind := if t = [] then .empty else .opaque, text := t }

/-- host_parser::parse_host on scalar values. none = failure. -/
def parseHost (idna : Idna) (s : List Nat) (isOpaque : Bool) : Option Host :=
  match s with
  | [] => if isOpaque then some { kind := .empty, text := [] } else none
  | c0 :: _ =>
    if c0 = 0x5B then
      if s.getLast? = some 0x5D then hostParseIpv6 (s.drop 1).dropLast else none
    else if isOpaque then parseOpaqueHost s
    else
      -- ptr = find_if_not(first, last, is_ascii_domain_char)
      let tail := s.dropWhile Spec.asciiDomainChar
      let fast : Option (Option Host) :=
        match tail with
        | [] =>
          if !hasXnLabel s then
            some (if endsInNumber s then hostParseIpv4 s
                  else some { kind := .domain, text := s.map toLower })
          else none
        | p :: rest =>
          if p < 0x80 ∧ p ≠ 0x25 then
            if ¬ (p ≥ 0x3C ∧ p ≤ 0x3E ∧ (match rest with | n :: _ => decide (n ≥ 0x80) || n == 0x25 | [] => false) = true)
            then some none else none
          else none
      match fast with
      | some r => r
      | none =>
        -- percent-decode to UTF-16 (same loop as append_percent_decoded, UTF-16 output), ToASCII
        let buffUc := encodeUtf16 (decode .u8 (percentDecode s))
        match idna buffUc with
        | none => none
        | some ascii =>
          if ascii.any Spec.forbiddenDomain then none
          else if endsInNumber ascii then hostParseIpv4 ascii
          else some { kind := .domain, text := ascii }

end Impl
end Upa
