import Upa.Impl.Api
/-
  The canonical-form predicate of property C08, executable.  `Props/C08.lean` proves it for URLs the
  model can produce; the harness evaluates an independent C++ rendering of it on the real getters.
-/
namespace Upa.Impl

def isPrintable (c : Nat) : Bool := decide (0x21 ≤ c) && decide (c ≤ 0x7E)
def isLowerAlpha (c : Nat) : Bool := decide (0x61 ≤ c) && decide (c ≤ 0x7A)
def isUpperAlpha (c : Nat) : Bool := decide (0x41 ≤ c) && decide (c ≤ 0x5A)

def schemeOk : List Nat → Bool
  | [] => false
  | c :: r => isLowerAlpha c && r.all (fun x => isLowerAlpha x || isDigit x || x == 0x2B || x == 0x2D || x == 0x2E)

def userinfoOk (s : List Nat) : Bool :=
  s.all (fun c => isPrintable c && c != 0x2F && c != 0x3A && c != 0x40 && c != 0x3F && c != 0x23)

def hostOk (h : Host) : Bool :=
  match h.kind with
  | .empty => h.text == []
  | .domain => h.text != [] && h.text.all (fun c => !Spec.forbiddenDomain c && !isUpperAlpha c && decide (c < 0x80))
  | .ipv4 => h.text != [] && h.text.all (fun c => isDigit c || c == 0x2E)
  | .ipv6 =>
    h.text.head? == some 0x5B && h.text.getLast? == some 0x5D &&
      ((h.text.drop 1).dropLast).all (fun c => isDigit c || (decide (0x61 ≤ c) && decide (c ≤ 0x66)) || c == 0x3A)
  | .opaque => h.text != [] && h.text.all (fun c => isPrintable c && !Spec.forbiddenHost c)

def Canon (u : Url) : Bool :=
  schemeOk u.scheme
  && (match u.port with | none => true | some p => decide (p ≤ 65535) && defaultPort u.scheme != some p)
  && (if u.isSpecial && !u.isFile then (match u.host with | some h => h.text != [] | none => false) else true)
  && (if u.isSpecial then !u.hasOpaquePath && u.path != [] else true)
  && (if u.hostText == [] || u.isFile then !u.hasCredentials && u.port.isNone else true)
  && (if u.isFile then u.host.isSome else true)
  && userinfoOk u.username && userinfoOk u.password
  && (match u.host with | some h => hostOk h | none => true)
  && (match u.query with
      | some q => q.all (fun c => isPrintable c && c != 0x23 && (c != 0x27 || !u.isSpecial))
      | none => true)
  && (match u.fragment with | some f => f.all isPrintable | none => true)
  && (if u.hasOpaquePath then
        u.opaquePath.all (fun c => (isPrintable c || c == 0x20) && c != 0x3F && c != 0x23) && u.path == []
      else
        u.opaquePath == [] &&
        u.path.all (fun seg => seg.all (fun c => isPrintable c && c != 0x3F && c != 0x23 && c != 0x2F)))

end Upa.Impl
