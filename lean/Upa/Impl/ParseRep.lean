import Upa.Impl.SetRepApi
/-
  Operational model of `url::do_parse` (include/upa/url.h:1408-1442) / `url_parser::url_parse`
  (url.h:1645-2363) WITHOUT state override, driving a `detail::url_serializer` (url.h:712-817,
  2552-2845 — the base class, NOT the `url_setter` subclass) on a fresh `upa::url`:
  `parseRep idna e units base` is `none` iff the C++ parse fails, and otherwise the EXACT stored
  representation (`Impl.Rep`: `norm_url_`, the eleven `part_end_` offsets with the zeros of the parts
  that were never started, the modelled flag bits, `path_segment_count_`, the index of `scheme_inf_`)
  the C++ object has after `parse`.  The base URL is given as its raw stored representation too.

  The state of the serializer is `Ser`: the representation of the url being written plus `last_pt_`.
  Every DECISION the C++ takes by reading the url object being built or the base
  (`is_special_scheme`, `is_file_scheme`, `get_part_view(SCHEME)`, `get_part_view(HOST)`,
  `is_null(HOST)`, `has_credentials`, `has_opaque_path`, `is_empty_path`, `get_path_first_string`,
  `scheme_inf()->default_port`, the source offsets read by `append_parts` …) is taken from a getter of
  the representation being built / of the base `Rep`, never from a record.  Pure input processing
  (trimming, tab/newline removal, decoding, scanning, percent-encoding, the host parser, dot-segment
  and Windows-drive tests) reuses the functions of `Impl/Url.lean`, `Impl/Api.lean`, `Impl/Host.lean`,
  `Impl/Percent.lean`, exactly as the record-level model `Impl.urlParse` does.

  One function per `if (state == …)` block, chained in the order of the C++ source (the state graph is
  a DAG with self-loops, so no fuel is needed).  `Props/C05e.lean` proves that `parseRep` yields a
  representation (`RepFor`) of the record `Impl.parse` yields, for every representation of the base.

  Faithfulness was checked against the real library (UPA_VERIF_HOOKS friend access to `norm_url_`,
  `part_end_`, `flags_`, `path_segment_count_`, `scheme_inf_`; IDNA = the ICU oracle): for 2 265 666
  parses (all 819 cases of web-platform-tests urltestdata.json; 487 178 `parse` operations of
  `gencases.py --streams url:60000` for four seeds, slot bases replayed; 1 777 669 chained cases
  86 bases x 25 derived references x 167 references, the base being itself the result of up to three
  relative parses; 1 972 139 of them with a base, 364 040 failing) `parseRep` run on (input, dumped
  raw base state) gave exactly the dumped raw state of the result (zeros included) and the same
  ok / failure.  Every state block and every `append_parts` call shape (t1, t2, pathOpFn, ifirst,
  ilast) that can occur was exercised at least 1 600 times.
-/
namespace Upa.Impl

/-! ### the serializer state -/

/-- `detail::url_serializer` (url.h:712-817): `url_` (as its stored representation) and `last_pt_` -/
structure Ser where
  rep : Rep
  lastPt : Nat
  deriving DecidableEq, Repr

/-- a default-constructed / `url::clear`ed url (url.h:691-695, 1387-1394): empty `norm_url_`,
    `part_end_` all zero, `scheme_inf_ = nullptr`, `flags_ = INITIAL_FLAGS` (url.h:635: the not-null
    bits of SCHEME, USERNAME, PASSWORD, PATH — none of the modelled bits), `path_segment_count_ = 0` -/
def Rep.cleared : Rep :=
  { norm := [], partEnd := List.replicate 11 0, hostNotNull := false, portNotNull := false,
    queryNotNull := false, fragmentNotNull := false, opaquePath := false, hostType := 0,
    segCount := 0, schemeIdx := none }

/-- `url_serializer urls(*this); urls.new_url();` (url.h:1422-1425, 718-729): `last_pt_ = SCHEME` -/
def Ser.new : Ser := ⟨Rep.cleared, SCHEME⟩

/-! ### scheme -/

/-- url::set_scheme_str (url.h:1330-1336): `norm_url_.clear(); part_end_[SCHEME] = str.length();
    norm_url_.append(str); norm_url_ += ':'` -/
def Rep.setSchemeStr (r : Rep) (str : List Nat) : Rep :=
  { r with norm := str ++ [0x3A], partEnd := r.partEnd.set SCHEME str.length }

/-- url_serializer::set_scheme(const url& src) (url.h:735, 1338-1341): the scheme text is
    `src.get_part_view(SCHEME)`, `scheme_inf_ = src.scheme_inf_` -/
def Ser.setSchemeOf (s : Ser) (src : Rep) : Ser :=
  { s with rep := { s.rep.setSchemeStr (src.partView SCHEME) with schemeIdx := src.schemeIdx } }

/-- url_serializer::set_scheme(string_view) (url.h:736, 1343-1346): `scheme_inf_ = get_scheme_info(str)` -/
def Ser.setSchemeStr (s : Ser) (str : List Nat) : Ser :=
  { s with rep := { s.rep.setSchemeStr str with schemeIdx := schemeIndex str } }

/-- `start_scheme()` (url.h:2586-2589: `norm_url_.clear()`), the scheme characters pushed
    (url.h:1707-1708), `save_scheme()` (url.h:2591-2594: `set_scheme(norm_url_.length())`, i.e.
    `part_end_[SCHEME] = len; scheme_inf_ = get_scheme_info(get_part_view(SCHEME))` (url.h:1348-1351),
    then `norm_url_.push_back(':')`) -/
def Ser.writeScheme (s : Ser) (scheme : List Nat) : Ser :=
  let r1 := { s.rep with norm := scheme }
  let r2 := { r1 with partEnd := r1.partEnd.set SCHEME r1.norm.length }
  let r3 := { r2 with schemeIdx := schemeIndex (r2.partView SCHEME) }
  { s with rep := { r3 with norm := r3.norm ++ [0x3A] } }

/-! ### parts -/

/-- url_serializer::start_part (url.h:2603-2654): `serStartPart` with the explicit `last_pt_`;
    the new `last_pt_` is `pt` (on the early return of url.h:2629-2630 it already is) -/
def Ser.startPart (s : Ser) (pt : Nat) : Ser := ⟨serStartPart s.rep s.lastPt pt, pt⟩

/-- appending to the string `start_part` returned (`norm_url_`) -/
def Ser.append (s : Ser) (t : List Nat) : Ser := { s with rep := { s.rep with norm := s.rep.norm ++ t } }

/-- url_serializer::save_part (url.h:2656-2658) -/
def Ser.savePart (s : Ser) : Ser := { s with rep := serSavePart s.rep s.lastPt }

/-- `start_part(pt)`; append `text`; `save_part()` -/
def Ser.writePart (s : Ser) (pt : Nat) (text : List Nat) : Ser := ((s.startPart pt).append text).savePart

/-- url_serializer::set_flag (url.h:780, 1355-1357) for PORT_FLAG, QUERY_FLAG, FRAGMENT_FLAG -/
def Ser.setFlag (s : Ser) (pt : Nat) : Ser := { s with rep := s.rep.setNotNull pt }

/-- url_serializer::set_has_opaque_path (url.h:784-787, 1363-1365) -/
def Ser.setHasOpaquePath (s : Ser) : Ser := { s with rep := { s.rep with opaquePath := true } }

/-! ### host -/

/-- url_serializer::set_empty_host (url.h:2710-2714) -/
def Ser.setEmptyHost (s : Ser) : Ser :=
  let s1 := (s.startPart HOST).savePart
  { s1 with rep := s1.rep.setHostType 0 }

/-- url_serializer::empty_host (url.h:2716-2725): `part_end_[HOST] = part_end_[HOST_START];
    norm_url_.resize(part_end_[HOST_START]); set_host_type(Empty)` -/
def Ser.emptyHost (s : Ser) : Ser :=
  let hostEnd := s.rep.pe HOST_START
  let r := { s.rep with partEnd := s.rep.partEnd.set HOST hostEnd, norm := s.rep.norm.take hostEnd }
  { s with rep := r.setHostType 0 }

/-- url_serializer::hostDone (url.h:2733-2742): `save_part(); set_host_type(ht)`; a "/." path prefix
    is removed -/
def Ser.hostDone (s : Ser) (ht : Nat) : Ser :=
  let s1 := s.savePart
  let r := s1.rep.setHostType ht
  { s1 with rep := if !r.isEmpty PATH_PREFIX then replacePart1 r PATH_PREFIX [] else r }

/-- `hostStart()` (url.h:2729-2731: `start_part(HOST)`); the serialised host appended; `hostDone(ht)` -/
def Ser.writeHost (s : Ser) (text : List Nat) (ht : Nat) : Ser := ((s.startPart HOST).append text).hostDone ht

/-- url_parser::parse_host → host_parser::parse_host (url.h:2367-2370, url_host.h:159-361) writing
    through `hostStart`/`hostDone`: every successful exit writes the host exactly once; the empty
    input is written as the empty host before `is_opaque` decides between ok and host_missing
    (url_host.h:166-173).  `none` = failure. -/
def parseHostSer (idna : Idna) (s : Ser) (str : List Nat) : Option Ser :=
  let isOpaque := !s.rep.isSpecialScheme
  match str with
  | [] => if isOpaque then some (s.writeHost [] 0) else none
  | _ =>
    match parseHost idna str isOpaque with
    | none => none
    | some h => some (s.writeHost h.text (hostKindCode h.kind))

/-! ### path -/

/-- url::get_path_first_string (url.h:2504-2514) -/
def Rep.getPathFirstString (r : Rep) (len : Nat) : List Nat :=
  let pathv := r.partView PATH
  if pathv.length == 0 || r.opaquePath then pathv
  else
    let pv := pathv.drop 1                               -- skip '/'
    if pv.length == len || (decide (pv.length > len) && pv.getD len 0 == 0x2F) then pv.take len
    else []

/-- url::get_path_rem_last (url.h:2518-2531): `some (path_end, path_segment_count)` when it returns
    true.  `find_last(first, last, '/')` (url.h:985-992); `it = first` when no '/' is found. -/
def Rep.getPathRemLast (r : Rep) : Option (Nat × Nat) :=
  if r.segCount > 0 then
    let first := r.pe (PATH - 1)
    let p := slice r.norm first (r.pe PATH)
    -- `k` = 1 + index of the last '/' in `p`, 0 when there is none
    let k := (p.reverse.dropWhile (· != 0x2F)).length
    some (first + (k - 1), r.segCount - 1)
  else none

/-- url::get_shorten_path (url.h:2535-2547) -/
def Rep.getShortenPath (r : Rep) : Option (Nat × Nat) :=
  if r.segCount == 0 then none
  else
    let path1 := r.getPathFirstString 2
    if r.isFileScheme && r.segCount == 1 &&
        (path1.length == 2 && isNormalizedWindowsDrive (path1.getD 0 0) (path1.getD 1 0)) then none
    else r.getPathRemLast

/-- the two `PathOpFn`s `append_parts` is called with (url.h:776, 1854, 2090) -/
inductive PathOp where
  | remLast | shorten
  deriving DecidableEq, Repr

def Rep.pathOp (r : Rep) : PathOp → Option (Nat × Nat)
  | .remLast => r.getPathRemLast
  | .shorten => r.getShortenPath

/-- url_serializer::start_path_segment (url.h:2670-2675), the segment text appended,
    url_serializer::save_path_segment (url.h:2677-2680) -/
def Ser.pushSegment (s : Ser) (seg : List Nat) : Ser :=
  let s1 := (((s.startPart PATH).append [0x2F]).append seg).savePart
  { s1 with rep := { s1.rep with segCount := s1.rep.segCount + 1 } }

/-- url_serializer::append_empty_path_segment (url.h:2665-2668) -/
def Ser.appendEmptyPathSegment (s : Ser) : Ser := s.pushSegment []

/-- url_serializer::shorten_path (url.h:2554-2558): `get_shorten_path` updates `part_end_[PATH]` and
    `path_segment_count_` of the url itself, then `norm_url_.resize(part_end_[PATH])` -/
def Ser.shortenPath (s : Ser) : Ser :=
  match s.rep.getShortenPath with
  | some (pathEnd, segc) =>
    let r := { s.rep with partEnd := s.rep.partEnd.set PATH pathEnd, segCount := segc }
    { s with rep := { r with norm := r.norm.take (r.pe PATH) } }
  | none => s

/-- url_serializer::is_empty_path (url.h:792-796) -/
def Ser.isEmptyPath (s : Ser) : Bool := s.rep.segCount == 0

/-- url_serializer::commit_path (url.h:2682-2685) = `adjust_path_prefix()` (url.h:2687-2698) -/
def Ser.commitPath (s : Ser) : Ser := { s with rep := adjustPathPrefix s.rep }

/-! ### append_parts -/

/-- `flags_ = (flags_ & ~mask) | (src.flags_ & mask)` with `mask` the union of `kPartFlagMask[t1..t2]`
    (url.h:2766-2770, src/url.cpp:33-45): HOST ↦ `HOST_FLAG | HOST_TYPE_MASK`, PORT ↦ `PORT_FLAG`,
    PATH ↦ `PATH_FLAG | OPAQUE_PATH_FLAG`, QUERY ↦ `QUERY_FLAG`, FRAGMENT ↦ `FRAGMENT_FLAG` -/
def copyFlags (dst src : Rep) (t1 t2 : Nat) : Rep :=
  let inMask (t : Nat) : Bool := decide (t1 ≤ t) && decide (t ≤ t2)
  { dst with
    hostNotNull := if inMask HOST then src.hostNotNull else dst.hostNotNull,
    hostType := if inMask HOST then src.hostType else dst.hostType,
    portNotNull := if inMask PORT then src.portNotNull else dst.portNotNull,
    opaquePath := if inMask PATH then src.opaquePath else dst.opaquePath,
    queryNotNull := if inMask QUERY then src.queryNotNull else dst.queryNotNull,
    fragmentNotNull := if inMask FRAGMENT then src.fragmentNotNull else dst.fragmentNotNull }

/-- `for (ilast = t2; ilast >= ifirst; --ilast) if (src.part_end_[ilast]) break;` (url.h:2774-2778);
    the argument is `ilast + 1`; `none` when the loop runs below `ifirst` -/
def scanDown (src : Rep) (ifirst : Nat) : Nat → Option Nat
  | 0 => none
  | k + 1 => if k < ifirst then none else if src.pe k ≠ 0 then some k else scanDown src ifirst k

/-- url_serializer::append_parts(src, t1, t2, pathOpFn) (url.h:2746-2813) -/
def Ser.appendParts (s : Ser) (src : Rep) (t1 t2 : Nat) (op : Option PathOp) : Ser :=
  -- 2749-2761
  let ifirst :=
    if t1 ≤ HOST then
      if src.hostNotNull then (if t1 = USERNAME ∧ src.hasCredentials then USERNAME else HOST)
      else PATH_PREFIX
    else t1
  -- 2766-2770
  let s0 : Ser := { s with rep := copyFlags s.rep src t1 t2 }
  -- 2773-2779
  if ifirst ≤ t2 then
    match scanDown src ifirst (t2 + 1) with
    | none => s0
    | some ilast =>
      let s1 := s0.startPart ifirst                                      -- 2782
      -- 2785-2794
      let lastpEnd0 := src.pe ilast
      let (lastpEnd, r1) :=
        if op.isSome ∧ ilast = PATH then
          match op.bind src.pathOp with
          | some (pe', sc') => (pe', { s1.rep with segCount := sc' })
          | none => (lastpEnd0, { s1.rep with segCount := src.segCount })
        else if ifirst ≤ PATH ∧ PATH ≤ ilast then (lastpEnd0, { s1.rep with segCount := src.segCount })
        else (lastpEnd0, s1.rep)
      -- 2796-2802
      let offset := src.pe (ifirst - 1) + kPartStart.getD ifirst 0
      let len := r1.norm.length
      let shift (x : Nat) : Nat := x + len - offset                      -- x + delta
      let norm' := r1.norm ++ slice src.norm offset lastpEnd
      -- 2804-2809: part_end_[ifirst .. ilast) = src.part_end_[..] + delta, part_end_[ilast]
      let pe' := r1.partEnd.take ifirst ++
        ((src.partEnd.drop ifirst).take (ilast - ifirst)).map shift ++ [shift lastpEnd] ++
        r1.partEnd.drop (ilast + 1)
      ⟨{ r1 with norm := norm', partEnd := pe' }, ilast⟩                  -- 2810
  else s0

/-! ### fragment_state, query_state (url.h:2274-2360) -/

def fragmentStateSer (s : Ser) (p : List Nat) : Option Rep :=
  some ((s.writePart FRAGMENT (percentEncode fragmentNoEnc p)).setFlag FRAGMENT).rep

def queryStateSer (s : Ser) (p : List Nat) : Option Rep :=
  let q := p.takeWhile (· != 0x23)                                       -- 2275
  let rest := p.dropWhile (· != 0x23)
  let cpset := if s.rep.isSpecialScheme then specialQueryNoEnc else queryNoEnc   -- 2292-2294
  let s1 := (s.writePart QUERY (percentEncode cpset q)).setFlag QUERY   -- 2299-2323
  match rest with
  | [] => some s1.rep                                                    -- 2326-2327
  | _ :: r => fragmentStateSer s1 r                                      -- 2330-2331

/-- the end of path_state / opaque_path_state (url.h:2235-2246, 2260-2271): EOF, `?` or `#` -/
def afterPathSer (s : Ser) (rest : List Nat) : Option Rep :=
  match rest with
  | [] => some s.rep
  | c :: r => if c = 0x3F then queryStateSer s r else fragmentStateSer s r

/-! ### opaque_path_state (url.h:2249-2272) -/

def opaquePathStateSer (s : Ser) (p : List Nat) : Option Rep :=
  let seg := p.takeWhile (fun c => !isQorH c)
  let rest := p.dropWhile (fun c => !isQorH c)
  -- start_path_string (2700-2702), do_simple_path, save_path_string (2704-2707)
  afterPathSer (s.writePart PATH (percentEncodeC0 seg)) rest

/-! ### path_state, path_start_state (url.h:2180-2247, 2372-2443) -/

/-- one iteration of the `while (true)` loop of url_parser::parse_path (url.h:2404-2442) -/
def pathSegmentSer (s : Ser) (seg : List Nat) (isLast : Bool) : Ser :=
  if doubleDot seg then
    let s := s.shortenPath                                               -- 2415
    if isLast then s.appendEmptyPathSegment else s                       -- 2416
  else if singleDot seg then
    if isLast then s.appendEmptyPathSegment else s                       -- 2418
  else
    match seg with
    | [a, c] =>
      -- 2420-2430
      if s.rep.isFileScheme && s.isEmptyPath && isWindowsDrive a c then s.pushSegment [a, 0x3A]
      else s.pushSegment (percentEncode pathNoEnc seg)                   -- 2432-2434
    | _ => s.pushSegment (percentEncode pathNoEnc seg)

def pathSegmentsSer (s : Ser) : List (List Nat) → Ser
  | [] => s
  | [seg] => pathSegmentSer s seg true
  | seg :: rest => pathSegmentsSer (pathSegmentSer s seg false) rest

/-- url_parser::parse_path (url.h:2372-2443) -/
def parsePathSer (s : Ser) (str : List Nat) : Ser :=
  let segs := if s.rep.isSpecialScheme then splitOnP isSlash str else splitOnP (· == 0x2F) str
  pathSegmentsSer s segs

def pathStateSer (s : Ser) (p : List Nat) : Option Rep :=
  let seg := p.takeWhile (fun c => !isQorH c)                            -- 2226-2227
  let rest := p.dropWhile (fun c => !isQorH c)
  afterPathSer (parsePathSer s seg).commitPath rest                     -- 2229-2246

def pathStartStateSer (s : Ser) (p : List Nat) : Option Rep :=
  if s.rep.isSpecialScheme then
    -- 2181-2190
    match p with
    | c :: r => if isSlash c then pathStateSer s r else pathStateSer s p
    | [] => pathStateSer s p
  else
    match p with
    | c :: r =>
      -- 2191-2210
      if c = 0x3F then queryStateSer s r
      else if c = 0x23 then fragmentStateSer s r
      else if c = 0x2F then pathStateSer s r
      else pathStateSer s p
    | [] => some s.commitPath.rep                                        -- 2215-2221

/-! ### port_state (url.h:2005-2050) -/

def portStateSer (s : Ser) (p : List Nat) : Option Rep :=
  let digits := p.takeWhile isDigit
  let rest := p.dropWhile isDigit
  let isEnd := match rest with
    | [] => true
    | c :: _ => isAuthorityEnd c || (c == 0x5C && s.rep.isSpecialScheme)  -- 2008-2011
  if isEnd then
    if digits ≠ [] then
      let d := stripLeadingZeros digits                                  -- 2017
      if d.length > 5 then none                                          -- 2019-2020
      else
        let port := decimalValue d                                       -- 2022-2024
        if port > 0xFFFF then none                                       -- 2027-2028
        else if s.rep.schemeIdx.isNone || schemeInfDefaultPort s.rep.schemeIdx != some port then
          pathStartStateSer ((s.writePart PORT d).setFlag PORT) rest     -- 2031-2034
        else pathStartStateSer s rest             -- 2037: url_serializer::clear_part is empty (748)
    else pathStartStateSer s rest
  else none                                                              -- 2048

/-! ### file_host_state, file_slash_state, file_state (url.h:2052-2175) -/

def fileHostStateSer (idna : Idna) (s : Ser) (p : List Nat) : Option Rep :=
  let buf := p.takeWhile (fun c => !isSpecialAuthorityEnd c)             -- 2141
  let rest := p.dropWhile (fun c => !isSpecialAuthorityEnd c)
  if buf = [] then pathStartStateSer s.setEmptyHost rest                 -- 2143-2150
  else if (match buf with | [a, b] => isWindowsDrive a b | _ => false) then
    pathStateSer s p                                                     -- 2151-2158
  else
    match parseHostSer idna s buf with                                   -- 2161
    | none => none                                                       -- 2162-2163
    | some s1 =>
      -- 2165-2168
      let s2 := if s1.rep.partView HOST == sLocalhost then s1.emptyHost else s1
      pathStartStateSer s2 rest                                          -- 2172-2173

def fileSlashStateSer (idna : Idna) (base : Option Rep) (s : Ser) (p : List Nat) : Option Rep :=
  match p with
  | c :: r =>
    if isSlash c then fileHostStateSer idna s r                          -- 2108-2113
    else fileSlashDefault p
  | [] => fileSlashDefault p
where
  /-- url.h:2115-2137 -/
  fileSlashDefault (p : List Nat) : Option Rep :=
    let s1 :=
      match base with
      | some b =>
        if b.isFileScheme then
          let s1 := s.appendParts b HOST HOST none                       -- 2121
          if !startsWithWindowsDrive p then                              -- 2123
            let basePath := b.getPathFirstString 2                       -- 2124
            if basePath.length == 2 &&
                isNormalizedWindowsDrive (basePath.getD 0 0) (basePath.getD 1 0) then
              s1.pushSegment (basePath.take 2)                           -- 2129-2131
            else s1
          else s1
        else s
      | none => s
    pathStateSer s1 p

def fileStateSer (idna : Idna) (base : Option Rep) (s : Ser) (p : List Nat) : Option Rep :=
  let s := if !s.rep.isFileScheme then s.setSchemeStr sFile else s       -- 2053-2054
  let s := s.setEmptyHost                                                -- 2056
  match p with
  | c :: r =>
    if isSlash c then fileSlashStateSer idna base s r                    -- 2059-2064
    else fileDefault s p
  | [] => fileDefault s p
where
  /-- url.h:2066-2102 -/
  fileDefault (s : Ser) (p : List Nat) : Option Rep :=
    match base with
    | some b =>
      if b.isFileScheme then
        match p with
        | [] => some (s.appendParts b HOST QUERY none).rep               -- 2068-2073
        | c :: r =>
          if c = 0x3F then queryStateSer (s.appendParts b HOST PATH none) r          -- 2075-2080
          else if c = 0x23 then fragmentStateSer (s.appendParts b HOST QUERY none) r -- 2081-2086
          else if !startsWithWindowsDrive p then
            pathStateSer (s.appendParts b HOST PATH (some .shorten)) p  -- 2088-2090
          else pathStateSer (s.appendParts b HOST HOST none) p          -- 2092-2097
      else pathStateSer s p                                              -- 2099-2101
    | none => pathStateSer s p

/-! ### host_state (url.h:1944-2003), authority_state (url.h:1906-1942) -/

def hostStateSer (idna : Idna) (s : Ser) (p : List Nat) : Option Rep :=
  -- 1948-1967
  let isEndC := if s.rep.isSpecialScheme then isSpecialAuthorityEnd else isAuthorityEnd
  let auth := p.takeWhile (fun c => !isEndC c)
  let afterAuth := p.dropWhile (fun c => !isEndC c)
  let scan := hostScan auth false
  let hostPart := scan.1
  let portPart := scan.2
  let isPort := portPart.isSome
  if hostPart = [] && (isPort || s.rep.isSpecialScheme) then none        -- 1970-1975
  else
    match parseHostSer idna s hostPart with                              -- 1988
    | none => none                                                       -- 1990-1991
    | some s1 =>
      match portPart with
      | some pp => portStateSer s1 (pp ++ afterAuth)                     -- 1993-1995
      | none => pathStartStateSer s1 afterAuth                           -- 1997-1998

def authorityStateSer (idna : Idna) (s : Ser) (p : List Nat) : Option Rep :=
  -- 1908-1912
  let isEndC := if s.rep.isSpecialScheme then isSpecialAuthorityEnd else isAuthorityEnd
  let auth := p.takeWhile (fun c => !isEndC c)
  let afterAuth := p.dropWhile (fun c => !isEndC c)
  match splitLastAt auth with
  | none => hostStateSer idna s p
  | some (cred, hostport) =>
    if hostport = [] then none                                           -- 1914-1919
    else
      -- 1922-1936
      let user := cred.takeWhile (· != 0x3A)
      let pw := (cred.dropWhile (· != 0x3A)).drop 1
      let s1 :=
        if pw ≠ [] || user ≠ [] then
          let s1 := s.writePart USERNAME (percentEncode userinfoNoEnc user)
          if pw ≠ [] then s1.writePart PASSWORD (percentEncode userinfoNoEnc pw) else s1
        else s
      hostStateSer idna s1 (hostport ++ afterAuth)                       -- 1939-1941

/-- special_authority_ignore_slashes_state (url.h:1896-1902) -/
def ignoreSlashesStateSer (idna : Idna) (s : Ser) (p : List Nat) : Option Rep :=
  authorityStateSer idna s (p.dropWhile isSlash)

/-- special_authority_slashes_state (url.h:1886-1894) -/
def specialAuthoritySlashesStateSer (idna : Idna) (s : Ser) (p : List Nat) : Option Rep :=
  match p with
  | 0x2F :: 0x2F :: r => ignoreSlashesStateSer idna s r
  | _ => ignoreSlashesStateSer idna s p

/-! ### relative_slash_state, relative_state (url.h:1817-1884) -/

def relativeSlashStateSer (idna : Idna) (b : Rep) (s : Ser) (p : List Nat) : Option Rep :=
  match p with
  | c :: r =>
    if c = 0x2F then
      if s.rep.isSpecialScheme then ignoreSlashesStateSer idna s r else authorityStateSer idna s r  -- 1863-1869
    else if c = 0x5C && s.rep.isSpecialScheme then ignoreSlashesStateSer idna s r                   -- 1870-1876
    else pathStateSer (s.appendParts b USERNAME PORT none) p             -- 1878-1882
  | [] => pathStateSer (s.appendParts b USERNAME PORT none) p

def relativeStateSer (idna : Idna) (b : Rep) (s : Ser) (p : List Nat) : Option Rep :=
  let s := s.setSchemeOf b                                               -- 1819
  match p with
  | [] => some (s.appendParts b USERNAME QUERY none).rep                 -- 1820-1826
  | c :: r =>
    if c = 0x2F then relativeSlashStateSer idna b s r                    -- 1829-1831
    else if c = 0x3F then queryStateSer (s.appendParts b USERNAME PATH none) r          -- 1832-1837
    else if c = 0x23 then fragmentStateSer (s.appendParts b USERNAME QUERY none) r      -- 1838-1843
    else if c = 0x5C && s.rep.isSpecialScheme then relativeSlashStateSer idna b s r    -- 1844-1849
    else pathStateSer (s.appendParts b USERNAME PATH (some .remLast)) p -- 1851-1856

/-- path_or_authority_state (url.h:1808-1815) -/
def pathOrAuthorityStateSer (idna : Idna) (s : Ser) (p : List Nat) : Option Rep :=
  match p with
  | 0x2F :: r => authorityStateSer idna s r
  | _ => pathStateSer s p

/-- special_relative_or_authority_state (url.h:1798-1806) -/
def specialRelativeOrAuthorityStateSer (idna : Idna) (b : Rep) (s : Ser) (p : List Nat) : Option Rep :=
  match p with
  | 0x2F :: 0x2F :: r => ignoreSlashesStateSer idna s r
  | _ => relativeStateSer idna b s p

/-- no_scheme_state (url.h:1774-1796) -/
def noSchemeStateSer (idna : Idna) (base : Option Rep) (s : Ser) (p : List Nat) : Option Rep :=
  match base with
  | none => none                                                         -- 1791-1795
  | some b =>
    if b.opaquePath then                                                 -- 1776
      match p with
      | 0x23 :: r =>
        fragmentStateSer ((s.setSchemeOf b).appendParts b PATH QUERY none) r   -- 1777-1782
      | _ => none                                                        -- 1783-1787
    else if b.isFileScheme then fileStateSer idna base s p               -- 1789
    else relativeStateSer idna b s p

/-! ### scheme_start_state, scheme_state (url.h:1676-1772) -/

def schemeStateSer (idna : Idna) (base : Option Rep) (s : Ser) (p : List Nat) : Option Rep :=
  match p with
  | [] => none      -- not reached: the caller checked the first character
  | c0 :: r0 =>
    -- 1696-1699
    let body := r0.takeWhile isSchemeChar
    let rest := r0.dropWhile isSchemeChar
    let isScheme := match rest with
      | c :: _ => c == 0x3A
      | [] => false                              -- no state override
    if isScheme then
      let s := s.writeScheme ((c0 :: body).map (· ||| 0x20))             -- 1703-1708, 1738
      let p := rest.drop 1                                               -- 1740: skip ':'
      if s.rep.isFileScheme then fileStateSer idna base s p              -- 1741-1743
      else if s.rep.isSpecialScheme then                                 -- 1745
        match base with
        | some b =>
          if s.rep.partView SCHEME == b.partView SCHEME then             -- 1746
            specialRelativeOrAuthorityStateSer idna b s p
          else specialAuthoritySlashesStateSer idna s p
        | none => specialAuthoritySlashesStateSer idna s p
      else
        match p with
        | 0x2F :: r => pathOrAuthorityStateSer idna s r                  -- 1752-1754
        | _ => opaquePathStateSer s.setHasOpaquePath p                   -- 1755-1763
    else noSchemeStateSer idna base s p                                  -- 1766-1767

/-- url_parser::url_parse (url.h:1645-2363) without state override, after tab/newline removal -/
def urlParseSer (idna : Idna) (base : Option Rep) (s : Ser) (p : List Nat) : Option Rep :=
  -- 1677-1686
  match p with
  | c :: _ => if isAlpha c then schemeStateSer idna base s p else noSchemeStateSer idna base s p
  | [] => noSchemeStateSer idna base s p

/-- url::do_parse (url.h:1408-1442) on a fresh (or cleared: `new_url`) object, the base being valid:
    `none` iff the result is not `validation_errc::ok`; otherwise the stored representation of the
    object (the VALID_FLAG and the search-params object are not part of `Rep`) -/
def parseRep (idna : Idna) (e : Enc) (units : List Nat) (base : Option Rep) : Option Rep :=
  urlParseSer idna base Ser.new (prep e (doTrim units))

end Upa.Impl
