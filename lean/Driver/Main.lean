import Upa.Impl.Api
import Upa.Impl.CanParse
import Upa.Impl.Canon
import Upa.Impl.Rep
import Upa.Impl.FilePath
import Upa.Impl.SetRepApi
import Upa.Impl.ParseRep
import Upa.Impl.UpdateRep
import Upa.Impl.SetRepExc
import Upa.Impl.ObjRep
import Upa.Spec.Api
import Upa.Spec.Form
import Upa.Spec.Serializer
import Upa.Impl.BoundsUrl
import Upa.Impl.BoundsMisc
import Upa.Impl.SimpleBuffer
import Upa.Impl.StrView
import Upa.Impl.RemoveIf
/-
  Line-protocol driver: executes an operation file on the models (`Impl`, and `Spec` where the
  Standard has an answer) and prints one canonical line per operation: `<impl answer> ## <spec answer>`.
  The C++ harness (harness/driver.cpp) prints the same canonical text from the real library.
  The IDNA parameter of the models is instantiated with an independent ICU oracle
  (harness/idna_oracle.c, the Standard's "domain to ASCII" parameters) through a pure FFI call that
  exists only in this driver; no model definition and no theorem mentions it.
-/
open Upa Upa.Impl

instance : Inhabited UrlObj := ⟨{}⟩
instance : Inhabited Params := ⟨{}⟩

@[extern "upa_idna_oracle"] opaque idnaRaw : @& ByteArray → ByteArray

def idnaOracle : Idna := fun units =>
  let ba := units.foldl (fun (b : ByteArray) u => (b.push (UInt8.ofNat (u % 256))).push (UInt8.ofNat (u / 256 % 256))) ByteArray.empty
  let r := idnaRaw ba
  if r.size = 0 then none
  else if r.get! 0 = 0 then none
  else some ((r.data.toList.drop 1).map (·.toNat))

/-! ### formatting -/
def hexDigitC (n : Nat) : Char := if n < 10 then Char.ofNat (48 + n) else Char.ofNat (87 + n)
def hx (l : List Nat) : String :=
  if l.isEmpty then "-" else String.ofList (l.flatMap fun b => [hexDigitC (b / 16 % 16), hexDigitC (b % 16)])
def natList (l : List Nat) : String := if l.isEmpty then "-" else ",".intercalate (l.map toString)
def b01 (b : Bool) : String := if b then "1" else "0"

def hexCharVal (c : Char) : Nat :=
  let n := c.toNat
  if n ≤ 57 then n - 48 else if n ≤ 70 then n - 55 else n - 87
def parseHexNat (s : String) : Nat := s.toList.foldl (fun acc c => acc * 16 + hexCharVal c) 0
/-- "68,74,74" → [0x68,0x74,0x74]; "-" → [] -/
def parseUnits (s : String) : List Nat :=
  if s == "-" then [] else (s.splitOn ",").map parseHexNat
/-- the user predicates of the `removeif` operation (harness/driver.cpp `user_pred`), over the stored bytes -/
def userPred (kind : String) (k : Nat) (x : List Nat × List Nat) : Bool :=
  match kind with
  | "vlen" => x.2.length == k
  | "nlenle" => decide (x.1.length ≤ k)
  | "vfirst" => x.2.head? == some k
  | "nlast" => x.1.getLast? == some k
  | _ => false

def parseEnc (s : String) : Enc := if s == "16" then .u16 else if s == "32" then .u32 else .u8

def pairsStr (l : List (List Nat × List Nat)) : String :=
  if l.isEmpty then "-" else ",".intercalate (l.map fun (n, v) => hx n ++ ":" ++ hx v)

/-! ### property predicates evaluated on the model (same predicates the harness evaluates in C++) -/
def fileExc (u : Url) : Bool :=
  u.isFile && (u.hostText == sLocalhost ||
    (match u.path.head? with | some [a, b] => isAlpha a && b == 0x7C | _ => false))

def reparseOk (idna : Idna) (u : Url) : Bool := parse idna .u8 (serialize u) none == some u

def publicDump (idna : Idna) (u : Url) : String :=
  s!"V href={hx (serialize u)} origin={hx (origin idna u)} protocol={hx (getProtocol u)} username={hx u.username} password={hx u.password} host={hx (getHost u)} hostname={hx (getHostname u)} port={hx (getPort u)} pathname={hx (pathText u)} search={hx (getSearch u)} hash={hx (getHash u)} path={hx (getPath u)} nulls={b01 u.host.isNone}{b01 u.port.isNone}{b01 u.query.isNone}{b01 u.fragment.isNone} ht={match u.host with | some h => hostKindCode h.kind | none => 0} op={b01 u.hasOpaquePath} pi={match u.port with | some p => toString p | none => "-1"} rpi={match u.port with | some p => toString p | none => (match defaultPort u.scheme with | some d => toString d | none => "-1")} sf={b01 u.isSpecial}{b01 u.isFile}{b01 (u.scheme == sHttp || u.scheme == sHttps)}{b01 u.hasCredentials}"

def hiddenDump (idna : Idna) (u : Url) : String :=
  let r := layout u
  let rp := if reparseOk idna u then "1" else if fileExc u then "x" else "0"
  s!" seg={r.segCount} si={match r.schemeIdx with | some i => toString i | none => "-"} pe={natList r.partEnd} canon={b01 (Canon u)} rp={rp}"

def dumpImpl (idna : Idna) (o : Option Url) : String :=
  match o with
  | some u => publicDump idna u ++ hiddenDump idna u
  | none => "I"
/-- the Spec column: the Standard's URL serializer, origin and getter steps (Spec/Serializer.lean) on the Standard's
    parse / setter result — no definition of `Impl` is involved in the values the property C01 / C03 name
    (`path=` is the library's own `url::path()`; the flag fields are read off the record) -/
def publicDumpSpec (idna : Idna) (u : Url) : String :=
  s!"V href={hx (Spec.getHref u)} origin={hx (Spec.getOrigin idna u)} protocol={hx (Spec.getProtocol u)} username={hx (Spec.getUsername u)} password={hx (Spec.getPassword u)} host={hx (Spec.getHost u)} hostname={hx (Spec.getHostname u)} port={hx (Spec.getPort u)} pathname={hx (Spec.getPathname u)} search={hx (Spec.getSearch u)} hash={hx (Spec.getHash u)} path={hx (Spec.getPathname u ++ (match u.query with | some q => 0x3F :: q | none => []))} nulls={b01 u.host.isNone}{b01 u.port.isNone}{b01 u.query.isNone}{b01 u.fragment.isNone} ht={match u.host with | some h => hostKindCode h.kind | none => 0} op={b01 u.hasOpaquePath} pi={match u.port with | some p => toString p | none => "-1"} rpi={match u.port with | some p => toString p | none => (match defaultPort u.scheme with | some d => toString d | none => "-1")} sf={b01 u.isSpecial}{b01 u.isFile}{b01 (u.scheme == sHttp || u.scheme == sHttps)}{b01 u.hasCredentials}"

def dumpSpec (idna : Idna) (o : Option Url) : String :=
  match o with
  | some u => publicDumpSpec idna u
  | none => "I"

/-- the params object of an invalid URL is not compared (after a move its list is a moved-from
    std::list, "valid but unspecified"); it becomes defined again with the next successful parse,
    assignment or href -/
def spDump (o : UrlObj) : String :=
  match o.url, o.sp with
  | some _, some p => s!" sp={pairsStr p.list} so={b01 p.isSorted}"
  | some _, none => " sp=~"
  | none, _ => " sp=?"

/-! ### machine state -/
instance : Inhabited RObj := ⟨{}⟩

/-- the raw offsets (zeros of never-started parts included) of the object as the REPRESENTATION-level object model
    (Impl/ObjRep.lean: parseRep / setRep / updateRep / whole-representation copies) computes them; the harness prints
    the real `part_end_` -/
def rpeDump (ro : RObj) : String :=
  match ro.rep with
  | some r => s!" rpe={natList r.partEnd}/h{b01 r.hostNotNull}p{b01 r.portNotNull}q{b01 r.queryNotNull}f{b01 r.fragmentNotNull}o{b01 r.opaquePath}t{r.hostType}/{r.segCount}/{match r.schemeIdx with | some i => toString i | none => "-1"}/{hx r.norm}"
  | none => ""

structure St where
  robjs : Array RObj := #[{}, {}, {}, {}]
  objs : Array UrlObj := #[{}, {}, {}, {}]
  specs : Array (Option Url) := #[none, none, none, none]
  params : Array Params := #[{}, {}, {}, {}]

def parseSetter (s : String) : Setter :=
  match s with
  | "href" => .href | "protocol" => .protocol | "username" => .username | "password" => .password
  | "host" => .host | "hostname" => .hostname | "port" => .port | "pathname" => .pathname
  | "search" => .search | _ => .hash

def setName (s : String) : Option (Nat → Bool) :=
  match s with
  | "fragment" => some fragmentNoEnc | "query" => some queryNoEnc | "squery" => some specialQueryNoEnc
  | "path" => some pathNoEnc | "rawpath" => some rawPathNoEnc | "posixpath" => some posixPathNoEnc
  | "userinfo" => some userinfoNoEnc | "component" => some componentNoEnc
  | _ => none
def specSetName (s : String) : Nat → Bool :=
  match s with
  | "fragment" => Spec.fragmentSet | "query" => Spec.querySet | "squery" => Spec.specialQuerySet
  | "path" => Spec.pathSet | "rawpath" => Spec.rawPathSet | "posixpath" => Spec.posixPathSet
  | "userinfo" => Spec.userinfoSet | _ => Spec.componentSet

/-- base argument: "-" none; "s<k>" slot object; "t<enc>:<units>" string base.
    Result: none = no base; some none = invalid base (failure); some (some b). -/
def resolveBase (idna : Idna) (st : St) (arg : String) (spec : Bool) : Option (Option Url) :=
  if arg == "-" then none
  else if arg.startsWith "s" then
    let k := (arg.drop 1).toNat!
    some (if spec then st.specs[k]! else st.objs[k]!.url)
  else
    match (arg.drop 1).toString.splitOn ":" with
    | [e, u] =>
      some (if spec then Spec.apiParse idna (parseEnc e) (parseUnits u) none
            else parse idna (parseEnc e) (parseUnits u) none)
    | _ => some none

def optBytes (o : Option (List Nat)) : String := match o with | some l => "1:" ++ hx l | none => "0"

def fmtOf (s : String) : PathFormat := if s == "windows" then .windows else .posix

/-! ### cross-check of the bounds-instrumented models (Impl/BoundsUrl.lean, Impl/BoundsMisc.lean; property C04)
   The instrumented `url_parse` (every read and every pointer checked) runs on the code units of every parse / setter
   call with the real host parser verdict plugged in; it must end in `.ok` with the verdict of the list model the other
   theorems are about.  A disagreement is appended to the Impl column, where the C++ line has nothing: it shows up as a
   broken correspondence of the model, never silently. -/
def boundsVerdict (idna : Idna) (e : Enc) (units : List Nat) (base : Option Url) (ov : Option Override) (u : Url) (expected : Bool) : String :=
  match Upa.Impl.B.urlParseVerdictB idna e units base ov u with
  | some v => if v == expected then "" else " BOUNDSMODEL-VERDICT-DIFFERS"
  | none => " BOUNDSMODEL-NOT-OK"

def boundsSet (idna : Idna) (s : Setter) (e : Enc) (units : List Nat) (u : Url) : String :=
  let run (ov : Override) (u : Url) (units : List Nat) : String :=
    boundsVerdict idna e units none (some ov) u ((urlParse idna none (some ov) u (prep e units)).out == .ok)
  match s with
  | .protocol => run .schemeStart u units
  | .host => if !u.hasOpaquePath then run .host u units else ""
  | .hostname => if !u.hasOpaquePath then run .hostname u units else ""
  | .port => if canHaveUsernamePasswordPort u && !units.isEmpty then run .port u units else ""
  | .pathname => if !u.hasOpaquePath then run .pathStart { u with path := [] } units else ""
  | .search => match units with | [] => "" | c :: r => run .query u (if c = 0x3F then r else units)
  | .hash => match units with | [] => "" | c :: r => run .fragment u (if c = 0x23 then r else units)
  | _ => ""

def exec (idna : Idna) (st : St) (toks : List String) : St × String :=
  match toks with
  | ["case"] => ({}, "case")
  | ["parse", slot, enc, units, base] =>
    let k := slot.toNat!
    let e := parseEnc enc
    let u := parseUnits units
    let bI := resolveBase idna st base false
    let bS := resolveBase idna st base true
    -- string-base overloads parse the base first; when that fails the parse fails as with an invalid base object and
    -- the url is left empty (since 90693ba; before, the object kept its old value and stayed valid: finding F16)
    let (o', ok) : UrlObj × Bool := st.objs[k]!.parse idna e u bI
    let bR : Option (Option Rep) :=
      if base == "-" then none
      else if base.startsWith "s" then some (st.robjs[(base.drop 1).toNat!]!.rep)
      else match (base.drop 1).toString.splitOn ":" with
        | [be, bu] => some (parseRep idna (parseEnc be) (parseUnits bu) none)
        | _ => some none
    let ro' : RObj := (st.robjs[k]!.parse idna e u bR).1
    let cp := match bI with
      | some none => false
      | _ => canParse idna e u (bI.bind id)
    let (sres, sok) : Option Url × Bool := match bS with
      | some none => (none, false)
      | _ => let r := Spec.apiParse idna e u (bS.bind id); (r, r.isSome)
    let bchk := match bI with
      | some none => ""
      | _ => boundsVerdict idna e (doTrim u) (bI.bind id) none {} (Impl.parse idna e u (bI.bind id)).isSome
    ({ st with objs := st.objs.set! k o', specs := st.specs.set! k sres, robjs := st.robjs.set! k ro' },
     s!"ok={b01 ok} cp={b01 cp} {dumpImpl idna o'.url}{spDump o'}{rpeDump ro'}{bchk} ## ok={b01 sok} {dumpSpec idna sres}")
  | ["set", slot, setter, enc, units] =>
    let k := slot.toNat!
    let e := parseEnc enc
    let u := parseUnits units
    let s := parseSetter setter
    let (o', ret) := st.objs[k]!.set idna s e u
    let sres := match st.specs[k]! with
      | some su => some (Spec.apiSet idna s e u su)
      | none => if s == .href then Spec.apiParse idna e u none else none
    let ro' := (st.robjs[k]!.set idna s e u).1
    let bchk := match st.objs[k]!.url with | some cur => boundsSet idna s e u cur | none => ""
    ({ st with objs := st.objs.set! k o', specs := st.specs.set! k sres, robjs := st.robjs.set! k ro' },
     s!"ret={b01 ret} {dumpImpl idna o'.url}{spDump o'}{rpeDump ro'}{bchk} ## {dumpSpec idna sres}")
  | ["dump", slot] =>
    let k := slot.toNat!
    (st, s!"{dumpImpl idna st.objs[k]!.url}{spDump st.objs[k]!}{rpeDump st.robjs[k]!} ## {dumpSpec idna st.specs[k]!}")
  | ["probe", slot] =>
    let k := slot.toNat!
    (st, (if st.objs[k]!.url.isSome then "probe=ok" else "probe=invalid") ++ " ## ~")
  | ["obj", op, dst, src] =>
    let d := dst.toNat!
    let s := src.toNat!
    let od := st.objs[d]!
    let os := st.objs[s]!
    let (od', os', sd', ss') : UrlObj × UrlObj × Option Url × Option Url :=
      match op with
      | "clear" => (od.clear, os, none, st.specs[s]!)
      | "copya" => (copyAssign od os, os, st.specs[s]!, st.specs[s]!)
      | "copyc" => (copyConstruct os, os, st.specs[s]!, st.specs[s]!)
      | "movea" => let (a, b) := moveAssign os; (a, b, st.specs[s]!, none)
      | "movec" => let (a, b) := moveAssign os; (a, b, st.specs[s]!, none)
      | "swap" => (os, od, st.specs[s]!, st.specs[d]!)
      | _ => let (a, b) := safeAssign od os; (a, b, st.specs[s]!, none)    -- safea
    let rd := st.robjs[d]!
    let rs := st.robjs[s]!
    let (rd', rs') : RObj × RObj :=
      match op with
      | "clear" => (rd.clear, rs)
      | "copya" => (rCopyAssign rd rs, rs)
      | "copyc" => (rCopyConstruct rs, rs)
      | "movea" => rMoveAssign rs
      | "movec" => rMoveAssign rs
      | "swap" => rSwap rd rs
      | _ => rSafeAssign rd rs
    let st' :=
      if d = s then
        -- self operations: clear only (others are not generated on the same slot)
        if op == "clear" then { st with objs := st.objs.set! d od', specs := st.specs.set! d none, robjs := st.robjs.set! d rd' } else st
      else { st with objs := (st.objs.set! d od').set! s os', specs := (st.specs.set! d sd').set! s ss', robjs := (st.robjs.set! d rd').set! s rs' }
    (st', s!"d={dumpImpl idna st'.objs[d]!.url}{spDump st'.objs[d]!}{rpeDump st'.robjs[d]!} s={dumpImpl idna st'.objs[s]!.url}{spDump st'.objs[s]!}{rpeDump st'.robjs[s]!} ## ~")
  | "sp" :: slot :: op :: args =>
    let k := slot.toNat!
    let o := st.objs[k]!
    let a (i : Nat) : List Nat := parseUnits (args.getD (2 * i + 1) "-")
    let ae (i : Nat) : Enc := parseEnc (args.getD (2 * i) "8")
    let arg (i : Nat) : List Nat := makeString (ae i) (a i)
    let (o', r) : UrlObj × String :=
      match op with
      | "get" => (o.searchParams, "-")
      | "append" => (o.spApply (·.append (arg 0) (arg 1)), "-")
      | "set" => (o.spApply (·.set (arg 0) (arg 1)), "-")
      | "del" => (o.spApply (·.del (arg 0)), "-")
      | "del2" => (o.spApply (·.del2 (arg 0) (arg 1)), "-")
      | "remove" =>
        let o1 := o.searchParams
        let n := match o1.sp with | some p => p.list.length - (p.del (arg 0)).list.length | none => 0
        (o.spApply (·.del (arg 0)) false, toString n)
      | "remove2" =>
        let o1 := o.searchParams
        let n := match o1.sp with | some p => p.list.length - (p.del2 (arg 0) (arg 1)).list.length | none => 0
        (o.spApply (·.del2 (arg 0) (arg 1)) false, toString n)
      | "has" => let o1 := o.searchParams; (o1, match o1.sp with | some p => b01 (p.has (arg 0)) | none => "?")
      | "has2" => let o1 := o.searchParams; (o1, match o1.sp with | some p => b01 (p.has2 (arg 0) (arg 1)) | none => "?")
      | "getv" => let o1 := o.searchParams; (o1, match o1.sp with | some p => optBytes (p.get (arg 0)) | none => "?")
      | "getall" =>
        let o1 := o.searchParams
        (o1, match o1.sp with | some p => (let l := p.getAll (arg 0); if l.isEmpty then "-" else ",".intercalate (l.map hx)) | none => "?")
      | "sort" => (o.spApply (·.sort), "-")
      | "clear" => (o.spApply (·.clear), "-")
      | "parse" => (o.spApply (fun p => p.parse true (arg 0)), "-")
      | "size" => let o1 := o.searchParams; (o1, match o1.sp with | some p => toString p.list.length | none => "?")
      | "str" => let o1 := o.searchParams; (o1, match o1.sp with | some p => hx (formSerialize p.list) | none => "?")
      | "assign" =>    -- url.search_params() = params[j]  (copy assignment: copy_params + update)
        let j := (args.getD 0 "0").toNat!
        let src := st.params[j]!
        (o.spApply (fun _ => { list := src.list, isSorted := src.isSorted }), "-")
      | "safea" =>     -- url.search_params().safe_assign(std::move(params[j]))
        let j := (args.getD 0 "0").toNat!
        let src := st.params[j]!
        (o.spApply (fun _ => { list := src.list, isSorted := src.isSorted }), "-")
      | _ => (o, "?")
    let ro := st.robjs[k]!
    let srcP (j : Nat) : Params := st.params[j]!
    let ro' : RObj :=
      match op with
      | "append" => ro.spApply (·.append (arg 0) (arg 1))
      | "set" => ro.spApply (·.set (arg 0) (arg 1))
      | "del" => ro.spApply (·.del (arg 0))
      | "del2" => ro.spApply (·.del2 (arg 0) (arg 1))
      | "remove" => ro.spApply (·.del (arg 0)) false
      | "remove2" => ro.spApply (·.del2 (arg 0) (arg 1)) false
      | "sort" => ro.spApply (·.sort)
      | "clear" => ro.spApply (·.clear)
      | "parse" => ro.spApply (fun p => p.parse true (arg 0))
      | "assign" => ro.spApply (fun _ => { list := (srcP (args.getD 0 "0").toNat!).list, isSorted := (srcP (args.getD 0 "0").toNat!).isSorted })
      | "safea" => ro.spApply (fun _ => { list := (srcP (args.getD 0 "0").toNat!).list, isSorted := (srcP (args.getD 0 "0").toNat!).isSorted })
      | "get" => ro.searchParams | "has" => ro.searchParams | "has2" => ro.searchParams | "getv" => ro.searchParams
      | "getall" => ro.searchParams | "size" => ro.searchParams | "str" => ro.searchParams
      | _ => ro
    -- the Standard has no separate answer for these operations: the Spec slot follows the model
    let st' := { st with objs := st.objs.set! k o', specs := st.specs.set! k o'.url, robjs := st.robjs.set! k ro' }
    let st' := if op == "safea" then
        let j := (args.getD 0 "0").toNat!
        { st' with params := st'.params.set! j { list := [], isSorted := st'.params[j]!.isSorted } }
      else st'
    -- results read from the params object of an invalid URL are not compared (see `spDump`)
    let r := if o'.url.isNone then "?" else r
    (st', s!"r={r} {dumpImpl idna o'.url}{spDump o'}{rpeDump ro'} ## ~")
  | "psp" :: slot :: op :: args =>
    let k := slot.toNat!
    let p := st.params[k]!
    let a (i : Nat) : List Nat := parseUnits (args.getD (2 * i + 1) "-")
    let ae (i : Nat) : Enc := parseEnc (args.getD (2 * i) "8")
    let arg (i : Nat) : List Nat := makeString (ae i) (a i)
    let dumpP (p : Params) : String := s!"sp={pairsStr p.list} so={b01 p.isSorted} str={hx (formSerialize p.list)}"
    -- Spec view: names/values as scalar strings
    let specList (p : Params) : List Spec.Pair := p.list.map fun (n, v) => (Spec.utf8Decode n, Spec.utf8Decode v)
    let specDump (l : List Spec.Pair) : String :=
      s!"sp={pairsStr (l.map fun (n, v) => (Spec.utf8Encode n, Spec.utf8Encode v))} str={hx (Spec.urlencodedSerialize l)}"
    let sarg (i : Nat) : List Nat := Spec.decode (ae i) (a i)
    let (p', r, s) : Params × String × String :=
      match op with
      | "new" => ({}, "-", specDump [])
      | "ctor" =>     -- url_search_params(query): drops one leading '?'
        let p' : Params := { list := formParse true (arg 0), isSorted := false }
        let bytes := Spec.utf8Encode (sarg 0)
        let bytes := match bytes with | 0x3F :: r => r | l => l
        (p', "-", specDump (Spec.urlencodedParse bytes))
      | "parse" =>
        let p' := p.parse true (arg 0)
        let bytes := Spec.utf8Encode (sarg 0)
        let bytes := match bytes with | 0x3F :: r => r | l => l
        (p', "-", specDump (Spec.urlencodedParse bytes))
      | "append" => (p.append (arg 0) (arg 1), "-", specDump (Spec.spAppend (specList p) (sarg 0) (sarg 1)))
      | "set" => (p.set (arg 0) (arg 1), "-", specDump (Spec.spSet (specList p) (sarg 0) (sarg 1)))
      | "del" => (p.del (arg 0), "-", specDump (Spec.spDelete (specList p) (sarg 0)))
      | "del2" => (p.del2 (arg 0) (arg 1), "-", specDump (Spec.spDelete2 (specList p) (sarg 0) (sarg 1)))
      | "remove" => let q := p.del (arg 0); (q, toString (p.list.length - q.list.length), specDump (Spec.spDelete (specList p) (sarg 0)))
      | "remove2" => let q := p.del2 (arg 0) (arg 1); (q, toString (p.list.length - q.list.length), specDump (Spec.spDelete2 (specList p) (sarg 0) (sarg 1)))
      | "removeif" =>   -- remove_if with a user predicate (Impl/RemoveIf.lean, Props/C16b)
        let pr := userPred (args.getD 0 "-") (args.getD 1 "0").toNat!
        let q := p.removeIf pr
        (q.params, toString q.count,
          specDump ((specList p).filter fun (n, v) => !pr (Spec.utf8Encode n, Spec.utf8Encode v)))
      | "has" => (p, b01 (p.has (arg 0)), "r=" ++ b01 (Spec.spHas (specList p) (sarg 0)) ++ " " ++ specDump (specList p))
      | "has2" => (p, b01 (p.has2 (arg 0) (arg 1)), "r=" ++ b01 (Spec.spHas2 (specList p) (sarg 0) (sarg 1)) ++ " " ++ specDump (specList p))
      | "getv" => (p, optBytes (p.get (arg 0)), "r=" ++ optBytes ((Spec.spGet (specList p) (sarg 0)).map Spec.utf8Encode) ++ " " ++ specDump (specList p))
      | "getall" =>
        let l := p.getAll (arg 0)
        let sl := (Spec.spGetAll (specList p) (sarg 0)).map Spec.utf8Encode
        (p, (if l.isEmpty then "-" else ",".intercalate (l.map hx)), "r=" ++ (if sl.isEmpty then "-" else ",".intercalate (sl.map hx)) ++ " " ++ specDump (specList p))
      | "sort" => (p.sort, "-", specDump (Spec.spSort (specList p)))
      | "clear" => (p.clear, "-", specDump [])
      | "size" => (p, toString p.list.length, "~")
      | "copy" =>     -- params[k] = params[j] (copy assignment, detached)
        let j := (args.getD 0 "0").toNat!
        let q := st.params[j]!
        ({ list := q.list, isSorted := q.isSorted }, "-", specDump (specList q))
      | "fromurl" =>  -- params[k] = copy of url[j].search_params()
        let j := (args.getD 0 "0").toNat!
        -- the params object of an invalid URL is not observed
        match st.objs[j]!.url, st.objs[j]!.searchParams.sp with
        | some _, some q => ({ list := q.list, isSorted := q.isSorted }, "-", "~")
        | _, _ => (p, "?", "~")
      | _ => (p, "?", "~")
    let st' := { st with params := st.params.set! k p' }
    let st' := if op == "fromurl" then
        let j := (args.getD 0 "0").toNat!
        if st'.objs[j]!.url.isSome then { st' with objs := st'.objs.set! j st'.objs[j]!.searchParams, robjs := st'.robjs.set! j st'.robjs[j]!.searchParams } else st'
      else st'
    let rS := if s.startsWith "r=" || s == "~" then s else s!"r={r} {s}"
    (st', s!"r={r} {dumpP p'} ## {rS}")
  -- leaf operations
  | ["ipv4", units] =>
    let s := parseUnits units
    let f (o : Option Nat) := match o with | some n => toString n | none => "F"
    (st, s!"{f (ipv4Parse s)} ## {f (Spec.ipv4Parse s)}")
  | ["ends", units] =>
    let s := parseUnits units
    (st, s!"{b01 (endsInNumber s)} ## {b01 (Spec.endsInANumber s)}")
  | ["ipv4ser", n] =>
    let n := n.toNat!
    (st, s!"{hx (ipv4Serialize n)} ## {hx (Spec.ipv4Serialize n)}")
  | ["ipv6", units] =>
    let s := parseUnits units
    let f (o : Option (List Nat)) := match o with | some a => natList a | none => "F"
    (st, s!"{f (ipv6Parse s)} ## {f (Spec.ipv6Parse s)}")
  | ["ipv6ser", pieces] =>
    let a := parseUnits pieces
    (st, s!"{hx (ipv6Serialize a)} ## {hx (Spec.ipv6Serialize a)}")
  | ["utf", enc, units] =>
    let e := parseEnc enc
    let u := parseUnits units
    (st, s!"{hx (encodeUtf8 (decode e u))} ## {hx (Spec.utf8Encode (Spec.decode e u))}")
  | ["penc", set, enc, units] =>
    let e := parseEnc enc
    let u := parseUnits units
    match setName set with
    | some ne => (st, s!"{hx (percentEncode ne (decode e u))} ## {hx (Spec.utf8PercentEncode (specSetName set) (Spec.decode e u))}")
    | none => (st, "? ## ?")
  | ["pencset", fromS, toS, exclS, enc, units] =>
    -- a USER-BUILT no-encode set: include(from, to), then exclude(excl)  (C14 quantifies over arbitrary user sets)
    let lo := parseHexNat fromS
    let hi := parseHexNat toS
    let ex := parseHexNat exclS
    let ne : Nat → Bool := fun c => decide (lo ≤ c) && decide (c ≤ hi) && c != ex && decide (c < 256)
    (st, s!"{hx (percentEncode ne (decode (parseEnc enc) (parseUnits units)))} ## ~")
  | ["buf", n, ops] => (st, s!"{Upa.Impl.SB.runBufLine n.toNat! (if ops == "-" then "" else ops)} ## ~")
  | ["sv", a, b, k] => (st, s!"{Upa.Impl.SV.runSvLine (parseUnits a) (parseUnits b) k.toNat!} ## ~")
  | ["pdec", enc, units] =>
    let e := parseEnc enc
    let u := parseUnits units
    (st, s!"{hx (percentDecode (decode e u))} ## {hx (Spec.utf8Encode (Spec.utf8Decode (Spec.stringPercentDecode (Spec.decode e u))))}")
  | ["host", enc, units] =>
    let e := parseEnc enc
    let u := parseUnits units
    let f (o : Option Host) := match o with | some h => s!"{hostKindCode h.kind}:{hx h.text}" | none => "F"
    (st, s!"{f (parseHost idna (decode e u) false)} ## {f (Spec.hostParse idna (Spec.decode e u) false)}")
  | ["idnahyp", enc, units] =>
    -- the instances of the IDNA hypotheses of C01 / C02 / C03 / C07 / C08 (IdnaOk.ascii, IdnaOk.persist,
    -- IdnaCanon.out_ascii = IdnaStable.out_ascii = IdnaNonEmpty, IdnaStable.idem) at the ToASCII input the host
    -- parser computes for this host text, evaluated on the ICU oracle
    let s := decode (parseEnc enc) (parseUnits units)
    let dom := encodeUtf16 (decode .u8 (percentDecode s))
    let out := idna dom
    let outAscii := match out with
      | some r => !r.isEmpty && r.all (fun c => decide (c < 0x80) && !isUpperAlpha c)
      | none => true
    let asciiLive := !dom.isEmpty && dom.all Spec.asciiDomainChar && !hasXnLabel dom
    let ascii := if asciiLive then out == some (dom.map toLower) else true
    let persistLive := match dom.dropWhile Spec.asciiDomainChar with
      | p :: post =>
        decide (p < 0x80) && p != 0x25 && Spec.forbiddenDomain p && post.all (fun u => decide (u < 0x10000)) &&
            !((p == 0x3C || p == 0x3E) && (match post with | n :: _ => decide (n ≥ 0x80) | [] => false))
      | [] => false
    let persist := if persistLive then (match out with | some a => a.any Spec.forbiddenDomain | none => true) else true
    let idemLive := match out with
      | some r => r.all (fun c => !Spec.forbiddenDomain c) && !endsInNumber r && hasXnLabel r
      | none => false
    let idem := if idemLive then (match out with | some r => idna r == some r | none => true) else true
    let bad := (if outAscii then [] else ["out_ascii"]) ++ (if ascii then [] else ["ascii"]) ++ (if persist then [] else ["persist"]) ++ (if idem then [] else ["idem"])
    -- after "##": which hypotheses had their premises met here (a = ascii, p = persist with ToASCII succeeding,
    -- o = out_ascii i.e. ToASCII succeeded, i = idem)
    let live := (if asciiLive then "a" else "") ++ (if persistLive && out.isSome then "p" else "") ++ (if out.isSome then "o" else "") ++ (if idemLive then "i" else "")
    (st, (if bad.isEmpty then "hyp=1" else "hyp=0:" ++ ",".intercalate bad) ++ " ## live=" ++ live)
  | ["cmp", a, b] =>
    let x := parseUnits a
    let y := parseUnits b
    let sgn (i : Int) : String := if i < 0 then "-1" else if i > 0 then "1" else "0"
    let sa := Spec.utf16Encode (Spec.utf8Decode x)
    let sb := Spec.utf16Encode (Spec.utf8Decode y)
    let ss := if Spec.lexLt sa sb then "-1" else if Spec.lexLt sb sa then "1" else "0"
    (st, s!"{sgn (compareByCodeUnits x y)} ## {ss}")
  | ["frompath", fmt, enc, units] =>
    let e := parseEnc enc
    let u := parseUnits units
    (st, s!"{dumpImpl idna (urlFromFilePath idna (decode e u) (fmtOf fmt))} ## ~")
  | ["rt", fmt, enc, units] =>
    let e := parseEnc enc
    let f := fmtOf fmt
    let r : String :=
      match urlFromFilePath idna (decode e (parseUnits units)) f with
      | none => "F"
      | some u1 =>
        match pathFromFileUrl u1 f with
        | none => s!"u1={hx (serialize u1)} p1=F"
        | some p1 =>
          match urlFromFilePath idna (decode .u8 p1) f with
          | none => s!"u1={hx (serialize u1)} p1={hx p1} u2=F"
          | some u2 =>
            match pathFromFileUrl u2 f with
            | none => s!"u1={hx (serialize u1)} p1={hx p1} u2={hx (serialize u2)} p2=F"
            | some p2 => s!"u1={hx (serialize u1)} p1={hx p1} u2={hx (serialize u2)} p2={hx p2}"
    (st, r ++ " ## ~")
  | ["topath", fmt, slot] =>
    let k := slot.toNat!
    match st.objs[k]!.url with
    | some u => (st, s!"{optBytes (pathFromFileUrl u (fmtOf fmt))} ## ~")
    | none => (st, "0 ## ~")
  | ["member", set, c] =>
    let c := parseHexNat c
    let v : String :=
      match setName set with
      | some ne => b01 (ne c)
      | none =>
        match set with
        | "fhost" => b01 (Spec.forbiddenHost c && decide (c < 256))
        | "fdomain" => b01 (Spec.forbiddenDomain c && decide (c < 256))
        | "hex" => b01 (isHex c)
        | "ipv4char" => b01 (Spec.ipv4Char c)
        | "scheme" => b01 (isSchemeChar c)
        | "asciidomain" => b01 (Spec.asciiDomainChar c)
        | "digit" => b01 (isDigit c)
        | "alpha" => b01 (isAlpha c)
        | "encbyte" => toString (Spec.urlencodedByte c)
        | _ => "?"
    (st, s!"{v} ## {v}")
  | _ => (st, "?op ## ?")

/-! ### self-referential arguments: the argument of the call is a VIEW of the object's own storage (a getter
  result, the object's own href, the object itself as base, a name / value of the list being edited). For the
  models a value is a value: each such operation is the ordinary operation applied to the current value. -/

def hexNat (n : Nat) : String := String.ofList (Nat.toDigits 16 n)
def unitsStr (l : List Nat) : String := if l.isEmpty then "-" else ",".intercalate (l.map hexNat)

def getterBytes (u : Url) (g : String) : List Nat :=
  match g with
  | "href" => serialize u | "protocol" => getProtocol u | "username" => u.username | "password" => u.password
  | "host" => getHost u | "hostname" => getHostname u | "port" => getPort u | "pathname" => pathText u
  | "search" => getSearch u | "hash" => getHash u | _ => getPath u

/-- the second-to-last element (the last one of a one-element list) -/
def secondToLast {α : Type} (l : List α) : Option α :=
  if l.length ≥ 2 then l[l.length - 2]? else l.getLast?

def rewriteAlias (st : St) (toks : List String) : List String :=
  match toks with
  | ["aset", slot, setter, getter] =>
    match st.objs[slot.toNat!]!.url with
    | some u => ["set", slot, setter, "8", unitsStr (getterBytes u getter)]
    | none => ["dump", slot]
  | ["aparse", slot] =>
    match st.objs[slot.toNat!]!.url with
    | some u => ["parse", slot, "8", unitsStr (serialize u), "-"]
    | none => ["dump", slot]
  | ["aparseb", slot, enc, units] => ["parse", slot, enc, units, "s" ++ slot]
  | ["aparsebg", slot, getter] =>
    match st.objs[slot.toNat!]!.url with
    | some u => ["parse", slot, "8", unitsStr (getterBytes u getter), "s" ++ slot]
    | none => ["dump", slot]
  | ["aparsesp", slot, enc, name] =>     -- the generator calls `sp <slot> get` first, so the params object exists
    match st.objs[slot.toNat!]!.url, st.objs[slot.toNat!]!.sp with
    | some _, some p =>
      match p.get (makeString (parseEnc enc) (parseUnits name)) with
      | some v => ["parse", slot, "8", unitsStr v, "-"]
      | none => ["dump", slot]
    | _, _ => ["dump", slot]
  | ["sp", slot, "aparse", enc, name] =>
    match (st.objs[slot.toNat!]!.searchParams).sp with
    | some p =>
      match p.get (makeString (parseEnc enc) (parseUnits name)) with
      | some v => ["sp", slot, "parse", "8", unitsStr v]
      | none => ["sp", slot, "getv", enc, name]
    | none => ["sp", slot, "getv", enc, name]
  | ["psp", slot, "aparse", enc, name] =>
    match st.params[slot.toNat!]!.get (makeString (parseEnc enc) (parseUnits name)) with
    | some v => ["psp", slot, "parse", "8", unitsStr v]
    | none => ["psp", slot, "getv", enc, name]
  | ["psp", slot, "aappend"] =>
    match st.params[slot.toNat!]!.list with
    | (n, v) :: _ => ["psp", slot, "append", "8", unitsStr n, "8", unitsStr v]
    | [] => ["psp", slot, "size"]
  | ["psp", slot, "selfsafea"] => ["psp", slot, "size"]      -- a params object moved into itself stays as it is
  | ["sp", slot, "selfsafea"] => ["sp", slot, "get"]
  | ["psp", slot, "aset2"] =>     -- name = the second-to-last pair's name (a duplicate that is erased while names are still compared)
    match st.params[slot.toNat!]!.list, secondToLast st.params[slot.toNat!]!.list with
    | (_, v) :: _, some (n, _) => ["psp", slot, "set", "8", unitsStr n, "8", unitsStr v]
    | _, _ => ["psp", slot, "size"]
  | ["psp", slot, "adel"] =>
    match secondToLast st.params[slot.toNat!]!.list with
    | some (n, _) => ["psp", slot, "del", "8", unitsStr n]
    | none => ["psp", slot, "size"]
  | ["psp", slot, "adel2"] =>
    match st.params[slot.toNat!]!.list.getLast? with
    | some (n, v) => ["psp", slot, "del2", "8", unitsStr n, "8", unitsStr v]
    | none => ["psp", slot, "size"]
  | ["sp", slot, "aset2"] =>
    match (st.objs[slot.toNat!]!.searchParams).sp with
    | some p =>
      match p.list, secondToLast p.list with
      | (_, v) :: _, some (n, _) => ["sp", slot, "set", "8", unitsStr n, "8", unitsStr v]
      | _, _ => ["sp", slot, "size"]
    | none => ["sp", slot, "size"]
  | ["psp", slot, "aidx", what, i, j] =>   -- name = the i-th pair's name, value = the j-th pair's value (indices modulo the size)
    let l := st.params[slot.toNat!]!.list
    if l.isEmpty then ["psp", slot, "size"]
    else
      let n := (l[i.toNat! % l.length]!).1
      let v := (l[j.toNat! % l.length]!).2
      if what == "del" || what == "remove" then ["psp", slot, what, "8", unitsStr n] else ["psp", slot, what, "8", unitsStr n, "8", unitsStr v]
  | ["sp", slot, "aidx", what, i, j] =>
    match (st.objs[slot.toNat!]!.searchParams).sp with
    | some p =>
      let l := p.list
      if l.isEmpty then ["sp", slot, "size"]
      else
        let n := (l[i.toNat! % l.length]!).1
        let v := (l[j.toNat! % l.length]!).2
        if what == "del" || what == "remove" then ["sp", slot, what, "8", unitsStr n] else ["sp", slot, what, "8", unitsStr n, "8", unitsStr v]
    | none => ["sp", slot, "size"]
  | ["psp", slot, "aset"] =>
    match st.params[slot.toNat!]!.list, st.params[slot.toNat!]!.list.getLast? with
    | (n, _) :: _, some (_, v) => ["psp", slot, "set", "8", unitsStr n, "8", unitsStr v]
    | _, _ => ["psp", slot, "size"]
  | _ => toks

partial def loop (idna : Idna) (h : IO.FS.Stream) (out : IO.FS.Stream) (st : St) : IO Unit := do
  let line ← h.getLine
  if line.isEmpty then return ()
  let toks := (line.trimAscii.toString.splitOn " ").filter (· ≠ "")
  let toks := rewriteAlias st toks
  let (st', o) := exec idna st toks
  out.putStrLn o
  loop idna h out st'

/-! ### `driver setrep`: the operational model of the in-place edits (Impl/SetRep.lean, Impl/SetRepApi.lean)
  replayed on the raw stored representation the C++ harness dumped BEFORE each setter call / params update;
  the result must be the representation dumped AFTER it, exactly (zeros of never-started parts included),
  and must stand for the record the record-level setter computes. -/

def unhexBytes (s : String) : List Nat :=
  if s == "-" then [] else
  let rec go : List Char → List Nat
    | a :: b :: r => (hexCharVal a * 16 + hexCharVal b) :: go r
    | _ => []
  go s.toList

def parseRawRep (toks : List String) : Option Rep :=
  match toks with
  | [n, pe, fl, seg, si] =>
    let flags := fl.toNat!
    let sidx := si.toInt!
    some { norm := unhexBytes n, partEnd := (pe.splitOn ",").map String.toNat!,
           hostNotNull := flags.testBit 5, portNotNull := flags.testBit 6,
           queryNotNull := flags.testBit 9, fragmentNotNull := flags.testBit 10,
           opaquePath := flags.testBit 11, hostType := (flags >>> 13) &&& 7,
           segCount := seg.toNat!, schemeIdx := if sidx < 0 then none else some sidx.toNat }
  | _ => none

def rawRepStr (r : Rep) : String :=
  s!"{hx r.norm} {natList r.partEnd} h{b01 r.hostNotNull}p{b01 r.portNotNull}q{b01 r.queryNotNull}f{b01 r.fragmentNotNull}o{b01 r.opaquePath}t{r.hostType} {r.segCount} {match r.schemeIdx with | some i => toString i | none => "-1"}"

/-- a `parse` step: the operational model of the parser driving `url_serializer` (Impl/ParseRep.lean) on the input
    and the raw representation of the base must give the raw representation the C++ object has afterwards (`-` =
    the parse failed), and that must be a representation of the record the record-level parser computes -/
def parserepStep (idna : Idna) (enc units ok before after : String) : String :=
  let e := parseEnc enc
  let us := parseUnits units
  let baseR : Option Rep := if before == "-" then none else parseRawRep (before.splitOn " ")
  if before != "-" && baseR.isNone then "BADSTEP" else
  let okC := ok == "1"
  let r := parseRep idna e us baseR
  let uBase := baseR.map Rep.toRecord
  match baseR with
  | some b => if (layout b.toRecord).fill != b.fill then s!"BADSTATE base is not a layout: record gives {rawRepStr (layout b.toRecord)}" else
    parserepCmp idna e us okC r uBase after
  | none => parserepCmp idna e us okC r uBase after
where
  parserepCmp (idna : Idna) (e : Enc) (us : List Nat) (okC : Bool) (r : Option Rep) (uBase : Option Url) (after : String) : String :=
    let u' := parse idna e us uBase
    match r, okC with
    | none, false => if u'.isSome then "RECORD-MISMATCH the record-level parser succeeds" else "ok"
    | some r, true =>
      if some r != parseRawRep (after.splitOn " ") then
        let equiv := match parseRawRep (after.splitOn " "), u' with
          | some a, some u => a.fill == (layout u).fill
          | _, _ => false
        (if equiv then "MISMATCH-EQUIV" else "MISMATCH") ++ s!" model={rawRepStr r}"
      else match u' with
        | some u => if r.fill != (layout u).fill then s!"RECORD-MISMATCH layout-of-record={rawRepStr (layout u)}" else "ok"
        | none => "RECORD-MISMATCH the record-level parser fails"
    | some r, false => s!"MISMATCH model parses: {rawRepStr r}"
    | none, true => "MISMATCH model fails"

def setrepStep (idna : Idna) (line : String) : String :=
  match line.splitOn " | " with
  | [op, before, after] =>
    match op.splitOn " " with
    | ["parse", _, enc, units, ok] => parserepStep idna enc units ok before after
    | _ =>
    match parseRawRep (before.splitOn " "), parseRawRep (after.splitOn " "), op.splitOn " " with
    | some b, some a, [kind, sname, enc, units, ok] =>
      let okC := ok == "1"
      -- the record the BEFORE state stands for; the from-scratch layout of it must be the before state up to
      -- the encoding of never-started parts (else the history before this step already broke C05)
      let u := b.toRecord
      if (layout u).fill != b.fill then s!"BADSTATE before is not a layout: record gives {rawRepStr (layout u)}" else
      if kind == "set" then
        let s := parseSetter sname
        let e := parseEnc enc
        let us := parseUnits units
        let (r, okM) := setRep idna s e us b
        let (u', okR) := setValid idna s e us u
        if r != a || okM != okC then
          -- the C++ state may still be a representation of the right record (another pattern of never-started parts):
          -- then only the correspondence is broken, not the property
          (if a.fill == (layout u').fill && okR == okC then "MISMATCH-EQUIV" else "MISMATCH") ++ s!" model={rawRepStr r} ret={b01 okM}"
        else if r.fill != (layout u').fill || okR != okC then s!"RECORD-MISMATCH layout-of-record={rawRepStr (layout u')} ret={b01 okR}"
        else "ok"
      else if kind == "update" then
        let r := updateRepSer b (unhexBytes units)   -- = updateRep on the list (C05f_update_ser)
        if r != a then (if r.fill == a.fill then "MISMATCH-EQUIV" else "MISMATCH") ++ s!" model={rawRepStr r}" else "ok"
      else if kind == "none" then
        if b != a then s!"MISMATCH model={rawRepStr b}" else "ok"
      else "BADOP"
    | _, _, _ => "BADSTEP"
  | _ => "BADLINE"

/-- `driver failstates`: a line `set <setter> 8 <units> <n> | <raw before> | <raw after>` from the fault harness — the raw
    representation after the n-th `operator new` inside the setter call failed. The state must be one of the states the
    exception-aware operational model (Impl/SetRepExc.lean) can be left in by a failing primitive. -/
def failstateStep (idna : Idna) (line : String) : String :=
  match line.splitOn " | " with
  | [op, before, after] =>
    match parseRawRep (before.splitOn " "), parseRawRep (after.splitOn " "), op.splitOn " " with
    | some b, some a, [_, sname, enc, units, _] =>
      let pts := (setRepT idna (parseSetter sname) (parseEnc enc) (parseUnits units) b).pts
      if pts.contains a then "ok" else s!"NOTMEMBER points={pts.length} state={rawRepStr a}"
    | _, _, _ => "BADSTEP"
  | _ => "BADLINE"

partial def failstateLoop (idna : Idna) (h out : IO.FS.Stream) : IO Unit := do
  let line ← h.getLine
  if line.isEmpty then return ()
  out.putStrLn (failstateStep idna line.trimAsciiEnd.toString)
  failstateLoop idna h out

partial def setrepLoop (idna : Idna) (h out : IO.FS.Stream) : IO Unit := do
  let line ← h.getLine
  if line.isEmpty then return ()
  out.putStrLn (setrepStep idna line.trimAsciiEnd.toString)
  setrepLoop idna h out

def main (args : List String) : IO Unit := do
  let stdin ← IO.getStdin
  let stdout ← IO.getStdout
  if args == ["setrep"] then setrepLoop idnaOracle stdin stdout
  else if args == ["failstates"] then failstateLoop idnaOracle stdin stdout
  else loop idnaOracle stdin stdout {}
