import Upa.Proofs.OwnHist
open Upa Upa.Impl Upa.Impl.Own Upa.Proofs.Own Upa.Proofs.C06

def lcg (s : Nat) : Nat := (s * 6364136223846793005 + 1442695040888963407) % 18446744073709551616
def pick (s : Nat) (n : Nat) : Nat := if n = 0 then 0 else (s / 65536) % n

def str (l : List Nat) : String := if l = [] then "-" else String.ofList (l.map Char.ofNat)
def hexd (n : Nat) : Char := Char.ofNat (if n < 10 then 48 + n else 87 + n)
def hx (l : List Nat) : String := if l = [] then "-" else String.ofList (l.flatMap (fun b => [hexd (b / 16), hexd (b % 16)]))

def urlStrs : List String :=
  ["http://h/p?b=2&a=1", "http://example.org/", "foo:bar ?y=%ff#f", "http://h/?x=%41&y", "nonsense", "", "https://a.b/c/d?q=1&q=2#z",
   "file:///c:/x?k=v", "?k=v#z", "//other/p?z", "http://h/?", "foo:opaque  ?a=b", "http://a b/", "http://h:99999/x?q=1"]
def setStrs : List String := ["", "?x=1&y=2", "a=1", "#f", "/p/q", "8080", "host.example", "https", "?", "x y=%20&z"]
def names : List String := ["a", "b", "y", "z", "k", "q"]
def vals : List String := ["1", "2", "", "x y", "&", "%41"]
def setters : List (Setter × String) :=
  [(.href, "href"), (.protocol, "protocol"), (.username, "username"), (.password, "password"), (.host, "host"),
   (.hostname, "hostname"), (.port, "port"), (.pathname, "pathname"), (.search, "search"), (.hash, "hash")]

instance : Inhabited Setter := ⟨.href⟩
def nth {α} [Inhabited α] (l : List α) (i : Nat) : α := l.getD i default

def genOp (h : Heap) (s : Nat) : HOp × Nat :=
  let us := h.urls.map (·.1)
  let ps := h.params.map (·.1)
  let s1 := lcg s; let s2 := lcg s1; let s3 := lcg s2; let s4 := lcg s3; let s5 := lcg s4
  let u1 := nth us (pick s2 us.length); let u2 := nth us (pick s3 us.length)
  -- half of the time the params object operated on is one that a VALID url owns (the only case where update() writes
  -- through the back pointer); otherwise any live one
  let owned := ps.filter (fun p => match (h.getP p).bind (·.urlPtr) with
    | some u => ((h.getU u).bind (·.url)).isSome
    | none => false)
  let p1 := if owned.length > 0 && pick s4 2 = 0 then nth owned (pick s2 owned.length) else nth ps (pick s2 ps.length)
  let p2 := nth ps (pick s3 ps.length)
  -- operations that make valid urls with params objects are drawn more often than their share
  let k0 := pick s1 44
  let k := if k0 < 30 then k0 else if k0 < 34 then 21 else if k0 < 38 then 2 else 99
  let op : HOp :=
    match k with
    | 0 => .newUrl
    | 1 => .newParams [((nth names (pick s2 6)).toUTF8.toList.map (·.toNat), (nth vals (pick s3 6)).toUTF8.toList.map (·.toNat))]
    | 2 => .urlSearchParams u1
    | 3 => .urlCopyConstruct u1
    | 4 => .urlCopyAssign u1 u2
    | 5 => .urlMoveConstruct u1
    | 6 => .urlMoveAssign u1 u2
    | 7 => .urlSafeAssign u1 u2
    | 8 => .urlSwap u1 u2
    | 9 => .urlClear u1
    | 10 => .urlParse u1 .u8 ((nth urlStrs (pick s4 urlStrs.length)).toUTF8.toList.map (·.toNat)) (if pick s5 3 = 0 then some u2 else none)
    | 11 => .urlSet u1 (nth setters (pick s4 10)).1 .u8 ((nth setStrs (pick s5 setStrs.length)).toUTF8.toList.map (·.toNat))
    | 12 => .urlSearchParamsRvalue u1
    | 13 => .destroyUrl u1
    | 14 => .paramsCopyConstruct p1
    | 15 => .paramsCopyAssign p1 p2
    | 16 => .paramsMoveConstruct p1
    | 17 => .paramsMoveAssign p1 p2
    | 18 => .paramsSafeAssign p1 p2
    | 19 => .paramsSwap p1 p2
    | 20 => .destroyParams p1
    | 21 => .urlParse u1 .u8 ((nth urlStrs (pick s4 4)).toUTF8.toList.map (·.toNat)) none
    | 22 => .urlSearchParams u1
    | 23 => .urlSet u1 .search .u8 ((nth setStrs (pick s5 setStrs.length)).toUTF8.toList.map (·.toNat))
    | _ =>
      let n := (nth names (pick s4 6)).toUTF8.toList.map (·.toNat)
      let v := (nth vals (pick s5 6)).toUTF8.toList.map (·.toNat)
      let m : PMut := match pick (lcg s5) 9 with
        | 0 => .append n v | 1 => .set n v | 2 => .del n | 3 => .remove n | 4 => .sort | 5 => .clear
        | 7 => .del2 n v | 8 => .remove2 n v
        | _ => .parse true ((nth setStrs (pick s3 setStrs.length)).toUTF8.toList.map (·.toNat))
      .paramsMutate p1 m
  (op, s5)

def setterName (s : Setter) : String := ((setters.find? (·.1 == s)).map (·.2)).getD "?"

def showOp : HOp → String
  | .newUrl => "newUrl"
  | .newParams l => "newParams " ++ " ".intercalate (l.map (fun x => hx x.1 ++ " " ++ hx x.2))
  | .urlSearchParams u => s!"urlSearchParams {u}"
  | .urlCopyConstruct u => s!"urlCopyConstruct {u}"
  | .urlCopyAssign d s => s!"urlCopyAssign {d} {s}"
  | .urlMoveConstruct u => s!"urlMoveConstruct {u}"
  | .urlMoveAssign d s => s!"urlMoveAssign {d} {s}"
  | .urlSafeAssign d s => s!"urlSafeAssign {d} {s}"
  | .urlSwap d s => s!"urlSwap {d} {s}"
  | .urlClear u => s!"urlClear {u}"
  | .urlParse u _ units b => s!"urlParse {u} {hx units} {match b with | some b => toString b | none => "-"}"
  | .urlSet u s _ units => s!"urlSet {u} {setterName s} {hx units}"
  | .urlSearchParamsRvalue u => s!"urlSearchParamsRvalue {u}"
  | .destroyUrl u => s!"destroyUrl {u}"
  | .paramsCopyConstruct p => s!"paramsCopyConstruct {p}"
  | .paramsCopyAssign d s => s!"paramsCopyAssign {d} {s}"
  | .paramsMoveConstruct p => s!"paramsMoveConstruct {p}"
  | .paramsMoveAssign d s => s!"paramsMoveAssign {d} {s}"
  | .paramsSafeAssign d s => s!"paramsSafeAssign {d} {s}"
  | .paramsSwap d s => s!"paramsSwap {d} {s}"
  | .destroyParams p => s!"destroyParams {p}"
  | .paramsMutate p m =>
    s!"paramsMutate {p} " ++ (match m with
      | .append n v => s!"append {hx n} {hx v}" | .set n v => s!"set {hx n} {hx v}" | .del n => s!"del {hx n}"
      | .del2 n v => s!"del2 {hx n} {hx v}" | .remove n => s!"remove {hx n}" | .remove2 n v => s!"remove2 {hx n} {hx v}"
      | .sort => "sort" | .clear => "clear" | .parse _ b => s!"parse {hx b}")

def sortNat (l : List Nat) : List Nat := l.mergeSort (· ≤ ·)

def dump (h : Heap) : List String :=
  (sortNat (h.urls.map (·.1))).map (fun u =>
    let c := (h.getU u).getD {}
    s!"S U {u} {match c.url with | some r => str (serialize r) | none => "-"} {match c.spPtr with | some p => toString p | none => "-"}") ++
  (sortNat (h.params.map (·.1))).map (fun p =>
    let c := (h.getP p).getD {}
    s!"S P {p} {match c.urlPtr with | some u => toString u | none => "-"} {if c.isSorted then "1" else "0"} {str (formSerialize c.list)}")

partial def loop (h : Heap) (s : Nat) (n : Nat) (checks : Bool) : IO Bool := do
  if n = 0 then return checks
  let (op, s') := genOp h s
  if !(pre h op) then loop h s' (n - 1) checks
  else
    let h' := stepH stubIdna h op
    IO.println ("OP " ++ showOp op)
    for u in h'.urls.map (·.1) do
      if !(h.liveU u) then IO.println s!"NEWU {u}"
    for p in h'.params.map (·.1) do
      if !(h.liveP p) then IO.println s!"NEWP {p}"
    for u in h.urls.map (·.1) do
      if !(h'.liveU u) then IO.println s!"DELU {u}"
    for p in h.params.map (·.1) do
      if !(h'.liveP p) then IO.println s!"DELP {p}"
    for l in dump h' do IO.println l
    IO.println "E"
    loop h' s' (n - 1) (checks && h'.check)

def main (args : List String) : IO Unit := do
  let seed := (args.headD "1").toNat!
  let runs := (args.getD 1 "50").toNat!
  let steps := (args.getD 2 "80").toNat!
  let mut ok := true
  for i in [0:runs] do
    IO.println "RESET"
    let r ← loop {} (lcg (seed * 1000003 + i)) steps true
    ok := ok && r
  IO.println s!"MODELCHECK {ok}"
