-- This module serves as the root of the `Upa` library.
-- Import modules here that should be built as part of the library.
import Upa.Basic
