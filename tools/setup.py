#!/usr/bin/env python3
"""MANIFEST.setup_cmd: build the framework from files on disk only (offline)."""
import os, sys, time
sys.path.insert(0, os.path.dirname(os.path.abspath(__file__)))
from common import *
import gen as gentables
t0 = time.time()
ok, info = gentables.gen()
print('gen tables:', 'ok' if ok else info['errors'])
rc, out = lake_build(['Upa', 'driver', 'owngen'])
print('lake build Upa driver: rc=%d' % rc)
if rc != 0: print(out[-3000:])
h, log = build_harness('asan')
print('harness (asan):', h or log[-2000:])
print('setup %.0fs' % (time.time() - t0))
sys.exit(0 if (ok and rc == 0 and h) else 1)
