#!/usr/bin/env python3
"""development helper: summarise the logs of tools/mutants.py runs (/tmp/mutants*.log, later runs override
earlier ones and the rows already in seeded/RESULTS.md) into seeded/RESULTS.md and the detected_by fields of seeded/*/meta.json"""
import re, json, os, glob
VERIF = os.path.dirname(os.path.dirname(os.path.abspath(__file__)))
res = {}
# rows of the existing table first (earlier sessions' logs are gone with /tmp); the logs found now override them
_old = os.path.join(VERIF, 'seeded', 'RESULTS.md')
if os.path.exists(_old):
    for l in open(_old):
        m = re.match(r'\| (\S+) \| (C\d\d) \| (.+?) \|$', l.strip())
        if m and not m.group(1).startswith('b_'): res[(m.group(1), m.group(2))] = m.group(3)
logs = sorted(glob.glob('/tmp/mutants*.log'), key=os.path.getmtime)
for f in logs:
    for l in open(f):
        m = re.match(r'(\S+)\s+(C\d\d): (VIOLATION|OK)(.*)', l)
        if not m or '950e81511c0f' in l or m.group(1).startswith('b_'): continue   # behaviour-preserving refactorings: benign/RESULTS.md
        name, pid, st, rest = m.groups()
        res[(name, pid)] = ('reported, failing input found' if st == 'VIOLATION' and 'no-failing-input-found' not in rest else 'reported (no-failing-input-found)' if st == 'VIOLATION' else 'silent')
# only the checks a seeded change is registered for (seeded/<id>/meta.json 'checks'); a check dropped from that list
# (with the reason in 'needs') no longer has a row
reg = {}
for d in glob.glob(os.path.join(VERIF, 'seeded', '*', 'meta.json')):
    m = json.load(open(d)); reg['s_' + m['id']] = set(m['checks'])
res = {k: v for k, v in res.items() if k[0] not in reg or k[1] in reg[k[0]]}
out = ['# Which check reports which change (quick tier, seed 1)', '',
       'Changes are applied to scratch copies of /repo by `tools/mutants.py` (never to /repo). `mNN_*` = the single-edit mutants named in properties.jsonl (exact edits in doc/ACCEPTANCE-MUTANTS.md); `s_*` = changes written by fresh sub-agents that saw only the property text and a scratch worktree of /repo (seeded/<id>/: patch.diff, demo.cpp, notes.txt, meta.json), each confirmed (suite passes with it, demo fails with it and passes without).', '',
       '| change | check | result |', '|---|---|---|']
for (name, pid), v in sorted(res.items()): out.append('| %s | %s | %s |' % (name, pid, v))
out += ['', '`s_c09_r3_new_url_skips_clear_of_invalid` became behaviour-preserving with the repair F13 (814bb12: a failed parse leaves an empty url, so `is_valid()` and `!empty()` are the same test in `new_url()`); it was reported by C09 / C05 / C01 before that repair and is silent, rightly, since.']
out += ['', '`s_c20_r7_href_in_place_when_empty` (href() parses in place when the target is empty) was written against the tree before the repair F19 (46fa9a3) and relied on `parse_search_params()` running outside the try block of `do_parse`; on the repaired tree it is behaviour-preserving (its own demo exits 0 with the change applied): silent, rightly. Its author\'s baseline report is what led to F19.']
out += ['', '`s_c14_r4_static_scratch_buffer` (a static scratch string in check_fix_utf8) was written against C14 but leaves single-threaded behaviour unchanged for every input; it is registered for, and reported by, C19.', '', '`m34_dot_host` is property-equivalent (only the error code changes; `is_unc_path` rejects a "." host anyway): silence is correct.']
open(os.path.join(VERIF, 'seeded', 'RESULTS.md'), 'w').write('\n'.join(out) + '\n')
for d in glob.glob(os.path.join(VERIF, 'seeded', '*', 'meta.json')):
    m = json.load(open(d)); n = 's_' + m['id']
    m['detected_by'] = {pid: v for (name, pid), v in res.items() if name == n}
    json.dump(m, open(d, 'w'), indent=1)
print(len(res), [k for k, v in res.items() if v != 'reported, failing input found'])
