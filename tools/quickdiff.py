#!/usr/bin/env python3
"""development helper: run one stream through both drivers and summarise the divergences"""
import sys, os
sys.path.insert(0, os.path.dirname(os.path.abspath(__file__)))
from common import *
import gencases, check
streams = sys.argv[1].split(',')
seed = int(sys.argv[2]) if len(sys.argv) > 2 else 1
h, log = build_harness('asan')
if not h: print(log); sys.exit(1)
g = gencases.generate(streams, 0, seed)
lines = g.lines
import time
t=time.time(); cpp, rc, err = run_ops(h, '\n'.join(lines)+'\n'); t1=time.time()-t
cpp, steps = split_steps(cpp)
t=time.time(); lean, lrc, lerr = run_ops(lean_driver(), '\n'.join(lines)+'\n'); t2=time.time()-t
print('lines', len(lines), 'cpp', len(cpp), 'rc', rc, '%.1fs'%t1, 'lean', len(lean), lrc, '%.1fs'%t2)
if rc != 0: print(err[-3000:])
if lrc != 0: print(lerr[-2000:])
n = 0; kinds = {}
for i in range(min(len(cpp), len(lean), len(lines))):
    for (k, d) in check.compare_line(lines[i], cpp[i], lean[i]):
        kinds[k] = kinds.get(k, 0) + 1
        if n < int(os.environ.get('SHOW', '6')):
            n += 1
            # find case start
            j = i
            while j > 0 and lines[j] != 'case': j -= 1
            print('----', k, 'line', i)
            for l in lines[j:i+1]: print('   ', check.readable(l)[:200])
            print('   ', d[:1500])
print(kinds)
