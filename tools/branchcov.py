#!/usr/bin/env python3
"""development / thorough-tier helper: BRANCH coverage of the library under the operation files the checks generate.
Builds harness/driver.cpp + the library of the CURRENT tree with gcov instrumentation (no sanitizers, -O0) in a scratch
directory outside /repo and /verif, runs the union of the quick (or thorough) streams of the given properties through it,
and lists every branch of include/upa/*.h and src/*.cpp that no operation took — the places where a changed guard would go
unnoticed by the correspondence.  Writes doc/branchcov.json (summary + the list); removes the scratch directory.
usage: branchcov.py [--tier quick|thorough] [--props C01,C03,...] [--seed N] [--keep]"""
import argparse, json, os, re, shutil, subprocess, sys, tempfile
sys.path.insert(0, os.path.dirname(os.path.abspath(__file__)))
import common as C, props as P, gencases

def main():
    ap = argparse.ArgumentParser()
    ap.add_argument('--tier', default='quick')
    ap.add_argument('--props', default=','.join(sorted(P.PROPS)))
    ap.add_argument('--seed', type=int, default=1)
    ap.add_argument('--keep', action='store_true')
    ap.add_argument('--out', default=os.path.join(C.VERIF, 'doc', 'branchcov.json'))
    a = ap.parse_args()
    repo = C.REPO
    d = tempfile.mkdtemp(prefix='upa_cov.')
    try:
        inc = os.path.join(repo, 'include'); src = os.path.join(repo, 'src')
        flags = ['-std=c++20', '-DUPA_VERIF_HOOKS', '-I' + inc, '-O0', '-g1', '--coverage', '-fno-inline', '-fno-elide-constructors']
        procs = []
        for f in C.LIB_SRCS:
            procs.append(subprocess.Popen(['g++'] + flags + ['-c', os.path.join(src, f), '-o', os.path.join(d, f + '.o')], cwd=d))
        procs.append(subprocess.Popen(['g++'] + flags + ['-c', os.path.join(C.VERIF, 'harness', 'driver.cpp'), '-o', os.path.join(d, 'harness.o')], cwd=d))
        if any(p.wait() != 0 for p in procs): print('build failed'); return 2
        exe = os.path.join(d, 'harness')
        subprocess.check_call(['g++'] + flags + [os.path.join(d, f + '.o') for f in C.LIB_SRCS] + [os.path.join(d, 'harness.o'), '-licuuc', '-licudata', '-lpthread', '-o', exe])
        total_ops = 0
        for pid in a.props.split(','):
            streams = P.PROPS[pid]['streams'][a.tier]
            g = gencases.generate(streams, 0, a.seed, [])
            text = '\n'.join(g.lines) + '\n'
            total_ops += len(g.lines)
            r = subprocess.run([exe], input=text, stdout=subprocess.DEVNULL, stderr=subprocess.PIPE, text=True, cwd=d)
            print('%s: %d operations, rc=%d' % (pid, len(g.lines), r.returncode), flush=True)
        # gcov (JSON format: per line, per function instantiation, branches with their `throw` flag) over every object
        import gzip
        objs = [f + '.o' for f in C.LIB_SRCS] + ['harness.o']
        for o in objs:
            subprocess.run(['gcov', '-b', '-c', '-j', '-o', d, os.path.join(d, o)], cwd=d, stdout=subprocess.DEVNULL, stderr=subprocess.DEVNULL)
        # (file, line) -> {number of non-exception branches -> [summed counts by position]}: instantiations of a template
        # (and the same inline function in several objects) are summed; exception edges the compiler adds to calls are dropped
        agg = {}
        ran = {}
        for fn in os.listdir(d):
            if not fn.endswith('.gcov.json.gz'): continue
            data = json.load(gzip.open(os.path.join(d, fn), 'rt'))
            for fobj in data.get('files', []):
                f = fobj['file']
                m = re.search(r'(include/upa/[\w.-]+|src/[\w.]+)$', f)
                if not m: continue
                f = m.group(1)
                for ln in fobj.get('lines', []):
                    key = (f, ln['line_number'])
                    ran[key] = ran.get(key, 0) + ln.get('count', 0)
                    br = [b for b in ln.get('branches', []) if not b.get('throw')]
                    if not br: continue
                    slot = agg.setdefault(key, {})
                    cur = slot.setdefault(len(br), [0] * len(br))
                    for i, b in enumerate(br): cur[i] += b.get('count', 0)
        srctext = {}
        def text_of(f, n):
            if f not in srctext:
                try: srctext[f] = open(os.path.join(repo, f), errors='replace').read().split('\n')
                except OSError: srctext[f] = []
            return srctext[f][n - 1].strip() if 0 < n <= len(srctext[f]) else ''
        summ = {}
        cond = []
        for (f, n), slot in sorted(agg.items()):
            s = summ.setdefault(f, {'branches': 0, 'taken': 0})
            for nb, counts in slot.items():
                s['branches'] += nb
                s['taken'] += sum(1 for c in counts if c > 0)
                if any(c == 0 for c in counts):
                    cond.append({'file': f, 'line': n, 'executions': ran.get((f, n), 0), 'branch_counts': counts, 'text': text_of(f, n)[:160]})
        out = {'tier': a.tier, 'seed': a.seed, 'properties': a.props.split(','), 'operations': total_ops, 'per_file': summ,
               'branches_total': sum(s['branches'] for s in summ.values()), 'branches_taken': sum(s['taken'] for s in summ.values()),
               'lines_with_a_branch_never_taken': len(cond), 'missed': cond}
        with open(a.out, 'w') as fh: json.dump(out, fh, indent=1)
        print('non-exception branches: %d / %d taken; %d source lines with a branch never taken -> %s' % (out['branches_taken'], out['branches_total'], len(cond), a.out))
        return 0
    finally:
        if not a.keep: shutil.rmtree(d, ignore_errors=True)
        else: print('kept', d)

if __name__ == '__main__':
    sys.exit(main())
