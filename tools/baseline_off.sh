#!/bin/bash
# Builds the repository's own test suite from /repo's current tree with the verification guard OFF
# (no -DUPA_VERIF_HOOKS) in a scratch directory outside /repo and /verif, runs ctest, removes the
# directory.  wpt-url and wpt-urlencoded-parser never build in this sandbox (picojson / ddt are not
# vendored: same in the pinned baseline), hence "-k 0".
set -u
REPO=${VERIF_REPO:-/repo}
B=$(mktemp -d /tmp/upa_baseline.XXXXXX)
trap 'rm -rf "$B"' EXIT
cmake -S "$REPO" -B "$B" -G Ninja -DCMAKE_BUILD_TYPE=RelWithDebInfo -DCMAKE_CXX_FLAGS=-Wno-error >"$B/cmake.log" 2>&1 || { tail -30 "$B/cmake.log"; exit 2; }
cmake --build "$B" -- -k 0 >"$B/build.log" 2>&1
ctest --test-dir "$B" -j8 --timeout 900 --output-junit "$B/junit.xml" >"$B/ctest.log" 2>&1
tail -25 "$B/ctest.log"
# the two WPT-data tests cannot be built offline (Not Run in the pinned baseline as well)
bad=$(grep -E "^\s+[0-9]+ - " "$B/ctest.log" | grep -v -E "wpt-url \(Not Run\)|wpt-urlencoded-parser \(Not Run\)" | wc -l)
passed=$(grep -c "   Passed " "$B/ctest.log")
echo "passed executables: $passed, unexpected failures: $bad"
rc=0; [ "$bad" -eq 0 ] && [ "$passed" -ge 14 ] || rc=1
python3 - "$B/junit.xml" <<'PY'
import sys, re
try:
    s = open(sys.argv[1]).read()
    m = re.search(r'tests="(\d+)"\s+failures="(\d+)"', s)
    print('junit:', m.group(0) if m else 'n/a')
except Exception as e:
    print('junit: unreadable', e)
PY
exit $rc
