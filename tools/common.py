"""Shared build / run utilities for the checks (DESIGN.md 2.4). All paths derive from __file__."""
import fcntl, hashlib, json, os, re, shutil, subprocess, sys, time

VERIF = os.path.dirname(os.path.dirname(os.path.abspath(__file__)))
REPO = os.environ.get('VERIF_REPO', '/repo')
LEAN = os.environ.get('VERIF_LEAN', os.path.join(VERIF, 'lean'))   # a scratch copy of the Lean project (development: parallel mutant runs)
CACHE = os.path.join(VERIF, '.cache')
LEAN_INC = '/opt/veriftools/lean-4.33.0-linux/include'
LIB_SRCS = ['url.cpp', 'url_idna.cpp', 'url_ip.cpp', 'url_percent_encode.cpp', 'url_search_params.cpp', 'url_utf.cpp']
NPROC = os.cpu_count() or 4

def sh(cmd, cwd=None, timeout=None, env=None, inp=None):
    p = subprocess.run(cmd, cwd=cwd, timeout=timeout, env=env, input=inp, stdout=subprocess.PIPE, stderr=subprocess.STDOUT, text=True)
    return p.returncode, p.stdout

def sha_files(paths, extra=''):
    h = hashlib.sha256()
    for p in sorted(paths):
        h.update(p.encode())
        try:
            with open(p, 'rb') as f: h.update(f.read())
        except OSError:
            h.update(b'<missing>')
    h.update(extra.encode())
    return h.hexdigest()[:16]

def repo_sources():
    out = []
    for d in ('include/upa', 'src'):
        dd = os.path.join(REPO, d)
        if os.path.isdir(dd):
            for f in sorted(os.listdir(dd)):
                if f.endswith(('.h', '.cpp')): out.append(os.path.join(dd, f))
    return out

class Lock:
    def __init__(self, name):
        os.makedirs(CACHE, exist_ok=True)
        self.path = os.path.join(CACHE, name + '.lock')
    def __enter__(self):
        self.f = open(self.path, 'w')
        fcntl.flock(self.f, fcntl.LOCK_EX)
        return self
    def __exit__(self, *a):
        fcntl.flock(self.f, fcntl.LOCK_UN)
        self.f.close()

def prune_cache(keep=10, min_age_s=3600):
    """keep the cache small: remove build directories that are old AND beyond the newest `keep`
    (never a directory that may still be in use by a concurrent check)"""
    try:
        now = time.time()
        ds = [os.path.join(CACHE, d) for d in os.listdir(CACHE) if os.path.isdir(os.path.join(CACHE, d))]
        ds.sort(key=lambda d: os.path.getmtime(d))
        for d in ds[:-keep]:
            if now - os.path.getmtime(d) > min_age_s: shutil.rmtree(d, ignore_errors=True)
        for f in os.listdir(CACHE):
            if f.endswith('.lock') and not os.path.isdir(os.path.join(CACHE, f[:-5])) and f[:2] in ('h_', 'c_', 'g_'):
                p = os.path.join(CACHE, f)
                if now - os.path.getmtime(p) > min_age_s:
                    try: os.remove(p)
                    except OSError: pass
    except OSError:
        pass

def build_harness(kind='asan', std='c++20', extra_flags=(), srcdir=None, harness='driver.cpp', opt='-O0'):
    """Builds harness/<harness> + the library sources of the CURRENT tree. Returns (path | None, log).
    kind: asan (ASan+UBSan, asserts on) | plain | tsan"""
    inc = os.path.join(srcdir or REPO, 'include')
    src = os.path.join(srcdir or REPO, 'src')
    hsrc = os.path.join(VERIF, 'harness', harness)
    # key: every header and every source file of the tree + every file of harness/ (harness files include one another)
    hdir = os.path.join(VERIF, 'harness')
    files = ([os.path.join(inc, 'upa', f) for f in sorted(os.listdir(os.path.join(inc, 'upa')))] + [os.path.join(src, f) for f in sorted(os.listdir(src)) if os.path.isfile(os.path.join(src, f))] +
             [os.path.join(hdir, f) for f in sorted(os.listdir(hdir)) if os.path.isfile(os.path.join(hdir, f))])
    flags = ['-std=' + std, '-DUPA_VERIF_HOOKS', '-I' + inc, '-g1'] + list(extra_flags)
    if kind == 'asan': flags += ['-fsanitize=address,undefined', '-fno-sanitize-recover=all', '-fno-omit-frame-pointer']
    elif kind == 'tsan': flags += ['-fsanitize=thread']
    key = sha_files(files, ' '.join(flags) + opt + kind + '|' + harness)
    out = os.path.join(CACHE, 'h_' + key)
    exe = os.path.join(out, 'harness')
    with Lock('h_' + key):
        if os.path.exists(exe):
            os.utime(out)
            return exe, 'cached'
        os.makedirs(out, exist_ok=True)
        procs = []
        for f in LIB_SRCS:
            o = os.path.join(out, f + '.o')
            procs.append((f, subprocess.Popen(['g++'] + flags + ['-O1', '-c', os.path.join(src, f), '-o', o], stdout=subprocess.PIPE, stderr=subprocess.STDOUT, text=True)))
        procs.append((harness, subprocess.Popen(['g++'] + flags + [opt, '-c', hsrc, '-o', os.path.join(out, 'harness.o')], stdout=subprocess.PIPE, stderr=subprocess.STDOUT, text=True)))
        log = ''
        ok = True
        for name, p in procs:
            o, _ = p.communicate()
            if p.returncode != 0:
                ok = False
                log += '--- %s\n%s\n' % (name, o[-4000:])
        if ok:
            objs = [os.path.join(out, f + '.o') for f in LIB_SRCS] + [os.path.join(out, 'harness.o')]
            rc, o = sh(['g++'] + flags + objs + ['-licuuc', '-licudata', '-lpthread', '-o', exe + '.tmp'])
            if rc != 0: ok = False; log += o[-4000:]
            else: os.replace(exe + '.tmp', exe)
        if not ok:
            shutil.rmtree(out, ignore_errors=True)
            return None, log
        for f in os.listdir(out):
            if f.endswith('.o'): os.remove(os.path.join(out, f))
    prune_cache()
    return exe, log

def build_oracle():
    """the ICU oracle object that the Lean driver links"""
    out = os.path.join(VERIF, 'build', 'idna_oracle.o')
    src = os.path.join(VERIF, 'harness', 'idna_oracle.c')
    with Lock('oracle'):
        if os.path.exists(out) and os.path.getmtime(out) >= os.path.getmtime(src): return True, ''
        os.makedirs(os.path.dirname(out), exist_ok=True)
        rc, o = sh(['gcc', '-c', '-O1', '-fPIC', '-I', LEAN_INC, src, '-o', out])
        return rc == 0, o

def lake_build(targets, timeout=3000):
    ok, o = build_oracle()
    if not ok: return 1, o
    with Lock('lake_' + hashlib.sha256(LEAN.encode()).hexdigest()[:8]):
        return sh(['lake', 'build'] + targets, cwd=LEAN, timeout=timeout)

def lean_driver():
    return os.path.join(LEAN, '.lake', 'build', 'bin', 'driver')

def run_ops(exe, ops_text, timeout=3600, env=None):
    """runs a driver on an operation file; returns (lines, returncode, stderr tail)"""
    e = dict(os.environ)
    e['ASAN_OPTIONS'] = 'detect_leaks=1:abort_on_error=0:allocator_may_return_null=1'
    e['UBSAN_OPTIONS'] = 'print_stacktrace=1'
    if env: e.update(env)
    p = subprocess.run([exe], input=ops_text, stdout=subprocess.PIPE, stderr=subprocess.PIPE, text=True, timeout=timeout, env=e)
    return p.stdout.split('\n')[:-1] if p.stdout.endswith('\n') else p.stdout.split('\n'), p.returncode, p.stderr[-6000:]

def split_steps(cpp_lines):
    """the harness appends ' %%<step>' (raw stored representation before / after an in-place edit) to the
    answer line of setter and params operations; returns (answer lines without it, [(line index, step)])"""
    out, steps = [], []
    for i, l in enumerate(cpp_lines):
        a, sep, b = l.partition(' %%')
        out.append(a)
        if sep: steps.append((i, b))
    return out, steps

def write_json(path, obj):
    os.makedirs(os.path.dirname(path), exist_ok=True)
    tmp = path + '.tmp'
    with open(tmp, 'w') as f: json.dump(obj, f, indent=1, ensure_ascii=True)
    os.replace(tmp, path)
