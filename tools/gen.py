#!/usr/bin/env python3
"""Regenerates lean/Upa/Gen/Tables.lean from /repo's CURRENT tree by compiling and running it
(DESIGN.md 2.2).  The theorems of Props/C13.lean, C07 (ICU options), C19 (globals) are stated over
these generated definitions and re-checked by the kernel on every run."""
import os, re, subprocess, sys, json
sys.path.insert(0, os.path.dirname(os.path.abspath(__file__)))
from common import *

MODES = ['c++11', 'c++14', 'c++17', 'c++20']
SETS = ['fragment', 'query', 'squery', 'path', 'rawpath', 'posixpath', 'userinfo', 'component']
CLASSES = ['fhost', 'fdomain', 'hex', 'ipv4char', 'scheme', 'asciidomain', 'digit', 'alpha']

def build_and_run(name, srcs, flags, outdir, libs=('-licuuc', '-licudata')):
    exe = os.path.join(outdir, name)
    rc, o = sh(['g++', '-O1', '-DUPA_VERIF_HOOKS', '-I' + os.path.join(REPO, 'include')] + list(flags) + srcs + list(libs) + ['-o', exe])
    if rc != 0: return None, o
    rc, o = sh([exe], timeout=120)
    if rc != 0: return None, o
    return o, ''

def gen(force=False):
    """returns (ok, info dict). Writes Tables.lean only when its content changes (keeps lake incremental)."""
    srcs = repo_sources()
    mine = [os.path.join(VERIF, 'harness', f) for f in ('gen_tables.cpp', 'gen_idna.cpp', 'icu_shim.h', 'cfg_driver.cpp')] + [os.path.abspath(__file__)]
    key = sha_files(srcs + mine)
    outdir = os.path.join(CACHE, 'g_' + key)
    target = os.path.join(LEAN, 'Upa', 'Gen', 'Tables.lean')
    info_path = os.path.join(outdir, 'info.json')
    with Lock('gen'):
        if not (os.path.exists(info_path) and not force):
            os.makedirs(outdir, exist_ok=True)
            info = {'modes': {}, 'errors': []}
            lib = [os.path.join(REPO, 'src', f) for f in LIB_SRCS]
            procs = {}
            for m in MODES:
                exe = os.path.join(outdir, 'gt_' + m.replace('+', 'p'))
                procs[m] = (exe, subprocess.Popen(['g++', '-O1', '-std=' + m, '-DUPA_VERIF_HOOKS', '-I' + os.path.join(REPO, 'include'), os.path.join(VERIF, 'harness', 'gen_tables.cpp')] + lib + ['-licuuc', '-licudata', '-o', exe], stdout=subprocess.PIPE, stderr=subprocess.STDOUT, text=True))
            # idna: library's url_idna.cpp with the shim force-included
            idna_exe = os.path.join(outdir, 'gen_idna')
            pidna = subprocess.Popen(['g++', '-O1', '-std=c++17', '-I' + os.path.join(REPO, 'include'), '-include', os.path.join(VERIF, 'harness', 'icu_shim.h'),
                                      os.path.join(REPO, 'src', 'url_idna.cpp'), '-c', '-o', os.path.join(outdir, 'url_idna_shim.o')], stdout=subprocess.PIPE, stderr=subprocess.STDOUT, text=True)
            # globals: plain objects of the library
            # the six library translation units in the oldest and a recent language mode (their code differs: tables
            # vs constexpr, string_view flavours), and one translation unit of USER code that instantiates the header
            # templates (harness/cfg_driver.cpp uses every public entry point): a writable function-local static in a
            # header template shows up there, not in the library objects
            pobj = {}
            for f in LIB_SRCS:
                for m in ('c++17', 'c++11'):
                    o = os.path.join(outdir, 'plain_%s_%s.o' % (m.replace('+', 'p'), f))
                    pobj[f + ('' if m == 'c++17' else '@' + m)] = (o, subprocess.Popen(['g++', '-O2', '-std=' + m, '-I' + os.path.join(REPO, 'include'), '-c', os.path.join(REPO, 'src', f), '-o', o], stdout=subprocess.PIPE, stderr=subprocess.STDOUT, text=True))
            for m in ('c++17', 'c++11'):
                o = os.path.join(outdir, 'user_%s.o' % m.replace('+', 'p'))
                pobj['<user code>' + ('' if m == 'c++17' else '@' + m)] = (o, subprocess.Popen(['g++', '-O2', '-w', '-std=' + m, '-I' + os.path.join(REPO, 'include'), '-c', os.path.join(VERIF, 'harness', 'cfg_driver.cpp'), '-o', o], stdout=subprocess.PIPE, stderr=subprocess.STDOUT, text=True))
            for m, (exe, p) in procs.items():
                o, _ = p.communicate()
                if p.returncode != 0:
                    info['errors'].append('compile %s: %s' % (m, o[-2000:])); continue
                rc, out = sh([exe], timeout=120)
                if rc != 0: info['errors'].append('run %s: %s' % (m, out[-2000:])); continue
                d = {}
                for line in out.splitlines():
                    k, _, v = line.partition(' ')
                    d.setdefault(k, []).append(v)
                info['modes'][m] = d
            o, _ = pidna.communicate()
            if pidna.returncode != 0: info['errors'].append('compile idna shim: ' + o[-2000:])
            else:
                rc, o = sh(['g++', '-O1', '-std=c++17', '-I' + os.path.join(REPO, 'include'), os.path.join(VERIF, 'harness', 'gen_idna.cpp'), os.path.join(outdir, 'url_idna_shim.o'), '-licuuc', '-licudata', '-o', idna_exe])
                if rc != 0: info['errors'].append('link gen_idna: ' + o[-2000:])
                else:
                    rc, o = sh([idna_exe], timeout=60)
                    if rc != 0: info['errors'].append('run gen_idna: ' + o[-2000:])
                    else: info['idna'] = dict(l.split(' ', 1) for l in o.splitlines())
            writable = []
            guard_once = False
            for f, (o, p) in pobj.items():
                out, _ = p.communicate()
                if p.returncode != 0: info['errors'].append('compile %s: %s' % (f, out[-2000:])); continue
                rc, nm = sh(['objdump', '-t', '-C', o])
                for line in nm.splitlines():
                    # "0000000000000000 l     O .bss	0000000000000008 upa::(anonymous namespace)::uidna_ptr"
                    m = re.match(r'^[0-9a-f]+\s+\S+\s+(?:\S+\s+)?(\.[\w.]+)\s+[0-9a-f]+\s+(.*)$', line)
                    if not m: continue
                    sec, sym = m.group(1), m.group(2).strip()
                    if sym.startswith('.') or not sym: continue
                    # writable data: .data / .bss / .tdata / .tbss and their per-symbol subsections; relocated
                    # read-only data (.data.rel.ro*) is mapped read-only after relocation
                    base = sec.split('.')[1] if '.' in sec else sec
                    if base in ('data', 'bss', 'tdata', 'tbss') and not sec.startswith('.data.rel.ro'):
                        if f.startswith('<user code>') and 'upa::' not in sym: continue   # the driver's own globals
                        name = f.split('@')[0] + ':' + sym
                        if name not in writable: writable.append(name)
                        if sym.startswith('guard variable for') and 'get_uidna' in sym: guard_once = True
            info['writable'] = sorted(writable)
            info['guard_once'] = guard_once
            write_json(info_path, info)
            for f in os.listdir(outdir):
                if f != 'info.json': os.remove(os.path.join(outdir, f))
        with open(info_path) as f: info = json.load(f)
    if info['errors']:
        return False, info
    # ---- emit Lean
    L = ['/- GENERATED by tools/gen.py from the current /repo tree (by executing it). Do not edit. -/', 'namespace Upa.Gen', '']
    for m in MODES:
        d = info['modes'][m]
        mm = 'cpp' + m[3:]
        for s in SETS + CLASSES:
            L.append('def %s_%s : Nat := 0x%s' % (mm, s, d[s][0]))
            L.append('def %s_%s_any : Nat := 0x%s' % (mm, s, d[s + '_any'][0]))
        L.append('def %s_encbyte : List Nat := [%s]' % (mm, ', '.join(str(int(x) % 2**32) for x in d['encbyte'][0].split())))
        L.append('def %s_hexnum : List Nat := [%s]' % (mm, ', '.join(d['hexnum'][0].split())))
        L.append('def %s_pctbyte_ok : Bool := %s' % (mm, 'true' if d['pctbyte'][0].strip() == '1' else 'false'))
        L.append('def %s_widemembers : Nat := %s' % (mm, d['widemembers'][0]))
        L.append('def %s_earlydiff : Nat := %s' % (mm, d['earlydiff'][0].split()[0]))
        L.append('def %s_partstart : List Nat := [%s]' % (mm, ', '.join(d['partstart'][0].split())))
        sch = []
        for v in d['schemeinfo']:
            p = v.split()
            name = '' if p[0] == '-' else p[0]
            chars = '[' + ', '.join(str(ord(c)) for c in name) + ']'
            if p[1] == 'none': sch.append('(%s, none)' % chars)
            else: sch.append('(%s, some (%d, %s, %s, %s, %s, %s))' % (chars, int(p[1]) + 1, 'true' if p[2] == '1' else 'false', 'true' if p[3] == '1' else 'false', 'true' if p[4] == '1' else 'false', 'true' if p[5] == '1' else 'false', p[6]))
        L.append('/-- (scheme text, get_scheme_info result: (default port + 1 (0 = none), special, file, http, ws, table index)) -/')
        L.append('def %s_schemes : List (List Nat × Option (Nat × Bool × Bool × Bool × Bool × Nat)) := [%s]' % (mm, ', '.join(sch)))
        L.append('def %s_partflagmask : List Nat := [%s]' % (mm, ', '.join(d['partflagmask'][0].split())))
        L.append('def %s_flags : List Nat := [%s]' % (mm, ', '.join(d['flags'][0].split())))
        L.append('')
    # literal tables that have no public lookup: transcribed from the source text (the only source-text
    # extraction; everything else above is observed by running the tree)
    utf = open(os.path.join(REPO, 'src', 'url_utf.cpp')).read()
    for cname, lname in (('k_U8_LEAD3_T1_BITS', 'u8Lead3T1Bits'), ('k_U8_LEAD4_T1_BITS', 'u8Lead4T1Bits')):
        m = re.search(cname + r'\[16\]\s*=\s*\{([^}]*)\}', utf)
        vals = [str(int(x.strip(), 0)) for x in m.group(1).split(',') if x.strip()] if m else []
        L.append('def %s : List Nat := [%s]' % (lname, ', '.join(vals)))
    # the scheme table and its length index (src/url.cpp): kLengthToSchemesInd / max_scheme_length are file-static,
    # so this too is read from the source text; the lookups they produce are observed by execution above (schemeinfo)
    ucpp = open(os.path.join(REPO, 'src', 'url.cpp')).read()
    m = re.search(r'kSchemes\[\]\s*=\s*\{(.*?)\n\};', ucpp, flags=re.S)
    rows = re.findall(r'\{\s*\{\s*"([^"]*)"\s*,\s*(\d+)\s*\}\s*,\s*(-?\d+)\s*,\s*(\d)\s*,\s*(\d)\s*,\s*(\d)\s*,\s*(\d)\s*\}', m.group(1) if m else '')
    L.append('/-- url::kSchemes as written in src/url.cpp (names, declared lengths, default ports (-1 = none), is_special, is_file) -/')
    L.append('def schemeNames : List (List Nat) := [%s]' % ', '.join('[' + ', '.join(str(ord(c)) for c in r[0]) + ']' for r in rows))
    L.append('def schemeDeclLens : List Nat := [%s]' % ', '.join(r[1] for r in rows))
    L.append('def schemePorts : List Int := [%s]' % ', '.join(r[2] for r in rows))
    L.append('def schemeSpecial : List Bool := [%s]' % ', '.join('true' if r[3] == '1' else 'false' for r in rows))
    L.append('def schemeFile : List Bool := [%s]' % ', '.join('true' if r[4] == '1' else 'false' for r in rows))
    m = re.search(r'max_scheme_length\s*=\s*(\d+)', ucpp)
    L.append('def maxSchemeLength : Nat := %s' % (m.group(1) if m else '0'))
    m = re.search(r'kLengthToSchemesInd\[\]\s*=\s*\{(.*?)\};', ucpp, flags=re.S)
    body = re.sub(r'//[^\n]*', '', m.group(1)) if m else ''
    L.append('def lengthToSchemesInd : List Nat := [%s]' % ', '.join(x.strip() for x in body.split(',') if x.strip()))
    L.append('')
    i = info['idna']
    L.append('def idnaOptions : Nat := %s' % i['options'])
    L.append('def idnaFatalMask : Nat := %s' % i['fatal'])
    L.append('def idnaEmptyFatal : Bool := %s' % ('true' if i['empty_fatal'] == '1' else 'false'))
    ov = i['overflow_retry'].split()
    L.append('def idnaOverflowRetryOk : Bool := %s' % ('true' if ov[0] == '1' else 'false'))
    L.append('def idnaOverflowCalls : Nat := %s' % ov[1])
    L.append('')
    L.append('/-- every symbol of the library objects that lives in a writable section (nm: b B d D) -/')
    L.append('def writableGlobals : List String := [%s]' % ', '.join(json.dumps(w) for w in info['writable']))
    L.append('/-- a C++11 "magic static" guard variable exists for get_uidna()::once -/')
    L.append('def idnaInitGuarded : Bool := %s' % ('true' if info['guard_once'] else 'false'))
    L.append('')
    L.append('end Upa.Gen')
    text = '\n'.join(L) + '\n'
    os.makedirs(os.path.dirname(target), exist_ok=True)
    old = open(target).read() if os.path.exists(target) else None
    if old != text:
        with open(target, 'w') as f: f.write(text)
    return True, info

if __name__ == '__main__':
    ok, info = gen(force='--force' in sys.argv)
    if not ok:
        print('\n'.join(info['errors'])); sys.exit(1)
    print('generated', os.path.join(LEAN, 'Upa', 'Gen', 'Tables.lean'))
    print('writable:', info['writable'], 'guard:', info['guard_once'])
    print('idna:', info['idna'])
