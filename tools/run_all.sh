#!/bin/bash
# development helper: every claimed check at several seeds; prints one line per run
cd "$(dirname "$0")/.."
TIER=${TIER:-quick}
SEEDS=${SEEDS:-"1 2 3"}
PROPS=${PROPS:-$(python3 -c "import json;print(' '.join(c['property_id'] for c in json.load(open('MANIFEST.json'))['checks']))")}
for s in $SEEDS; do for p in $PROPS; do
  out=$(VERIF_SEED=$s python3 tools/check.py --property $p --tier $TIER 2>&1 | grep -E "^(OK|VIOLATION|KNOWN-FINDING|Traceback)" | tr '\n' ';')
  echo "seed=$s $p: $out"
done; done
