#!/usr/bin/env python3
"""Per-property check (DESIGN.md 2.4).

  python3 tools/check.py --property C01 [--tier quick|thorough] [--replay FILE]

Pipeline: regenerate Gen tables from /repo's current tree -> lake build the property's theorems and the
model driver (kernel re-checks every theorem) -> audit (forbidden tokens, #print axioms) -> build the
C++ harness from the current tree (hooks on, asserts on, ASan+UBSan) -> correspondence on generated
operation files (corpus first) -> property predicates evaluated on the implementation -> known
findings -> evidence.  Exit 0 = property held on everything explored; exit 1 + "VIOLATION ..." otherwise.
"""
import random, argparse, json, os, re, sys, time, hashlib, subprocess
sys.path.insert(0, os.path.dirname(os.path.abspath(__file__)))
from common import *
import gen as gentables
import gencases
import props as P

FORBIDDEN = re.compile(r'\b(sorry|admit|native_decide|bv_decide|implemented_by|unsafe)\b|^\s*axiom\s|maxHeartbeats\s+0\b|@\[extern')
OK_AXIOMS = {'propext', 'Classical.choice', 'Quot.sound'}

def strip_comments(text):
    text = re.sub(r'/-.*?-/', '', text, flags=re.S)
    return re.sub(r'--.*', '', text)

def lean_files_of(modules):
    """transitive closure of imported Upa.* modules"""
    seen, todo = [], list(modules)
    while todo:
        m = todo.pop()
        if m in seen: continue
        f = os.path.join(LEAN, m.replace('.', '/') + '.lean')
        if not os.path.exists(f): continue
        seen.append(m)
        for imp in re.findall(r'^import\s+(Upa\.[\w.]+)', open(f).read(), flags=re.M): todo.append(imp)
    return seen

def audit(modules):
    """forbidden tokens outside comments in every file the property's theorems depend on, in EVERY model file (the
    drivers execute them all) and in the drivers themselves; the single documented FFI declaration of the model driver
    (the ICU oracle, Driver/Main.lean) is the one exception"""
    bad = []
    files = [os.path.join(LEAN, m.replace('.', '/') + '.lean') for m in lean_files_of(modules)]
    for sub in ('Upa/Impl', 'Upa/Spec', 'Upa/Gen', 'Driver'):
        d = os.path.join(LEAN, sub)
        if os.path.isdir(d): files += [os.path.join(d, f) for f in sorted(os.listdir(d)) if f.endswith('.lean')]
    files.append(os.path.join(LEAN, 'Upa', 'Basic.lean'))
    externs = 0
    for f in dict.fromkeys(files):
        if not os.path.exists(f): continue
        for i, line in enumerate(strip_comments(open(f).read()).splitlines()):
            if FORBIDDEN.search(line):
                if f.endswith(os.path.join('Driver', 'Main.lean')) and line.strip().startswith('@[extern "upa_idna_oracle"] opaque idnaRaw') and not re.search(r'sorry|admit|native_decide|implemented_by|unsafe ', line):
                    externs += 1
                    if externs == 1: continue
                bad.append('%s:%d: %s' % (f, i + 1, line.strip()[:120]))
    return bad

def theorems_of(module):
    f = os.path.join(LEAN, module.replace('.', '/') + '.lean')
    if not os.path.exists(f): return []
    return re.findall(r'^theorem\s+([\w.]+)', strip_comments(open(f).read()), flags=re.M)

def print_axioms(module, names):
    """{theorem: [axioms]} via `#print axioms` in a scratch file"""
    if not names: return {}
    src = 'import %s\nopen Upa.Props\n' % module + ''.join('#print axioms %s\n' % n for n in names)
    tmp = os.path.join(CACHE, 'ax_%s_%d.lean' % (module.replace('.', '_'), os.getpid()))
    os.makedirs(CACHE, exist_ok=True)
    with open(tmp, 'w') as f: f.write(src)
    try:
        rc, out = sh(['lake', 'env', 'lean', tmp], cwd=LEAN, timeout=600)
    finally:
        os.remove(tmp)
    res = {}
    for m in re.finditer(r"'([\w.]+)' (?:depends on axioms: \[([^\]]*)\]|does not depend on any axioms)", out.replace('\n', ' ')):
        full = m.group(1)
        ax = [a.strip() for a in (m.group(2) or '').split(',') if a.strip()]
        for n in names:
            if full == n or full.endswith('.' + n): res[n] = ax
    return res

# --------------------------------------------------------------------------- transcript comparison
HIDDEN = re.compile(r' seg=\d+ si=\S+ pe=\S+ canon=\d rp=\S')
SPPART = re.compile(r' sp=\S+(?: so=\d)?')

def public_view(s):
    """what the Spec column predicts: public observables only"""
    s = HIDDEN.sub('', s)
    s = re.sub(r' rpe=\S+', '', s)
    s = SPPART.sub('', s) if ' str=' not in s else re.sub(r' so=\d', '', s)
    s = re.sub(r'\bcp=\d ', '', s)
    s = re.sub(r'^ret=\d ', '', s)
    return s

PRED_PROP = {'canon': 'C08', 'rp': 'C02', 'lk': 'C06', 'own': 'C06', 'ser': 'C06', 'det': 'C06', 'ct': 'C09', 'cp': 'C09',
             'inj': 'C17', 'shape': 'C17', 'rt': 'C17', 'fix': 'C17', 'probe': 'C05'}
# the properties about the runtime have their own observables: for them a difference between the library and the model
# is a broken correspondence (the theorems no longer transfer), not a failing input of the property itself
RUNTIME_KINDS = {'C04': ('crash',), 'C18': ('config',), 'C19': ('race', 'threads'), 'C20': ('fault',)}

# which operations exercise which property (an impl / spec divergence on another operation is a break of the model
# correspondence, not a failing input of this property)
OP_PROPS = {
    'parse': 'C01 C02 C05 C08 C09 C10 C07', 'aparse': 'C01 C05 C09', 'aparseb': 'C01 C05 C09', 'aparsebg': 'C01 C05 C09', 'aparsesp': 'C01 C05 C09 C06',
    'set': 'C03 C02 C05 C08 C10 C07', 'aset': 'C03 C05', 'dump': 'C05 C06 C03', 'probe': 'C05', 'obj': 'C05 C06',
    'sp': 'C06 C16 C15 C10 C05', 'psp': 'C15 C16 C10 C06', 'host': 'C07 C10', 'idnahyp': 'C07',
    'ipv4': 'C11 C07', 'ends': 'C11 C07', 'ipv4ser': 'C11', 'ipv6': 'C12 C07', 'ipv6ser': 'C12',
    'penc': 'C14 C10', 'pencset': 'C14', 'pdec': 'C14 C10', 'utf': 'C10', 'cmp': 'C16 C10', 'member': 'C13',
    'frompath': 'C17 C10', 'topath': 'C17', 'rt': 'C17', 'buf': 'C04 C18 C20', 'sv': 'C18 C04',
}

def is_failing_input_for(pid, kind, op=None):
    """does a divergence of this kind exhibit a violation of property pid itself (then the replay is the failing
    input), or only a break of the correspondence its theorems rest on (then: no-failing-input-found)?"""
    k = kind.split(':')[0]
    if kind == 'hypothesis': return False
    if pid in RUNTIME_KINDS: return k in RUNTIME_KINDS[pid]
    if k == 'pred':
        owner = PRED_PROP.get(kind.split(':')[1])
        # a false predicate of ANOTHER property is evidence against that one; for this one the correspondence broke
        return owner is None or owner == pid or pid in ('C01', 'C03', 'C05') and owner in ('C02', 'C05', 'C08', 'C09')
    if k in ('impl', 'spec') and op:
        t = op.split(' ')[0]
        return t not in OP_PROPS or pid in OP_PROPS[t].split(' ')
    return True

def compare_line(op, cpp, lean):
    """returns list of (kind, detail). kinds: impl (C++ != model), spec (C++ != Standard), hidden (only hidden
    state differs), pred:<name> (a property predicate evaluated on the implementation is false), crash"""
    out = []
    main, _, preds = cpp.partition(' @@')
    impl, _, spec = lean.partition(' ## ')
    if main.startswith('EXC:') or 'WIDTH-DIFF' in main or main == 'BAD':
        out.append(('crash', main))
    if impl.startswith('hyp=0'):
        out.append(('hypothesis', 'an instance of an IDNA hypothesis of the theorems (%s) is false for ICU ToASCII at this host: the theorems that assume it do not cover this input' % impl[6:]))
    elif main != impl:
        if public_view(main) == public_view(impl) and re.sub(r' so=\d', '', SPPART.sub('', main)) != main:
            out.append(('hidden', 'C++ %s | model %s' % (HIDDEN.findall(main) + SPPART.findall(main) + re.findall(r' rpe=\S+', main), HIDDEN.findall(impl) + SPPART.findall(impl) + re.findall(r' rpe=\S+', impl))))
        else:
            out.append(('impl', 'C++ %s | model %s' % (main, impl)))
    if spec not in ('~', '') and not spec.startswith('live=') and public_view(main) != public_view(spec) and public_view(main) != spec:
        out.append(('spec', 'C++ %s | Standard %s' % (public_view(main), spec)))
    for m in re.finditer(r'(\w+)=0', preds):
        out.append(('pred:' + m.group(1), preds.strip()))
    for m in re.finditer(r'\b(canon|rp)=0', main):
        out.append(('pred:' + m.group(1), main))
    if 'probe=DIFF' in main: out.append(('pred:probe', main))
    m = re.match(r'ok=(\d) cp=(\d)', main)
    if m and m.group(1) != m.group(2): out.append(('pred:cp', main[:12]))
    return out

def split_cases(lines):
    """[(start index, [lines])] — a case starts at a `case` line"""
    cases, cur, start = [], [], 0
    for i, l in enumerate(lines):
        if l == 'case' and cur:
            cases.append((start, cur)); cur = []; start = i
        cur.append(l)
    if cur: cases.append((start, cur))
    return cases

class Runner:
    def __init__(self, harness):
        self.harness = harness
        self.driver = lean_driver()
        self.runs = 0
    def run(self, lines, need_model=True):
        text = '\n'.join(lines) + '\n'
        self.runs += 1
        cpp, rc, err = run_ops(self.harness, text)
        cpp, self.last_steps = split_steps(cpp)
        lean = None
        if need_model:
            lean, lrc, lerr = run_ops(self.driver, text)
            if lrc != 0 or len(lean) != len(lines):
                raise RuntimeError('model driver failed (rc=%s, %d/%d lines): %s' % (lrc, len(lean), len(lines), lerr[-2000:]))
        return cpp, rc, err, lean

def find_crash_line(runner, lines, cpp_out):
    """the harness died (sanitizer, assert, watchdog): the line after the last answered one"""
    return len(cpp_out) if len(cpp_out) < len(lines) else None

def shrink(runner, case_lines, fail_idx, kind_prefix):
    """delta debugging over the operation list (failing op stays last), then over each argument"""
    def fails(ls):
        try:
            cpp, rc, err, lean = runner.run(ls)
        except Exception:
            return False
        if len(cpp) < len(ls): return kind_prefix == 'crash'
        for (k, _) in compare_line(ls[-1], cpp[-1], lean[-1]):
            # a candidate that falls into the input class of a recorded finding is not a smaller instance of THIS
            # violation: the replay would be suppressed as known and would not reproduce what is reported
            if k.split(':')[0] == kind_prefix.split(':')[0] and not known_class(ls[-1], k): return True
        return False
    cur = case_lines[:fail_idx + 1]
    budget = 150
    # remove earlier operations
    i = 1
    while i < len(cur) - 1 and budget > 0:
        cand = cur[:i] + cur[i + 1:]
        budget -= 1
        if fails(cand): cur = cand
        else: i += 1
    # shrink unit lists of every operation
    for li in range(len(cur)):
        toks = cur[li].split(' ')
        for ti, tok in enumerate(toks):
            if ',' not in tok or budget <= 0: continue
            pre, sep, body = tok.rpartition(':') if tok.startswith('t') else ('', '', tok)
            us = body.split(',')
            n = len(us) // 2
            while n >= 1 and budget > 0:
                j = 0
                while j + n <= len(us) and budget > 0:
                    cand_us = us[:j] + us[j + n:]
                    t2 = list(toks); t2[ti] = pre + sep + (','.join(cand_us) if cand_us else '-')
                    cand = cur[:li] + [' '.join(t2)] + cur[li + 1:]
                    budget -= 1
                    if fails(cand): us = cand_us; toks = t2; cur = cand
                    else: j += n
                n //= 2
    return cur

def decode_units(tok):
    try:
        if tok == '-': return ''
        return ''.join(chr(int(x, 16)) if int(x, 16) < 0x110000 and not (0xD800 <= int(x, 16) <= 0xDFFF) else '\\x{%s}' % x for x in tok.split(','))
    except ValueError:
        return None

def readable(op):
    """human-readable rendering of an operation line for replays and evidence samples"""
    out = []
    for t in op.split(' '):
        if re.fullmatch(r'[0-9a-f]+(,[0-9a-f]+)+|[0-9a-f]{2,}', t) and ',' in t:
            d = decode_units(t); out.append(repr(d) if d is not None else t)
        elif t.startswith('t') and ':' in t:
            d = decode_units(t.split(':', 1)[1]); out.append('base=' + (repr(d) if d is not None else t))
        else: out.append(t)
    return ' '.join(out)

# --------------------------------------------------------------------------- known findings
def load_known():
    p = os.path.join(VERIF, 'known_findings.json')
    if not os.path.exists(p): return {'findings': [], 'fixed': []}
    return json.load(open(p))

def bad_utf8(us):
    try:
        bytes(us).decode('utf-8'); return False
    except (UnicodeDecodeError, ValueError):
        return True

ACTIVE_FINDINGS = {}   # id -> set of properties, from known_findings.json 'findings' (filled in main)
CURRENT_PID = [None]

def known_class(op, kind):
    """does this divergence fall into the input class of a finding that is LISTED as unfixed in known_findings.json for
    the property being checked?  returns finding id or None.  (A finding moved to 'fixed', or not listing this property,
    suppresses nothing.)"""
    k = _known_class(op, kind)
    if k and k in ACTIVE_FINDINGS and CURRENT_PID[0] in ACTIVE_FINDINGS[k]: return k
    return None

def _known_class(op, kind):
    toks = op.split(' ')
    if toks[0] in ('sp', 'psp') and len(toks) >= 3:
        args = toks[3:]
        encs8 = [args[i + 1] for i in range(0, len(args) - 1, 2) if args[i] == '8']
        def us(t):
            try: return [int(x, 16) for x in t.split(',')] if t != '-' else []
            except ValueError: return []
        ill = [u for u in map(us, encs8) if any(x > 255 for x in u) is False and bad_utf8(u)]
        if toks[2] in ('append', 'set', 'del', 'del2', 'remove', 'remove2', 'has', 'has2', 'getv', 'getall') and ill and kind in ('spec', 'pred:lk'):
            return 'F3'
        # F4: a raw byte >= 0x80 directly before an escape, or an escape directly before a raw byte >= 0x80
        def f4(u):
            return any((u[i] >= 0x80 and u[i + 1] == 0x25) for i in range(len(u) - 1)) or any((u[i] == 0x25 and u[i + 3] >= 0x80) for i in range(len(u) - 3))
        if toks[2] in ('ctor', 'parse') and kind == 'spec' and any(f4(u) for u in ill):
            return 'F4'
    if toks[0] == 'rt' and len(toks) == 4 and toks[1] == 'windows' and kind == 'pred:fix':
        import unicodedata
        try:
            us = [int(x, 16) for x in toks[3].split(',')] if toks[3] != '-' else []
            if toks[2] == '8': t = bytes(u & 0xFF for u in us).decode('utf-8', 'replace')
            elif toks[2] == '16': t = b''.join((u & 0xFFFF).to_bytes(2, 'little') for u in us).decode('utf-16-le', 'replace')
            else: t = ''.join(chr(u) if u < 0x110000 else '\ufffd' for u in us)
        except (ValueError, OverflowError):
            t = ''
        m = re.match(r'^[\\/]{2}(?:[?.][\\/][uU][nN][cC][\\/])?([^\\/]+)[\\/]', t)
        if m:
            # what UTS #46 makes of the server name, approximately: ignored code points (soft hyphen, zero-width and other
            # format characters, variation selectors) dropped, compatibility mapping, case folding
            srv = ''.join(c for c in m.group(1) if unicodedata.category(c) != 'Cf' and not (0xFE00 <= ord(c) <= 0xFE0F or 0xE0100 <= ord(c) <= 0xE01EF or ord(c) == 0x034F or 0x180B <= ord(c) <= 0x180D))
            if unicodedata.normalize('NFKC', srv).lower() == 'localhost': return 'F6'
    return None

# --------------------------------------------------------------------------- main
def main():
    ap = argparse.ArgumentParser()
    ap.add_argument('--property', required=True)
    ap.add_argument('--tier', default=os.environ.get('VERIF_TIER', 'quick'))
    ap.add_argument('--replay')
    a = ap.parse_args()
    pid = a.property
    cfg = P.PROPS[pid]
    tier = a.tier if a.tier in ('quick', 'thorough') else 'quick'
    seed = int(os.environ.get('VERIF_SEED', '1'))
    t0 = time.time()
    ev = {'property_id': pid, 'tier': tier, 'seed': seed, 'level': cfg['level'], 'coverage': {}, 'assumptions': list(cfg.get('assumptions', [])), 'wall_s': 0.0, 'violations': 0}
    cov = ev['coverage']
    violations = []   # (kind, replay lines, detail, failing_input_found)
    broken = []       # proof obligations / correspondences that no longer check

    def finish():
        ev['wall_s'] = round(time.time() - t0, 2)
        ev['violations'] = len(violations)
        # a run that stopped before the obligations were counted still states them (none discharged)
        cov.setdefault('obligations', 0); cov.setdefault('discharged', 0)
        cov.setdefault('checker_cmd', 'cd lean && lake build %s' % ' '.join(cfg['modules']))
        cov.setdefault('trusted_base', P.TRUSTED_BASE)
        # a replay is not the property's evidence: it goes to its own file
        evname = pid + ('.replay' if a.replay else '') + '.json'
        write_json(os.path.join(os.environ.get('VERIF_EVIDENCE_DIR', os.path.join(VERIF, 'evidence')), evname), ev)
        if violations:
            violations.sort(key=lambda v: 0 if v[3] else 1)   # concrete failing inputs of this property first
            rdir = os.path.join(os.environ.get('VERIF_REPLAY_DIR', os.path.join(VERIF, 'replays')), pid)
            os.makedirs(rdir, exist_ok=True)
            for n, (kind, lines, detail, found) in enumerate(violations[:5]):
                h = hashlib.sha256(('\n'.join(lines) + kind).encode()).hexdigest()[:12]
                path = os.path.join(rdir, h + '.ops')
                with open(path, 'w') as f:
                    f.write('# property %s  kind %s\n' % (pid, kind))
                    for d in detail.split('\n'): f.write('# ' + d + '\n')
                    for l in lines: f.write('# op: ' + readable(l) + '\n')
                    f.write('\n'.join(lines) + '\n')
                print('VIOLATION property=%s replay=%s%s' % (pid, os.path.relpath(path, VERIF), '' if found else ' no-failing-input-found'))
            sys.exit(1)
        print('OK property=%s tier=%s seed=%d wall=%.1fs' % (pid, tier, seed, time.time() - t0))
        sys.exit(0)

    # ---- 1. regenerate tables
    ok, info = gentables.gen()
    if not ok:
        # the tree no longer compiles in some language mode: the tie itself is broken
        violations.append(('gen', ['# gen'], 'regeneration failed:\n' + '\n'.join(info['errors'])[:3000], False))
        finish()

    # ---- 2. lake build: theorems re-checked by the kernel
    modules = cfg['modules']
    rc, out = lake_build(modules + ['driver', 'owngen'])
    obligations = {}
    if rc != 0:
        errs = re.findall(r'error: (\S+?\.lean):(\d+):\d+: (.*)', out)
        failing_mods = sorted(set(e[0] for e in errs))
        detail = 'lake build failed; broken proof obligations in: %s\n%s' % (', '.join(failing_mods), '\n'.join('%s:%s: %s' % e for e in errs[:20]))
        broken.append(detail)
        # the model driver may still build (it does not import Props): try it alone for the search
        rc2, out2 = lake_build(['driver', 'owngen'])
        if rc2 != 0:
            violations.append(('proof', ['# lake build'], detail + '\n' + out[-3000:], False))
            finish()
    # ---- 3. audit
    bad = audit(modules)
    if bad:
        violations.append(('audit', ['# audit'], 'forbidden tokens in proof files:\n' + '\n'.join(bad[:20]), False))
        finish()
    thms = {}
    if not broken:
        for m in modules:
            names = theorems_of(m)
            ax = print_axioms(m, names)
            for n in names:
                thms[n] = ax.get(n)
                if ax.get(n) is None or not set(ax[n]) <= OK_AXIOMS:
                    violations.append(('axioms', ['# axioms'], 'theorem %s: axioms %s' % (n, ax.get(n)), False))
        if violations: finish()
    if tier == 'thorough' and not broken and os.environ.get('VERIF_SKIP_LEANCHECKER') != '1':
        for m in modules:
            rc, out = sh(['lake', 'env', 'leanchecker', m], cwd=LEAN, timeout=3000)
            cov.setdefault('leanchecker', {})[m] = 'ok' if rc == 0 else out[-500:]
            if rc != 0:
                violations.append(('leanchecker', ['# leanchecker ' + m], out[-2000:], False))
        if violations: finish()
    # obligations = the theorems found in the property files; discharged = those for which `#print axioms` ran in
    # this run and printed an accepted axiom set (both counted from this run's output). The regenerated facts
    # (gen_obligations) are premises of some of these theorems, listed for the reader, not counted again.
    cov['obligations'] = sum(len(theorems_of(m)) for m in modules)
    cov['discharged'] = 0 if broken else sum(1 for n in thms if thms[n] is not None and set(thms[n]) <= OK_AXIOMS)
    cov['theorems'] = {n: thms[n] for n in sorted(thms)}
    cov['gen_obligations'] = cfg.get('gen_obligations', [])
    cov['checker_cmd'] = 'cd lean && lake build %s   # Lean 4.33 kernel; #print axioms per theorem; thorough: lake env leanchecker <module>' % ' '.join(modules)
    cov['trusted_base'] = P.TRUSTED_BASE + cfg.get('trusted_extra', [])
    cov['partial'] = cfg.get('partial', [])

    # ---- 4. harness + correspondence
    harness, log = build_harness('asan')
    if harness is None:
        violations.append(('build', ['# harness build'], 'the harness does not build against the current tree:\n' + log[-3000:], False))
        finish()
    runner = Runner(harness)
    corpus = []
    cdir = os.path.join(VERIF, 'corpus', pid)
    if os.path.isdir(cdir):
        for f in sorted(os.listdir(cdir)):
            corpus += [l for l in open(os.path.join(cdir, f)).read().split('\n') if l and not l.startswith('#')]
    own_history = None
    if a.replay:
        lines = [l for l in open(a.replay).read().split('\n') if l and not l.startswith('#')]
        if lines[:1] == ['RESET']: own_history, lines = lines, []    # a history of the pointer-graph replay (extra ownreplay)
        streams = []
    else:
        streams = cfg['streams'][tier]
        if broken: streams = cfg['streams'].get('search', cfg['streams']['thorough'])
        g = gencases.generate(streams, 0, seed, corpus)
        lines = g.lines
        cov['input_distribution'] = dict(sorted(g.stats.items()))
    cov['streams'] = streams
    extra = cfg.get('extra_checks', [])
    kinds = {}
    samples = []
    distinct = set()
    known_hits = {}
    tainted = set()
    foreign = {}
    CURRENT_PID[0] = pid
    for f in load_known().get('findings', []): ACTIVE_FINDINGS[f['id']] = set(f.get('properties', []))
    if lines:
        cpp, rc, err, lean = runner.run(lines)
        runner.main_steps = runner.last_steps
        crash_at = find_crash_line(runner, lines, cpp)
        n = min(len(cpp), len(lines))
        cases = split_cases(lines)
        case_of = {}
        for (s, ls) in cases:
            for j in range(len(ls)): case_of[s + j] = (s, ls)
        seen_cases = set()
        # pass 1: classify every line; per case remember the first public and the first hidden-only divergence
        first_pub, first_hid = {}, {}
        for i in range(n):
            res = compare_line(lines[i], cpp[i], lean[i])
            if lines[i] != 'case':
                distinct.add(cpp[i].split(' @@')[0])
            if lines[i].startswith('idnahyp '):
                hl = cov.setdefault('idna_hypothesis_instances', {'hosts': 0, 'ascii': 0, 'persist': 0, 'out_ascii': 0, 'idem': 0, 'false': 0})
                hl['hosts'] += 1
                live = lean[i].partition('## live=')[2]
                for ch, nm in (('a', 'ascii'), ('p', 'persist'), ('o', 'out_ascii'), ('i', 'idem')):
                    if ch in live: hl[nm] += 1
                if 'hyp=0' in lean[i]: hl['false'] += 1
            # an F3-class operation (char-typed ill-formed name / value stored raw) leaves the list — and the URL's
            # query — in a state the Standard-shaped column cannot follow: the rest of the case stays in the class
            # (the comparison with the code-shaped model stays in force)
            for (kind, detail) in res:
                kf = known_class(lines[i], kind)
                if kf == 'F3': tainted.add(case_of[i][0])      # this operation DID store a raw ill-formed string
                if not kf and case_of[i][0] in tainted and kind in ('spec', 'pred:lk') and lines[i].split(' ')[0] in ('sp', 'psp', 'dump', 'obj', 'set'): kf = 'F3'
                # a predicate that belongs to ANOTHER property is that property's business; the runtime properties rest on
                # the model correspondence (impl) and their own observables only
                if not kf and pid in RUNTIME_KINDS and kind.startswith('pred:') and PRED_PROP.get(kind.split(':')[1]) not in (None, pid):
                    foreign[kind] = foreign.get(kind, 0) + 1; continue
                if kf:
                    known_hits[kf] = known_hits.get(kf, 0) + 1; continue
                kinds[kind] = kinds.get(kind, 0) + 1
                s0 = case_of[i][0]
                d = first_hid if kind == 'hidden' else first_pub
                if s0 not in d: d[s0] = (i, kind, detail)
        # pass 2: public divergences are failing inputs as they stand (a hidden divergence earlier in the same
        # case is then its cause and is named in the detail)
        for s0 in sorted(first_pub):
            if len(violations) >= 5: break
            i, kind, detail = first_pub[s0]
            s, ls = case_of[i]
            if s0 in first_hid and first_hid[s0][0] < i:
                detail += '\nhidden state had diverged before, at: %s (%s)' % (readable(lines[first_hid[s0][0]]), first_hid[s0][2][:300])
            small = shrink(runner, ls, i - s, kind)
            fi = is_failing_input_for(pid, kind, lines[i])
            if not fi: detail += '\n(for property %s this is a break of the correspondence its theorems rest on, not an observed violation of the property itself)' % pid
            violations.append((kind, small, '%s\n%s' % (kind, detail[:3000]), fi))
            seen_cases.add(s0)
        # pass 3: hidden state only (offsets / flags / segment count / params list / sorted flag), no public
        # divergence in that case: search for a public manifestation. Stale bookkeeping shows itself in a LATER
        # operation, so follow-up operations are appended to the UNSHRUNK history (it has the most state):
        # a fixed battery first, then the operation lists of other cases of the same run (same object slots).
        # (cases that contain an operation of a known-finding input class are not used as follow-ups: what diverges in
        # them is the finding, not a manifestation of the hidden difference)
        other_cases = [ls2[1:] for (_, ls2) in cases if len(ls2) > 1 and not any(_known_class(l, k) for l in ls2 for k in ('spec', 'pred:fix'))]
        for s0 in sorted(first_hid):
            if s0 in seen_cases or len(violations) >= 5: continue
            if violations and all(v[3] for v in violations) and len(violations) >= 2: break   # enough concrete inputs already
            i, kind, detail = first_hid[s0]
            s, ls = case_of[i]
            seen_cases.add(s0)
            prefix = ls[:i - s + 1]
            small = None
            found = False
            followups = [['probe 0'], ['probe 1'], ['dump 0'], ['dump 1'], ['sp 0 sort', 'dump 0'], ['sp 1 sort', 'dump 1'],
                         ['sp 0 append 8 7a 8 31', 'dump 0'], ['sp 1 append 8 7a 8 31', 'dump 1'], ['psp 0 sort'], ['psp 1 sort'],
                         ['psp 0 append 8 7a 8 31', 'psp 0 append 8 61 8 32', 'psp 0 sort'], ['psp 1 append 8 7a 8 31', 'psp 1 append 8 61 8 32', 'psp 1 sort'],
                         ['psp 0 append 8 ee,80,80 8 31', 'psp 0 append 8 f0,90,80,80 8 32', 'psp 0 sort'],
                         ['sp 0 append 8 7a 8 31', 'sp 0 append 8 61 8 32', 'sp 0 sort', 'dump 0'], ['sp 1 append 8 7a 8 31', 'sp 1 append 8 61 8 32', 'sp 1 sort', 'dump 1'],
                         ['set 0 pathname 8 2f,2e,2e,2f,78', 'dump 0'], ['set 1 pathname 8 2f,2e,2e,2f,78', 'dump 1'],
                         ['parse 2 8 2e,2e,2f,79 s0', 'dump 2'], ['parse 2 8 2e,2e,2f,79 s1', 'dump 2'],
                         ['parse 2 8 - s0', 'dump 2'], ['parse 2 8 3f,71 s0', 'dump 2'], ['parse 2 8 23,66 s1', 'dump 2']]
            rnd = random.Random(seed * 7919 + i)
            extra_fu = list(other_cases); rnd.shuffle(extra_fu)
            for fu in followups + extra_fu[:120]:
                aug = prefix + fu
                try:
                    c2, _, _, l2 = runner.run(aug)
                except Exception:
                    continue
                hit = None
                for jj in range(len(prefix), min(len(c2), len(aug))):
                    r2 = [k for (k, _) in compare_line(aug[jj], c2[jj], l2[jj]) if k != 'hidden' and not known_class(aug[jj], k)]
                    if r2: hit = (jj, r2[0], c2[jj]); break
                if hit:
                    small = shrink(runner, aug[:hit[0] + 1], hit[0], hit[1])
                    found = is_failing_input_for(pid, hit[1], aug[hit[0]])
                    detail += '\nhidden state diverged at: %s\npublic manifestation (%s): %s' % (readable(ls[i - s]), hit[1], hit[2][:300])
                    break
            if small is None:
                small = shrink(runner, ls, i - s, kind)
                detail += '\ncorrespondence (hidden state: offsets / flags / segment count / params list) no longer checks for operation: ' + readable(small[-1])
            violations.append((kind, small, '%s\n%s' % (kind, detail[:3000]), found))
        if crash_at is None and rc != 0:
            # complete transcript but a non-zero exit: LeakSanitizer (or another report) at process exit. Find the
            # shortest prefix of cases that still leaks, then the case alone.
            lo, hi = 0, len(cases)
            def leaks(ls):
                try:
                    c2, rc2, err2, _ = runner.run(ls, need_model=False)
                except Exception:
                    return False
                return rc2 != 0 and len(c2) >= len(ls)
            budget = 24
            while hi - lo > 1 and budget > 0:
                mid = (lo + hi) // 2; budget -= 1
                if leaks([l for (_, ls2) in cases[:mid] for l in ls2]): hi = mid
                else: lo = mid
            culprit = cases[hi - 1][1] if cases else lines
            alone = leaks(culprit)
            violations.append(('crash', culprit if alone else [l for (_, ls2) in cases[:hi] for l in ls2][-400:],
                               'the harness answered every operation but exited with rc=%s: a sanitizer report at process exit (LeakSanitizer: memory leaked by one of these operations)\n%s' % (rc, err[-3000:]), True))
            kinds['crash'] = kinds.get('crash', 0) + 1
        if crash_at is not None and crash_at < len(lines):
            s, ls = case_of[crash_at]
            small = shrink(runner, ls, crash_at - s, 'crash')
            violations.append(('crash', small, 'the harness died on this operation (sanitizer report, failed assertion, foreign exception or watchdog); rc=%s\n%s' % (rc, err[-3000:]), True))
            kinds['crash'] = kinds.get('crash', 0) + 1
        # samples for the evidence
        step = max(1, n // 6)
        for i in range(1, n, step):
            if lines[i] != 'case': samples.append({'op': readable(lines[i])[:300], 'impl': cpp[i][:300]})
        cov['evaluations'] = n
        cov['distinct_nontrivial'] = len(distinct)
        cov['rule'] = 'operations executed on the real library and on the Lean model (and the Standard-shaped Spec where it has an answer); distinct = distinct C++ answer lines (an answer line contains every getter / result of the operation); the trivial "case" separators are not counted'
        cov['samples'] = samples[:8]
        cov['mismatch_kinds'] = kinds
    # ---- 5. extra runtime checks of this property (C18 configurations, C19 threads, C20 faults)
    for name in extra:
        import extra as X
        r = getattr(X, name)(tier, seed, runner, own_history if (own_history and name in ('ownreplay', 'ownsafe')) else lines)
        cov[name] = r.get('coverage', {})
        if name == 'configs':
            # level translation_validation: its own keys at the top level of coverage
            cov['programs'] = cov[name].get('programs', 0)
            cov['disagreements_checked'] = cov[name].get('disagreements_checked', 0)
        for v in r.get('violations', []): violations.append(v)
    # ---- 6. broken proof obligations: the search above ran with the enlarged budget
    if broken:
        if not violations:
            violations.append(('proof', ['# lake build ' + ' '.join(modules)], 'a proof obligation no longer checks and the search found no failing input:\n' + '\n'.join(broken), False))
        else:
            violations = [(k, l, d + '\n(also: ' + broken[0][:500] + ')', f) for (k, l, d, f) in violations]
    # ---- 7. known findings
    kf = load_known()
    kcov = []
    for f in kf.get('findings', []):
        if pid not in f['properties']: continue
        c2, _, _, l2 = runner.run(f['ops'])
        reproduced = False
        for j in range(min(len(c2), len(f['ops']))):
            for (k, _) in compare_line(f['ops'][j], c2[j], l2[j]):
                if k in f['kinds']: reproduced = True
        if reproduced:
            print('KNOWN-FINDING: property=%s %s: %s' % (pid, f['id'], f.get('short', f['what'])))
        kcov.append({'id': f['id'], 'reproduced': reproduced, 'class_hits_in_streams': known_hits.get(f['id'], 0)})
    cov['known_findings'] = kcov
    # divergences that fell into a listed finding's input class in this run, whatever the property (they are never
    # reported as violations; for the properties the finding lists, the KNOWN-FINDING line above stands for them)
    cov['known_class_divergences_suppressed'] = dict(sorted(known_hits.items()))
    if foreign: cov['predicates_of_other_properties_false'] = dict(sorted(foreign.items()))
    cov['fixed_findings'] = [x for x in kf.get('fixed', []) if pid in x.get('properties', [])]
    finish()

if __name__ == '__main__':
    try:
        main()
    except SystemExit:
        raise
    except BaseException as e:
        # the check itself failed (a driver died, a time limit fired, …): the property was NOT shown to hold in this
        # run. Say so in the interface's terms and do not leave an older evidence file standing.
        import traceback
        tb = traceback.format_exc()
        sys.stderr.write(tb)
        pid = ([a for i, a in enumerate(sys.argv) if i > 0 and sys.argv[i - 1] == '--property'] or ['unknown'])[0]
        rdir = os.path.join(os.environ.get('VERIF_REPLAY_DIR', os.path.join(VERIF, 'replays')), pid)
        os.makedirs(rdir, exist_ok=True)
        path = os.path.join(rdir, 'check-error.ops')
        with open(path, 'w') as f:
            f.write('# property %s  kind check-error\n# the check did not complete: %s\n' % (pid, repr(e)[:500]))
            for l in tb.split('\n'): f.write('# ' + l + '\n')
        evp = os.path.join(os.environ.get('VERIF_EVIDENCE_DIR', os.path.join(VERIF, 'evidence')), pid + '.json')
        # no measurement was completed: an evidence file with honest contents could not satisfy the schema (its counts
        # have minimum 1); the older file must not stand, so there is NO evidence after such a run
        try:
            if os.path.exists(evp): os.remove(evp)
        except OSError:
            pass
        try:
            if False: write_json(evp, {'property_id': pid, 'tier': os.environ.get('VERIF_TIER', 'quick') if os.environ.get('VERIF_TIER') in ('quick', 'thorough') else 'quick',
                             'seed': int(os.environ.get('VERIF_SEED', '1')), 'level': P.PROPS.get(pid, {}).get('level', 'other'),
                             'coverage': {'explanation': 'the check did not complete: ' + repr(e)[:300]}, 'wall_s': 0.0, 'violations': 1})
        except Exception:
            pass
        print('VIOLATION property=%s replay=%s no-failing-input-found' % (pid, os.path.relpath(path, VERIF)))
        sys.exit(1)
