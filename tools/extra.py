"""Runtime sides of C18 (build configurations), C19 (threads under TSan), C20 (allocation failure)."""
import os, re, shutil, subprocess, sys, tempfile, time
sys.path.insert(0, os.path.dirname(os.path.abspath(__file__)))
from common import *

HIDDEN = re.compile(r' seg=\d+ si=\S+ pe=\S+ canon=\d rp=\S')

def cfg_view(op, impl):
    """what cfg_driver.cpp prints for this operation, derived from the model's answer line"""
    t = op.split(' ')[0]
    if t in ('probe', 'rt', 'utf', 'cmp', 'idnahyp', 'pencset'): return None
    s = HIDDEN.sub('', impl)
    s = re.sub(r' rpe=\S+', '', s)
    s = re.sub(r' so=\d', '', s)
    s = re.sub(r'\bcp=\d ', '', s)
    if t != 'sp' and t != 'psp': s = re.sub(r' sp=\S+', '', s)
    return s

def compile_cfg(name, std, ndebug, opt, amalgam_dir, outdir):
    """returns Popen list and final exe path (compile + link in one g++ call)"""
    exe = os.path.join(outdir, name)
    flags = ['-std=' + std, opt, '-w']
    if ndebug: flags.append('-DNDEBUG')
    if amalgam_dir:
        srcs = [os.path.join(VERIF, 'harness', 'cfg_driver.cpp'), os.path.join(amalgam_dir, 'single_include', 'upa', 'url.cpp')]
        flags += ['-DUPA_VERIF_AMALGAMATED', '-I' + os.path.join(amalgam_dir, 'single_include', 'upa')]
    else:
        srcs = [os.path.join(VERIF, 'harness', 'cfg_driver.cpp')] + [os.path.join(REPO, 'src', f) for f in LIB_SRCS]
        flags += ['-I' + os.path.join(REPO, 'include')]
    # link to a temporary name and rename: a killed build must not leave a truncated executable that looks cached
    tmp = exe + '.tmp%d' % os.getpid()
    return exe, subprocess.Popen(['sh', '-c', 'g++ "$@" && mv -f %s %s' % (tmp, exe), 'sh'] + flags + srcs + ['-licuuc', '-licudata', '-o', tmp], stdout=subprocess.PIPE, stderr=subprocess.STDOUT, text=True)

def make_amalgamation():
    """fresh amalgamation of the CURRENT tree in a scratch copy outside /repo and /verif"""
    d = tempfile.mkdtemp(prefix='upa_amal.', dir='/tmp')
    for sub in ('include', 'src', 'tools'):
        shutil.copytree(os.path.join(REPO, sub), os.path.join(d, sub))
    os.makedirs(os.path.join(d, 'single_include', 'upa'), exist_ok=True)
    rc, out = sh(['sh', os.path.join(d, 'tools', 'amalgamate.sh')], cwd=d, timeout=300)
    ok = rc == 0 and os.path.exists(os.path.join(d, 'single_include', 'upa', 'url.cpp')) and os.path.exists(os.path.join(d, 'single_include', 'upa', 'url.h'))
    return d, ok, out

def configs(tier, seed, runner, lines):
    """C18: every configuration's transcript must be byte-identical to the model's public view"""
    stds = ['c++11', 'c++14', 'c++17', 'c++20']
    if tier == 'thorough':
        cfgs = [(s, nd, o, am) for s in stds for nd in (0, 1) for o in ('-O0', '-O2') for am in (0, 1)]
    else:
        cfgs = [('c++11', 1, '-O2', 0), ('c++14', 0, '-O0', 0), ('c++17', 1, '-O2', 1), ('c++20', 0, '-O2', 0), ('c++11', 0, '-O0', 1), ('c++20', 1, '-O0', 1)]
    return _configs(cfgs, lines)

def cxx11(tier, seed, runner, lines):
    """every property with correspondence streams: the main harness is a C++20 build (it needs generic lambdas
    and char8_t); the project's DEFAULT language mode is C++11 (CMAKE_CXX_STANDARD 11), where tables are
    pre-generated instead of constexpr and several helpers have other definitions. The same operation file is
    therefore also run through the C++11 build of the plain driver and compared with the model."""
    return _configs([('c++11', 0, '-O2', 0)] + ([('c++14', 1, '-O0', 0)] if tier == 'thorough' else []), lines)

def _configs(cfgs, lines):
    cov = {}
    viol = []
    if not lines: lines = ['case']     # (the static-initialisation script below runs whatever the operation file holds)
    lean, lrc, lerr = run_ops(lean_driver(), '\n'.join(lines) + '\n')
    if lrc != 0 or len(lean) != len(lines):
        return {'coverage': cov, 'violations': [('config', ['# model driver'], 'the model driver failed: rc=%s, %d/%d answers\n%s' % (lrc, len(lean), len(lines), lerr[-1500:]), False)]}
    expect = [cfg_view(lines[i], lean[i].partition(' ## ')[0]) for i in range(len(lines))]
    key = sha_files(repo_sources() + [os.path.join(VERIF, 'harness', 'cfg_driver.cpp')] + [os.path.join(REPO, 'tools', 'amalgamate', f) for f in ('amalgamate.py', 'config-cpp.json', 'config-h.json', 'config-cpp.prologue')] + [os.path.join(REPO, 'tools', 'amalgamate.sh')])
    outdir = os.path.join(CACHE, 'c_' + key)
    os.makedirs(outdir, exist_ok=True)
    amal = None
    todo = []
    with Lock('c_' + key):
        for (s, nd, o, am) in cfgs:
            name = 'cfg_%s_%s_%s_%s' % (s.replace('+', 'p'), 'ndebug' if nd else 'assert', o[1:], 'amal' if am else 'mod')
            if not os.path.exists(os.path.join(outdir, name)): todo.append((name, s, nd, o, am))
        if any(t[4] for t in todo):
            amal, ok, out = make_amalgamation()
            if not ok:
                shutil.rmtree(amal, ignore_errors=True)
                viol.append(('config', ['# tools/amalgamate.sh'], 'the amalgamation cannot be generated from the current tree:\n' + out[-2000:], False))
                return {'coverage': cov, 'violations': viol}
        running = []
        fails = []
        try:
            for t in todo:
                while len(running) >= max(2, NPROC // 2):
                    n0, e0, p0 = running.pop(0)
                    o0, _ = p0.communicate()
                    if p0.returncode != 0: fails.append((n0, o0))
                exe, p = compile_cfg(t[0], t[1], t[2], t[3], amal if t[4] else None, outdir)
                running.append((t[0], exe, p))
            for n0, e0, p0 in running:
                o0, _ = p0.communicate()
                if p0.returncode != 0: fails.append((n0, o0))
        finally:
            if amal: shutil.rmtree(amal, ignore_errors=True)
    for n0, o0 in fails:
        viol.append(('config', ['# build ' + n0], 'configuration %s does not build:\n%s' % (n0, o0[-2500:]), False))
    text = '\n'.join(lines) + '\n'
    checked = 0
    per = {}
    outs = {}
    for (s, nd, o, am) in cfgs:
        name = 'cfg_%s_%s_%s_%s' % (s.replace('+', 'p'), 'ndebug' if nd else 'assert', o[1:], 'amal' if am else 'mod')
        exe = os.path.join(outdir, name)
        if not os.path.exists(exe): continue
        out, rc, err = run_ops(exe, text)
        outs[name] = (tuple(out), rc)
        bad = None
        for i in range(min(len(out), len(lines))):
            if expect[i] is None: continue
            checked += 1
            if out[i] != expect[i] and bad is None: bad = i
        if len(out) < len(lines) and bad is None: bad = len(out)
        if rc != 0 and bad is None: bad = len(lines) - 1   # complete transcript but abnormal exit
        per[name] = 'identical' if bad is None else 'differs at line %d' % bad
        if bad is not None and len(viol) < 3:
            j = bad
            while j > 0 and lines[j] != 'case': j -= 1
            detail = 'configuration %s: transcript differs from the model\n got      %s\n expected %s\n rc=%s %s' % (name, out[bad][:600] if bad < len(out) else '<process died>', (expect[bad] or '')[:600], rc, err[-800:])
            viol.append(('config:' + name, lines[j:bad + 1], detail, True))
    # C18 is about the configurations agreeing WITH EACH OTHER.  When every configuration prints the very same transcript
    # (and exits normally) but that transcript differs from the model's, the library's behaviour changed uniformly: the
    # correspondence with the model is broken (the theorems no longer transfer), but no input separates two configurations
    if len(outs) >= 2 and len(set(outs.values())) == 1 and all(rc0 == 0 for (_, rc0) in outs.values()):
        viol = [((k, ls, 'every configuration prints the same transcript; it differs from the model (broken correspondence, the configurations agree with each other)\n' + d, False) if k.startswith('config:') else (k, ls, d, f)) for (k, ls, d, f) in viol]
    # the same fixed script of operations run DURING STATIC INITIALISATION (before the library's own translation units
    # are initialised) and again from main(), in every configuration: the two transcripts must be identical
    early = {}
    for (s, nd, o, am) in cfgs:
        name = 'cfg_%s_%s_%s_%s' % (s.replace('+', 'p'), 'ndebug' if nd else 'assert', o[1:], 'amal' if am else 'mod')
        exe = os.path.join(outdir, name)
        if not os.path.exists(exe): continue
        p = subprocess.run([exe, '--early'], stdout=subprocess.PIPE, stderr=subprocess.PIPE, text=True, timeout=600)
        me = re.search(r'early operations=(\d+) differing=(\d+)', p.stdout)
        early[name] = (int(me.group(1)), int(me.group(2))) if me else None
        if p.returncode != 0 or not me or int(me.group(2)) > 0 or int(me.group(1)) < 4000:
            if sum(1 for v in viol if v[0].startswith('config-early')) < 2:
                viol.append(('config-early:' + name, ['# the static-initialisation script of harness/cfg_driver.cpp (early_script), configuration %s' % name, '# run: <that build of cfg_driver> --early', 'case'],
                             'configuration %s: operations executed during static initialisation (a namespace-scope object of a translation unit linked before the library) answer differently from the same operations executed from main() — in this configuration the library is not yet initialised then (rc=%s)\n%s\n%s' % (name, p.returncode, p.stdout[:2500], p.stderr[-800:]), True))
    cov['static_initialisation_script'] = {'operations': max([e[0] for e in early.values() if e] or [0]), 'configurations_identical_to_main': sum(1 for e in early.values() if e and e[1] == 0), 'configurations': len(early)}
    cov['programs'] = len(per)
    cov['disagreements_checked'] = checked
    cov['configurations'] = per
    return {'coverage': cov, 'violations': viol}

def threads(tier, seed, runner, lines):
    """C19: cold-start processes under TSan, all threads released into their first IDNA conversion"""
    cov = {}
    viol = []
    exe, log = build_harness('tsan', harness='threads.cpp', opt='-O1')
    if exe is None:
        return {'coverage': cov, 'violations': [('build', ['# threads.cpp'], 'TSan harness does not build:\n' + log[-2500:], False)]}
    lean, lrc, lerr = run_ops(lean_driver(), '\n'.join(lines) + '\n')
    if lrc != 0 or len(lean) != len(lines):
        return {'coverage': cov, 'violations': [('threads', ['# model driver'], 'the model driver failed: rc=%s, %d/%d answers\n%s' % (lrc, len(lean), len(lines), lerr[-1500:]), False)]}
    expect = [cfg_view(lines[i], lean[i].partition(' ## ')[0]) for i in range(len(lines))]
    K, N = (12, 8) if tier == 'quick' else (200, 16)
    text = '\n'.join(lines) + '\n'
    races = 0; diffs = 0; runs = 0
    env = {'TSAN_OPTIONS': 'exitcode=66:halt_on_error=1:second_deadlock_stack=1'}
    for k in range(K):
        warm = k % 4 == 3      # every fourth process has a prior warm-up call
        e = dict(os.environ); e.update(env)
        p = subprocess.run([exe, str(N), '1' if warm else '0'], input=text, stdout=subprocess.PIPE, stderr=subprocess.PIPE, text=True, env=e, timeout=900)
        runs += 1
        out = p.stdout.split('\n')
        if p.returncode != 0:
            races += 1
            if len(viol) < 2:
                viol.append(('race', ['# %d threads, cold start %d, warm=%s' % (N, k, warm)] + lines[:40], 'ThreadSanitizer / crash, rc=%d\n%s' % (p.returncode, p.stderr[-3000:]), True))
            continue
        first_bad = [l for l in out if l.startswith('FIRST-IDNA-WRONG')]
        body = [l for l in out if not l.startswith('FIRST-IDNA-WRONG')]
        bad = None
        for i in range(min(len(body), len(lines))):
            if expect[i] is not None and body[i] != expect[i]: bad = i; break
        if bad is None and len(body) < len(lines): bad = len(body) - 1 if body else 0
        if first_bad or bad is not None:
            diffs += 1
            if len(viol) < 2:
                j = bad or 0
                while j > 0 and lines[j] != 'case': j -= 1
                viol.append(('threads', lines[j:(bad or 0) + 1], 'a thread did not obtain the sequential result (%d threads, cold start %d)\n%s\n got %s\n expected %s' % (N, k, '\n'.join(first_bad[:3]), body[bad][:400] if bad is not None else '', (expect[bad] or '')[:400] if bad is not None else ''), True))
    cov.update({'processes': runs, 'threads_per_process': N, 'tsan_reports': races, 'result_differences': diffs, 'operations_per_process': len(lines)})
    return {'coverage': cov, 'violations': viol}

def faults(tier, seed, runner, lines):
    """C20: allocation-failure enumeration under ASan/LSan"""
    cov = {}
    viol = []
    exe, log = build_harness('asan', harness='fault.cpp', opt='-O0')
    if exe is None:
        return {'coverage': cov, 'violations': [('build', ['# fault.cpp'], 'fault harness does not build:\n' + log[-2500:], False)]}
    e = dict(os.environ); e['ASAN_OPTIONS'] = 'detect_leaks=1'
    p = subprocess.run([exe, '1' if tier == 'thorough' else '0'], stdout=subprocess.PIPE, stderr=subprocess.PIPE, text=True, env=e, timeout=3000)
    out = p.stdout.split('\n')
    for l in out:
        if l.startswith('FAULT-VIOLATION') and len(viol) < 4:
            viol.append(('fault', ['# ' + l], l, True))
    # the raw representation after every injected failure of single setter calls must be a state the exception-aware
    # operational model (Impl/SetRepExc.lean, theorems Props/C20b) can be left in
    # (a harness that died mid-line leaves a truncated last line: only complete lines are replayed)
    fs = [l[len('FAILSTATE '):] for l in out if l.startswith('FAILSTATE ') and len(l.split(' | ')) == 3 and len(l.split(' | ')[2].split(' ')) == 5]
    if len(fs) < 20 and p.returncode == 0:
        viol.append(('fault', ['# fault harness'], 'only %d post-failure states were reported by the fault harness (at least 20 expected): the membership tie did not run' % len(fs), False))
    if fs:
        q = subprocess.run([lean_driver(), 'failstates'], input='\n'.join(fs) + '\n', stdout=subprocess.PIPE, stderr=subprocess.PIPE, text=True, timeout=1800)
        ans = [a for a in q.stdout.split('\n') if a]
        cov['post_failure_states_replayed'] = len(fs)
        if q.returncode != 0 or len(ans) != len(fs):
            viol.append(('fault', ['# driver failstates'], 'the model driver failed on the post-failure states: rc=%s %d/%d answers\n%s' % (q.returncode, len(ans), len(fs), q.stderr[-1500:]), False))
        else:
            bad = [(l, a) for l, a in zip(fs, ans) if a != 'ok']
            cov['post_failure_states_not_in_model'] = len(bad)
            cov['post_failure_states_that_differ_from_the_state_before'] = sum(1 for l in fs if l.split(' | ')[1] != l.split(' | ')[2])
            for l, a in bad[:2]:
                viol.append(('fault', ['# FAILSTATE ' + l], 'after an injected allocation failure the object is in a state the exception-aware operational model cannot be left in (the order of mutations and throwing operations changed):\n%s\n%s' % (l[:1500], a[:600]), False))
    m = re.search(r'SUMMARY operations=(\d+) failure_points=(\d+) violations=(\d+)', p.stdout)
    if m: cov.update({'operations': int(m.group(1)), 'failure_points': int(m.group(2)), 'violations': int(m.group(3))})
    mx = re.search(r'EXTRA failure_points=(\d+) violations=(\d+)', p.stdout)
    if mx: cov.update({'parse_lockstep_and_sort_after_failed_copy_points': int(mx.group(1))})
    if p.returncode != 0 and not viol:
        viol.append(('fault', ['# fault harness rc=%d' % p.returncode], 'sanitizer report (leak / memory error) during fault enumeration:\n' + p.stderr[-3000:], True))
    if not m and not viol:
        viol.append(('fault', ['# fault harness'], 'no summary produced:\n' + p.stdout[-1000:] + p.stderr[-2000:], False))
    return {'coverage': cov, 'violations': viol}


def tables(tier, seed, runner, lines):
    """C13 search: the regenerated tables of every language mode against the Standard's sets as the Lean Spec
    computes them (the model driver's `member` answers).  A difference is a concrete failing input:
    (language mode, set, code point)."""
    import gen as gentables
    cov = {}
    viol = []
    ok, info = gentables.gen()
    if not ok: return {'coverage': cov, 'violations': viol}
    names = gentables.SETS + gentables.CLASSES
    ops = ['member %s %x' % (n, c) for n in names for c in range(256)] + ['member encbyte %x' % c for c in range(256)]
    lean, lrc, lerr = run_ops(lean_driver(), '\n'.join(ops) + '\n')
    want = {}
    for i, o in enumerate(ops):
        t = o.split(' ')
        want[(t[1], int(t[2], 16))] = lean[i].partition(' ## ')[2].strip()
    checked = 0
    for m, d in sorted(info['modes'].items()):
        for n in names:
            for key in (n, n + '_any'):
                mask = int(d[key][0], 16)
                for c in range(256):
                    checked += 1
                    got = '1' if (mask >> c) & 1 else '0'
                    if got != want[(n, c)] and len(viol) < 4:
                        viol.append(('table', ['member %s %x' % (n, c)], 'language mode %s, table %s (%s of the lookups), code point U+%04X: library says %s, the Standard says %s' % (m, n, 'OR' if key.endswith('_any') else 'AND', c, 'member' if got == '1' else 'not a member', 'member' if want[(n, c)] == '1' else 'not a member'), True))
        enc = d['encbyte'][0].split()
        for c in range(256):
            checked += 1
            if enc[c] != want[('encbyte', c)] and len(viol) < 4:
                viol.append(('table', ['member encbyte %x' % c], 'language mode %s, urlencoded byte table, byte 0x%02X: library %s, the Standard %s' % (m, c, enc[c], want[('encbyte', c)]), True))
        ed = d.get('earlydiff', ['0 - 0'])[0].split()
        if ed[0] != '0' and len(viol) < 4:
            viol.append(('table', ['member %s %s' % (ed[1] if ed[1] != '-' else 'fragment', ed[2])], 'language mode %s: %s lookups give another answer DURING STATIC INITIALIZATION (before the library\'s own initializers have run) than afterwards; first: table %s, code point U+%04X — the table is no longer constant-initialized' % (m, ed[0], ed[1], int(ed[2], 16)), True))
        if d['widemembers'][0].strip() != '0' and len(viol) < 4:
            viol.append(('table', ['member fragment 141'], 'language mode %s: %s code units above 0xFF are reported as members of some set / class' % (m, d['widemembers'][0]), True))
    cov['table_entries_compared'] = checked
    cov['modes'] = sorted(info['modes'])
    return {'coverage': cov, 'violations': viol}


def _setrep_eval(step_texts):
    """answers of the model driver's `setrep` mode for raw steps ('ok' / 'MISMATCH …' / 'RECORD-MISMATCH …' / 'BADSTATE …')"""
    if not step_texts: return []
    p = subprocess.run([lean_driver(), 'setrep'], input='\n'.join(step_texts) + '\n', stdout=subprocess.PIPE, stderr=subprocess.PIPE, text=True, timeout=3600)
    out = p.stdout.split('\n')
    if out and out[-1] == '': out = out[:-1]
    if p.returncode != 0 or len(out) != len(step_texts):
        raise RuntimeError('model driver (setrep) failed: rc=%s %d/%d answers: %s' % (p.returncode, len(out), len(step_texts), p.stderr[-1500:]))
    return out


def setrep(tier, seed, runner, lines):
    """C05: the OPERATIONAL model of the in-place edits (Impl/SetRep.lean composed into whole setters by
    Impl/SetRepApi.lean, and url_search_params::update) against the real object: for every setter call and every
    params update of the main run the harness dumped the raw stored representation (normalised string, the 11
    offsets with their zeros, flag word, segment count, scheme index) before and after; the model, run on the
    BEFORE state, must produce the AFTER state exactly, return the same bool, and the result must be a
    representation of the record the record-level setter (Impl.setValid) computes.  The same for every parse:
    the operational model of the parser driving url_serializer (Impl/ParseRep.lean, `parseRep`) on the input and
    the raw representation of the base must give the raw representation of the result (or fail when the C++
    fails), and that must be a representation of the record the record-level parser (Impl.parse) computes."""
    steps = getattr(runner, 'main_steps', None) or []
    cov = {'steps': len(steps)}
    viol = []
    expected = sum(1 for l in lines if l.split(' ')[0] in ('set', 'parse'))
    if not steps:
        # the harness printed no step although the run contains setter / parse operations: the tie did not run
        if expected > 20: viol.append(('setrep', ['# setrep'], 'setrep\nthe run has %d parse / set operations but the harness reported no raw-state step: the replay did not take place' % expected, False))
        return {'coverage': cov, 'violations': viol}
    ans = _setrep_eval([s for (_, s) in steps])
    kinds = {}
    changed = 0
    for (i, s), a in zip(steps, ans):
        t = s.split(' ', 3)
        k = t[0] + (':' + t[1] if t[0] == 'set' else '')
        if t[0] == 'parse': k = 'parse:' + ('no-base' if ' | - | ' in s else 'base') + (':ok' if not s.endswith(' | -') else ':fail')
        kinds[k] = kinds.get(k, 0) + 1
        parts = s.split(' | ')
        if len(parts) == 3 and parts[1] != parts[2]: changed += 1
    cov['steps_by_kind'] = dict(sorted(kinds.items()))
    cov['steps_that_changed_the_representation'] = changed
    bad = [(i, s, a) for (i, s), a in zip(steps, ans) if a != 'ok']
    cov['mismatches'] = len(bad)
    if not bad: return {'coverage': cov, 'violations': viol}
    import check as C
    cases = C.split_cases(lines)
    seen = set()
    for (i, s, a) in bad:
        if len(viol) >= 3: break
        cs = [c for c in cases if c[0] <= i < c[0] + len(c[1])]
        if not cs or cs[0][0] in seen: continue
        start, ls = cs[0]
        seen.add(start)
        cur = ls[:i - start + 1]
        cls = a.split(' ')[0]
        def fails(cand):
            try:
                cpp, rc, err, _ = runner.run(cand, need_model=False)
            except Exception:
                return False
            st = [x for (j, x) in runner.last_steps if j == len(cand) - 1]
            if not st: return False
            try:
                return _setrep_eval(st)[0].split(' ')[0] == cls
            except Exception:
                return False
        budget = 60
        j = 1
        while j < len(cur) - 1 and budget > 0:
            cand = cur[:j] + cur[j + 1:]
            budget -= 1
            if fails(cand): cur = cand
            else: j += 1
        detail = ('setrep\nthe in-place edit of the stored representation differs from the operational model (%s)\nstep: %s\nmodel answer: %s' % (
            {'MISMATCH': 'C++ state after the call != model state after the call, and it is not a representation of the record the call should produce',
             'MISMATCH-EQUIV': 'C++ state after the call != model state after the call, but it IS a representation of the right record (only the pattern of never-started parts differs): the correspondence of the operational model no longer checks, no wrong result is known',
             'RECORD-MISMATCH': 'the state after the call is not a representation of the record the setter should produce',
             'BADSTATE': 'the state BEFORE the call is not the layout of any record: an earlier operation left a representation that no parse produces'}.get(cls, cls), s[:1200], a[:1200]))
        viol.append(('setrep', cur, detail, cls != 'MISMATCH-EQUIV'))
    return {'coverage': cov, 'violations': viol}


def _wpt(which, runner):
    """the web-platform-tests expectations (doc/wpt) against the C++ answers AND against the Standard-shaped Lean
    model (Spec): validates the transcription of the Standard that the conformance theorems are stated against,
    and runs the conformance data the repository's own wpt-* tests cannot run in this sandbox"""
    import json, gencases
    g = gencases.generate([which], 0, 1)
    lines = g.lines
    cpp, rc, err, lean = runner.run(lines)
    d = g.form_data() if which == 'wptform' else g.wpt_data('urltestdata.json' if which == 'wpt' else 'setters_tests.json')
    def hxs(s): return '-' if s == '' else s.encode('utf-8', 'surrogatepass').hex()
    starts = [i for i, l in enumerate(lines) if l == 'case'][1:]   # the first 'case' is the stream separator
    if len(starts) < len(d):
        return {'coverage': {'cases': len(d)}, 'violations': [('wpt', ['# ' + which], 'wpt\nthe generator produced %d cases for %d data entries' % (len(starts), len(d)), False)]}
    cov = {'cases': len(d), 'spec_agrees': 0, 'cpp_agrees': 0}
    viol = []
    if getattr(g, 'wpt_missing', None): cov['data_files_not_readable'] = sorted(g.wpt_missing)
    if len(d) == 0:
        viol.append(('wpt', ['# ' + which], 'wpt\nno conformance data could be read for %s (doc/wpt and /repo/test/data)' % which, False))
    for k, s0 in enumerate(starts[:len(d)]):
        if which == 'wpt':
            c = d[k]; i = s0 + 1
            want = None if c.get('failure') else {f: hxs(c[f]) for f in ('href', 'origin', 'protocol', 'username', 'password', 'host', 'hostname', 'port', 'pathname', 'search', 'hash') if f in c}
        elif which == 'wptform':
            sort, c = d[k]; i = s0 + (2 if sort else 1)
            want = {'sp': ','.join(hxs(n) + ':' + hxs(v) for n, v in c['output']) or '-'}
        else:
            st, c = d[k]; i = s0 + 2
            want = {f: hxs(v) for f, v in c['expected'].items()}
        if i >= len(cpp) or i >= len(lean):
            viol.append(('wpt', lines[s0:s0 + 3], 'wpt\nthe transcript ends before this case was answered (harness %d, model %d of %d lines): rc=%s %s' % (len(cpp), len(lean), len(lines), rc, err[-800:]), False))
            break
        def agrees(ans):
            if want is None: return 'href=' not in ans
            f = dict(t.split('=', 1) for t in ans.split(' ') if '=' in t)
            return all(f.get(a) == b for a, b in want.items())
        a_spec = agrees(lean[i].partition(' ## ')[2]); a_cpp = agrees(cpp[i].split(' @@')[0])
        cov['spec_agrees'] += a_spec; cov['cpp_agrees'] += a_cpp
        if not a_cpp and len(viol) < 3:
            viol.append(('wpt', lines[s0:i + 1], 'wpt\nweb-platform-tests expectation not met by the library: %s\nC++: %s' % (json.dumps(c)[:800], cpp[i][:600]), True))
        elif not a_spec and len(viol) < 3:
            viol.append(('wpt-model', lines[s0:i + 1], 'wpt-model\nthe Standard-shaped model (Spec) disagrees with a web-platform-tests expectation (the library agrees with it): the transcription is wrong or the test data is newer than the Standard snapshot: %s\nSpec: %s' % (json.dumps(c)[:800], lean[i].partition(' ## ')[2][:600]), False))
    return {'coverage': cov, 'violations': viol}

def wpt(tier, seed, runner, lines): return _wpt('wpt', runner)
def wptset(tier, seed, runner, lines): return _wpt('wptset', runner)
def wptform(tier, seed, runner, lines): return _wpt('wptform', runner)


def ownsafe(tier, seed, runner, lines):
    """C04: the same model-generated histories over all special member functions of both classes (with objects destroyed
    while others still point at them), replayed on the library under ASan/UBSan/LSan. For this property only a sanitizer
    report is a failing input (the history up to the operation in which it was raised); a difference of the pointer
    graph is a broken correspondence."""
    return ownreplay(tier, seed, runner, lines, crash_only=True)

def ownreplay(tier, seed, runner, lines, crash_only=False):
    """C06: the pointer-graph model (Impl/Own.lean: every url_search_params object with its back pointer, every url with the
    params object it holds; theorems Props/C06b) against the real objects. The model generates random histories over
    all special member functions of both classes (construct / copy / move / safe_assign / swap / destroy, lazy
    search_params(), the && overload, parse, setters, list edits) and, after every operation, the expected graph:
    which params object each url holds, which url each params object points back to, sorted flags, serializations.
    harness/own_replay.cpp replays them on the library (ASan/UBSan, hooks) and compares after every operation."""
    cov = {}
    viol = []
    exe, log = build_harness('asan', harness='own_replay.cpp', opt='-O0')
    if exe is None:
        return {'coverage': cov, 'violations': [('build', ['# own_replay.cpp'], 'the ownership replay harness does not build:\n' + log[-2500:], False)]}
    gen = os.path.join(LEAN, '.lake', 'build', 'bin', 'owngen')
    runs, steps = (150, 80) if tier == 'quick' else (1500, 120)
    if lines and lines[0] == 'RESET':
        hist = '\n'.join(lines) + '\n'      # --replay of a history this check wrote earlier
        runs = hist.count('RESET')
    else:
        g = subprocess.run([gen, str(seed), str(runs), str(steps)], stdout=subprocess.PIPE, stderr=subprocess.PIPE, text=True, timeout=1800)
        if g.returncode != 0 or 'MODELCHECK true' not in g.stdout:
            return {'coverage': cov, 'violations': [('own', ['# owngen'], 'the history generator failed or the model left its own invariant: rc=%s %s %s' % (g.returncode, g.stdout[-300:], g.stderr[-1500:]), False)]}
        hist = g.stdout
    n_ops = sum(1 for l in hist.split('\n') if l.startswith('OP '))
    kinds = {}
    for l in hist.split('\n'):
        if l.startswith('OP '):
            t = l.split(' ')
            k = t[1] + (':' + t[3] if t[1] == 'paramsMutate' and len(t) > 3 else '')
            kinds[k] = kinds.get(k, 0) + 1
    cov['operation_kinds'] = dict(sorted(kinds.items()))
    e = dict(os.environ); e['ASAN_OPTIONS'] = 'detect_leaks=1:abort_on_error=0'
    p = subprocess.run([exe], input=hist, stdout=subprocess.PIPE, stderr=subprocess.PIPE, text=True, env=e, timeout=1800)
    m = re.search(r'ops=(\d+) mismatching states=(\d+)', p.stdout)
    cov['histories'] = runs
    if m: cov.update({'operations': int(m.group(1)), 'mismatching_states': int(m.group(2))})
    if m and int(m.group(1)) != n_ops:
        viol.append(('own', ['# own_replay'], 'own\nthe replay harness executed %s of the %d generated operations' % (m.group(1), n_ops), False))
    if 'UNKNOWN OP' in p.stdout or 'UNKNOWN MUT' in p.stdout:
        viol.append(('own', ['# own_replay'], 'own\nthe replay harness does not know an operation the model generated:\n' + '\n'.join(l for l in p.stdout.split('\n') if 'UNKNOWN' in l)[:1000], False))
    if n_ops < 1000 and not (lines and lines[0] == 'RESET'):
        viol.append(('own', ['# owngen'], 'own\nonly %d operations were generated' % n_ops, False))
    mh = re.search(r'hidden-only=(\d+)', p.stdout)
    if mh and int(mh.group(1)) > 0:
        cov['states_differing_only_in_the_cached_sorted_flag'] = int(mh.group(1))
        first_h = p.stdout.split('HIDDEN-MISMATCH after ')[1].split('\n')[0] if 'HIDDEN-MISMATCH after ' in p.stdout else ''
        viol.append(('own', ['# own_replay'], 'own\nin %s states the cached sorted flag of a params object differs from the model while the pointer graph, the lists and the serializations agree: the correspondence of that hidden flag no longer checks (first: %s)\n%s' % (mh.group(1), first_h[:300], p.stdout[:1500]), False))
    if (m and int(m.group(2)) > 0) or p.returncode != 0 or not m:
        # the first mismatch with its history (from the last RESET)
        first = p.stdout.split('MISMATCH after ')[1].split('\n')[0] if 'MISMATCH after ' in p.stdout else None
        rep = []
        if first:
            L = hist.split('\n')
            idx = next((i for i, l in enumerate(L) if l == first), None)
            if idx is not None:
                st = max(i for i in range(idx + 1) if L[i] == 'RESET')
                en = next(i for i in range(idx, len(L)) if L[i] == 'E')
                rep = L[st:en + 1]
        # a sanitizer report: the history up to the operation in which it was raised
        md = re.search(r'DEATH-AT-OP (\d+)', p.stderr) if not m else None    # (LeakSanitizer reports at exit, after the summary line)
        crash_rep = []
        if md:
            L = hist.split('\n'); k = 0
            for i, l in enumerate(L):
                if l.startswith('OP '):
                    k += 1
                    if k == int(md.group(1)):
                        st = max(j for j in range(i + 1) if L[j] == 'RESET')
                        en = next((j for j in range(i, len(L)) if L[j] == 'E'), len(L) - 1)
                        crash_rep = L[st:en + 1]
                        break
            cov['sanitizer_report_at_operation'] = int(md.group(1))
        if crash_only:
            if md or (p.returncode != 0 and not m):
                viol.append(('crash', crash_rep or rep or ['# own_replay'], 'crash\na sanitizer report (or abnormal end, rc=%s) while the library executed a history of special member functions that the model allows:\n%s' % (p.returncode, p.stderr[-3500:]), True))
            elif 'LeakSanitizer' in p.stderr:
                viol.append(('crash', ['# own_replay'], 'crash\nLeakSanitizer: the library leaked over the replayed histories:\n%s' % p.stderr[-3000:], True))
            else:
                viol.append(('own', rep or ['# own_replay'], 'own\nthe pointer graph of the real objects differs from the model (rc=%s); no sanitizer report: for this property a broken correspondence\n%s' % (p.returncode, p.stdout[:3000]), False))
        else:
            viol.append(('own', rep or crash_rep or ['# own_replay'], 'own\nthe pointer graph of the real objects differs from the model (rc=%s)\n%s\n%s' % (p.returncode, p.stdout[:3000], p.stderr[-2500:]), bool(first) or p.returncode != 0))
    return {'coverage': cov, 'violations': viol}
