#!/usr/bin/env python3
"""Operation-file generator for the correspondence check (DESIGN.md 2.3).

Every random choice derives from one random.Random(seed).  Output: one operation per line (protocol of
lean/Driver/Main.lean and harness/driver.cpp); a `case` line resets all slots, so every case is
self-contained and can be replayed or shrunk alone.

usage: gencases.py --streams url,set,... --n <cases per stream> --seed N > ops.txt
"""
import os, argparse, random, re, sys, itertools

# ----------------------------------------------------------------------------- vocabularies
SCHEMES = ['http','https','ws','wss','ftp','file','non-spec','x','a+b-c.d','HTTP','hTtPs','FILE','htt','httpss','fil','blob','mailto','','1ab','h ttp','wS','FtP']
AFTER = ['//','//','//','/','','\\\\','\\/','///','////','/\\']
USER = ['','','','u@','u:p@','user:pw@',':pw@',':@','@','a@b@','u:p:q@','us/er@','u?@','u#@','\u00fcser:p\u00e4ss@','%41:%42@','u%@','[u]@',"u;=@",'u\\@']
LABELS = ['%C3%A4%', '%C3%A4%zz', '%E4%BD%A0%4', '%c3%a4%.', 'a%C3%A4%2', '%FF%', str((1 << 64) + 1), '0x%x' % ((1 << 64) + 1), '0%o' % ((1 << 64) + 5), '0x3000000000000007f000001', str((1 << 32) + 1), '0x%x' % ((1 << 32) * 7 + 9), 'a'*63,'a'*64,'a'*70,'xn--'+'a'*60,'h','host','example','EXAMPLE','ex-ample','a--b','ab--c','-a','a-','xn--exmple-cua','XN--EXMPLE-CUA','xn--','xn--a','\u00e4','b\u00fccher','\u05d0','\u05d0a','1\u05d0','a\u200d','\u0628\u200d','\u0645\u0660','\uff41','\u00df','\u03c2','%41','%c3%a4','%e4','a%','%zz','\u00ad','a\u0338','<\u0338','=\u0338','>\u0338','<%CC%B8','a_b','a~b','a!b',"a'b",'a*b','0','1','08','0x','0x1f','0XAB','4294967295','4294967296','256','255','999999999999','00000000001','0x100000000','1e3','a\u0301','\U0001f600','xn--80ak6aa92e','xn--nxasmq6b','faß','\u200c','a\u200cb','\u0644\u200c\u0627','%F0%9F%92%A9','%80','\ufffd']
TLDS = ['xn--2da','\u0105','%2Ecom','com','org','de','','\u3002jp','\uff0ecom','.','0','1','0x7f','09','0x','1.','COM']
IPV4 = ['1.2.3.4.5.6.7','1.2.3.4.5.6.7.8.9.','\u0131.2.3.4','1.2.3.\u0134','0x\u0141','0\u0178f.1','1\u012e2.3.4','1.2.3.4','127.1','0x7f.1','0177.0.0.1','1.2.3','1.2.3.4.','1.2.3.4.5','1..2','256.1.1.1','1.256.1.1','1.1.1.256','1.1.256','1.1.65535','1.1.65536','1.16777215','1.16777216','4294967295','4294967296','0xffffffff','0x100000000','08','09.1','0x','0x.1','1.0x','00000000000000000001','077777777777','037777777777','040000000000','1.2.3.08','1.2.3.4x','0x1g','.1','1.','a.1','0xx','0x1x','1x','x','0X1.0x2.0X3.4','1.2.0x','0.0.0.0','255.255.255.255','0x7F000001','017700000001','1.2.3.4..','..','1.2.3.0x100','1.2.65536','0.0.0.256']
IPV6 = ['[0000:0000:0000:0000:0000:ffff:192.168.100.100]','[ffff:ffff:ffff:ffff:ffff:ffff:255.255.255.255]','[00ab:00ab:00ab:00ab:00ab::100.100.100.100]','[0000:0000:0000:0000:0000:0000:0000:0001]','[::1.2.3.4294967297]','[::ffff:0.42949672970.0.1]','[1:2:3:4:5:6:1.2.12884901891.4]','[::100000001]','[::10001]','[::1.2.3.256]','[::1.2.3.18446744073709551617]','[\u0131::1]','[1::\u0162]','[\uff41::]','[::\U00010041]','[1:\u0132:3::]','[::1.\u0132.3.4]','[::]','[::1]','[1::]','[1:2:3:4:5:6:7:8]','[1:2:3:4:5:6:7::]','[::2:3:4:5:6:7:8]','[1::8]','[1:0:0:2:0:0:0:3]','[0:0:1:0:0:1:0:0]','[1:0:0:0:1:0:0:1]','[::1.2.3.4]','[::ffff:1.2.3.4]','[1:2:3:4:5:6:1.2.3.4]','[1:2:3:4:5:6:7:1.2.3.4]','[::1.2.3]','[::1.2.3.4.5]','[::01.2.3.4]','[::256.1.1.1]','[::1.2.3.4','[1:2:3:4:5:6:7:8:9]','[1::2::3]','[:1]','[1:]','[12345::]','[g::]','[::1]x','[FFFF:AbCd::0001]','[0:0:0:0:0:0:0:0]','[1:2:3:4:5:6:7]','[::.1.2.3]','[1:2:3:4:5:6::1.2.3.4]','[::1.2.3.4:5]','[::0.0.0.0]','[::255.255.255.255]','[0:1:0:1:0:1:0:1]','[1:0:0:1:0:0:0:0]','[]','[:]','[:::]','[1:2:3:4:5:6:7:8::]','[::1:2:3:4:5:6:7:8]','[1:2:3:4::5:6:7:8]','[1::2:3:4:5:6:7]','[0::0]','[::00001]','[::1.2.3.4.]','[::1.2..3]','[1:2:3:4:5:1.2.3.4]','[::10.0.0.1]','[::1.02.3.4]','[::1.2.3.300]']
BADHOST = ['a b','a<b','a>b','a^b','a|b','a\\b','a[b','a]b','a@b','a:b','a%00b','a\x7fb','a\x01b','a%7fb','a%20b','a#b','a?b','a/b','[a',']',' ','%','a\tb','a%25b','a%2Fb','a%3Ab']
PORTS = ['','','','',':',':80',':443',':21',':0',':8080',':65535',':65536',':00080',':000000080',':0000065535',':99999',':100000',':8x',':x',':-1',':80 ',':\uff10',':00000',':065536',':1\t2',':65616',':4294967376',':4294967297',':18446744073709551696',':131072',':' + '0' * 30 + '81']
SEGS = ['C:d','c|x','a','b','c','.','..','%2e','%2E','.%2e','%2e.','%2E%2e','%2e%2E','.%2E','...','','x y','C:','C|','c|','d:','\u00e4','%','%g1','?','a;b',"a'b",'a`b','{x}','a\\b','a%5Cb','~','\x7f','a\x01','%00','\U0001f600','^','|','a|b','%7C','C%7C','%2e%2e%2e','.%2e.','\u0080','\u07ff','\u0800','\ud7ff','\ue000','\uffff','\U00010000','\U0010ffff']
QUERIES = ['','','?','?q','?a=b&c=d',"?it's",'?a b','?"x"','?<>','?\u00e4=\u00f6','?%zz','?a#b','??','?\x7f','?`{}','?%27','?a=1&a=2&b','?+&=%26','?\U0001f600']
FRAGS = ['','','#','#f','#a b','#`x`','#"<>"','#\u00e4','#%zz','##','#a#b','#\x00x','#{}','#\U0001f600','#\x7f']
RELS = ['http:/', 'https:/', 'ws:/', 'ftp:/', 'http:', 'file:/', 'file:', 'non-spec:/', 'file://C:/x','file://c|/d','//C:/x','\\\\c|\\d','file://C:','file://C:?q#f','//c|','','.','..','../..','../../..','./','../','/x','//h','//h:8/p','///p','?q','#f','x:y','C|/','C:/x','c|','\\\\x','\\x','/\\h','http:','http:x','http:/x','http://x','https:x','file:','file:x','file:/x','file:..','non-spec:x','a/../b','a/./b/','%2e%2e/x','.%2e','x?y#z','  y  ','/.//p','//','/..//p','..//p','C|','/C|/x','//C|/x','///C|','?','#','x/','%2E','..\\x','ws:x','ftp:/x','\\\\h\\p','/C:','C|\\x','file:C|/x','file:/C|','file://C|/x','file:///C|','//localhost/x','file://localhost/x','file://LOCALHOST','\t/ x\n','#\n','?\t']
STARTS = ['https://h:0/', 'non-spec://h:0', 'file://C:/x','file://c|/d','a:/.//p','web+demo:/a/..//b/c','http://u:p@h:81/a/b?q#f','https://h/','https://h:443/','http://h:80/','file:///C:/a/b','file://host/p','file:///','ws://h/p?x','ftp://h:21/x','non-spec://u@h:1/a/b?q#f','non-spec://h','non-spec:/p/q','non-spec:opaque path ?q#f','non-spec:op  ','non-spec:///p','non-spec:/.//p','non-spec://h//p','blob:http://h/x','mailto:a@b','http://[::1]:8/','http://1.2.3.4/','x:','http://h/?a=1&b=2','file:///C:/','file://h/C:/x','non-spec:/','non-spec://','wss://h:444/','non-spec:x  #f','non-spec:x  ?q','http://h/a/b/c/../d?x=1&y=2#frag','blob:https://h:8/p','blob:file:///x','blob:x']
NAMES = ['a','b','z','aa','A','\u00e4','\ue000','\uffff','\U00010000','\U0001f600','\U0001f601','\U0001f3ff','\U0001f400','\ufb00','\ud7ff','','a b','a+b','a&b','a=b','%41','~','*','ab','abc','abd','\u007f','\u0080','\u07ff','\u0800','\U0010ffff','\ufffd']
VALUES = ['','1','x y','a&b=c','%41','+','\u00e4','\U0001f600','v','=','?','#']
SETTERS = ['href','protocol','username','password','host','hostname','port','pathname','search','hash']
GETTERS = ['href','protocol','username','password','host','hostname','port','pathname','search','hash','path']
# numbers that are in range only modulo a machine word: 2^k + v (an accumulator that is range-checked too late,
# or in too narrow a type, accepts them)
WRAPV = [(1 << k) + v for k in (8, 16, 32, 64) for v in (0, 1, 4, 80, 255)] + [(1 << 32) * 3 + 3, (1 << 32) * 10 + 250, (1 << 31) + 1, (1 << 63) + 1]
SETVALS = {
 'protocol': ['http','https','file','ws','ftp','non-spec','x','HTTP:','https:','file:','a+b:','1a','','h ttp','http:80','ws:','wss','FILE','non-spec:','http\t','ht\ntp','mailto','blob:','a:b'],
 'username': ['','u','user name','a@b','a:b','a/b','\u00e4','%41','%','u?#','\U0001f600','[x]','\\','^|',"'", '\t', 'a\nb'],
 'password': ['','p','p w','a@b:c','/','\u00f6','%zz','?#','`{}','\x7f'],
 'host': ['','h','host:81','h:80','h:443','h:','h:x','h:65536','EXAMPLE.com','b\u00fccher.de','1.2.3.4','0x7f.1','[::1]','[::1]:8','[1::2','a b','a%41','%','h/p','h?q','h#f','h\\p',':80','localhost','LOCALHOST','x:99999','h:00080','xn--a','a..b','\t h','h\n:8\t1','1.2.3.4.5','a<b','\u3002','h@i','u:p@h','C:','C|','.'],
 'hostname': ['','h','host:81','EXAMPLE.com','1.2.3.4','[::1]','a b','h/p','h?q','h#f','localhost','x:','C|','..','%00','h:8','[::1]:8'],
 'port': ['','0','80','443','21','8080','65535','65536','99999','000080','0000000000080','8x','x','-1',' 80','80 ','8\t0','\n','\r','80/x','80?x','80#x','80\\x','\uff18','00000'] + [str(w) for w in WRAPV] + ['0' * 30 + '81', '9' * 30],
 'pathname': ['/C:data/../x','/C:d/..','/c|x/../y','/C:/../..','','/','/a','a','a/b','/a/./b/../c','..','/..','/%2e%2E/x','\\a\\b','/a b','/a?b','/a#b','/\u00e4','//x','//','/.//x','/C|/x','C:','/C:/..','/a/%2e','/a/.','/a/..','?','#','/%','\t/a\n','/a/../../..','.','/./','x\\..\\y','/\U0001f600','/a|b^c'],
 'search': ['','?','q','?q','??q','a=b&c=d','?a b',"?'",'#','?#','\u00e4','%zz','\n?a','?\ta','? ','a#b','\U0001f600','?+&='],
 'hash': ['','#','f','#f','##f','a b','`','\u00e4','%zz','\n#a','#\ta','# ','"<>','\x00'],
 'href': ['http://h/','https://u:p@h:444/p?q#f','file:///C:/x','non-spec:opaque','non-spec://h/p','','x','http://','//h','http://h:99999/','non-spec:/.//p','HTTP://H/%2e/','http://h/?a=1&b=2','http://a b/','\thttp://h/\n','non-spec:x  ','file://localhost/p','blob:http://h/'],
}
# structured start URLs: shape x query x fragment (null, empty-but-present, text; trailing spaces matter for opaque paths)
SHAPES = ['http://h:0/p', 'wss://h:00', 'http://h/p', 'http://u:p@h:81/a/b', 'https://h', 'file:///p', 'file://h/p', 'file:///C:/x', 'non-spec://h/p', 'non-spec://h',
          'non-spec://u@h:1', 'non-spec:/p/q', 'non-spec:/.//p', 'non-spec://', 'non-spec:op', 'non-spec:op  ', 'non-spec:', 'blob:http://h/x', 'ws://h:81/']
SQUERIES = ['', '?', '?q', '? ', '?a=1&b=2']
SFRAGS = ['', '#', '#f', '# ']
# key values per setter for the exhaustive single-call stream (empty, delimiter only, plain, one special case each)
SETKEYS = {
 'protocol': ['', 'http', 'file', 'non-spec:', 'ws', 'x y'],
 'username': ['', 'u', 'a@b:c', '\u00e4'],
 'password': ['', 'p', ':@/'],
 'host': ['', 'h', 'h:81', 'h:', 'C:', 'localhost', '[::1]', 'a b', 'h:80', 'h:443/x'],
 'hostname': ['', 'h', 'h:81', 'C|', 'localhost', '1.2.3.4', 'h?x'],
 'port': ['', '8', '80', '443', '21', '65536', '008', 'x', '8x'],
 'pathname': ['', '/', 'a', '/a/../b', '//x', '/.//x', '/C|/..', '/C:d/../x', '..', '?', '\\a'],
 'search': ['', '?', 'q', '?q', '? ', '#'],
 'hash': ['', '#', 'f', '#f', '# '],
 'href': ['non-spec:x  ?', 'http://h/?#', ''],
}
BOUNDARY = ['\u007f','\u0080','\u07ff','\u0800','\ud7ff','\ue000','\uffff','\U00010000','\U0010ffff','\ufffd','\u00e9','\u20ac','\U0001f4a9']
# ill-formed code unit fragments per encoding
BAD8 = [[0x80],[0xBF],[0xC0,0x80],[0xC1,0xBF],[0xC2],[0xE0,0x80,0x80],[0xE0,0x9F,0xBF],[0xE0,0xA0],[0xED,0xA0,0x80],[0xED,0xBF,0xBF],[0xEF,0xBF],[0xF0,0x80,0x80,0x80],[0xF0,0x8F,0xBF,0xBF],[0xF0,0x90,0x80],[0xF4,0x90,0x80,0x80],[0xF5,0x80,0x80,0x80],[0xFF],[0xFE],[0xF8,0x88,0x80,0x80,0x80],[0xE2,0x82],[0xE2],[0xF0,0x9F,0x92],[0xF0,0x9F],[0xF0],[0xC3,0xC3,0xA9],[0xE2,0x28,0xA1],[0xF1,0x80,0x80,0x41],[0xE2,0x0A,0x82,0xAC],[0xC3,0x09,0xA9],[0xF0,0x0D,0x9F,0x92,0xA9]]
BAD16 = [[0xD800],[0xDBFF],[0xDC00],[0xDFFF],[0xD800,0x41],[0xDC00,0xD800],[0xD800,0xD800,0xDC00],[0xD83D,0x0A,0xDCA9],[0xD83D,0x09,0xDE00],[0xDFFF,0xDFFF]]
BAD32 = [[0xD800],[0xDFFF],[0x110000],[0xFFFFFFFF],[0x80000000],[0x10FFFF+1],[0xDC00,0xD800]]

def alias(ch, k=None):
    """a code point above U+00FF whose LOW BYTE equals the ASCII character (is_8bit guard class of slips)"""
    o = ord(ch)
    if o >= 0x100: return ch
    v = o + (k if k is not None else 0x100)
    return chr(v) if v < 0x110000 and not (0xD800 <= v <= 0xDFFF) else ch
ALIAS_OFFSETS = [0x100, 0x200, 0xFF00, 0x4E00, 0x10000, 0x1F400]

def units(text, enc):
    """code units of a Python string (may contain lone surrogates) in encoding enc"""
    if enc == 8:
        return list(text.encode('utf-8', 'surrogatepass'))
    if enc == 16:
        b = text.encode('utf-16-le', 'surrogatepass')
        return [b[i] | (b[i+1] << 8) for i in range(0, len(b), 2)]
    return [ord(c) for c in text]

def U(us):
    return ','.join('%x' % u for u in us) if us else '-'

class Gen:
    def __init__(self, seed):
        self.r = random.Random(seed)
        self.seed = seed
        self.lines = []
        self.stats = {}
        self.slotnames = {}   # generator-side guess of the param names currently in each slot's query (hit rate of name-based ops)
    def stat(self, k):
        self.stats[k] = self.stats.get(k, 0) + 1
    def emit(self, s):
        self.lines.append(s)
        t = s.split(' ')
        if t[0] == 'case': self.slotnames = {}
    def note_query(self, slot, text):
        m = re.search(r'\?([^#]*)', text)
        self.slotnames[slot] = [p.split('=')[0] for p in m.group(1).split('&') if p and '%' not in p.split('=')[0] and '+' not in p.split('=')[0]] if m else []
    def enc(self, w8=70):
        x = self.r.randrange(100)
        return 8 if x < w8 else (16 if x < w8 + (100 - w8) // 2 else 32)
    def arg(self, text, enc=None):
        e = enc or self.enc()
        return '%d %s' % (e, U(units(text, e)))
    def pick(self, l):
        return self.r.choice(l)

    # ------------------------------------------------------------------ URL text grammar
    def host(self):
        r = self.r.randrange(100)
        if r < 35:
            n = self.r.randrange(1, 4)
            h = '.'.join(self.pick(LABELS) for _ in range(n))
            if self.r.randrange(3) == 0:
                t = self.pick(TLDS)
                h = h + ('' if t.startswith(('\u3002', '\uff0e', '.')) or t == '' else '.') + t
            return h
        if r < 44: return self.pick(IPV4)
        if r < 50:
            # numeric hosts built like the ipv4 stream builds them (1 to 5 parts, optional trailing dot)
            return '.'.join(self.ipv4num() for _ in range(self.r.choice([1, 1, 2, 2, 3, 4, 4, 5]))) + self.pick(['', '', '', '.'])
        if r < 65: return self.pick(IPV6)
        if r < 75: return self.pick(BADHOST)
        if r < 80: return ''
        if r < 85: return self.pick(['localhost','LOCALHOST','localhost.','C:','C|','c:','.','..','%6cocalhost','loc%61lhost'])
        return self.pick(LABELS)
    def path(self):
        n = self.r.choice([0, 1, 1, 2, 2, 3, 4, 6])
        if n == 0: return self.pick(['', '/', '//', '\\'])
        sep = '/'
        s = ''
        for _ in range(n):
            sep = '\\' if self.r.randrange(8) == 0 else '/'
            s += sep + self.pick(SEGS)
        if self.r.randrange(5) == 0: s += '/'
        return s
    def mutate(self, s):
        if not s: return s
        k = self.r.randrange(10)
        i = self.r.randrange(len(s) + 1)
        if k == 0: return s[:i] + self.pick(['\t', '\n', '\r']) + s[i:]
        if k == 1: return s[:i] + self.pick(['\x00', '\x01', '\x1f', ' ']) + s[i:]
        if k == 2 and i < len(s): return s[:i] + s[i+1:]
        if k == 3: return s[:i] + self.pick(list(':/\\@?#[]%.|')) + s[i:]
        if k == 4 and i < len(s): return s[:i] + s[i].swapcase() + s[i+1:]
        if k == 5 and i < len(s) and ord(s[i]) < 0x80: return s[:i] + '%%%02X' % ord(s[i]) + s[i+1:]
        if k == 6 and i < len(s): return s[:i] + s[i] + s[i:]
        if k == 7: return s[:i] + self.pick(BOUNDARY) + s[i:]
        if k == 8 and i < len(s) and 0x20 < ord(s[i]) < 0x7F: return s[:i] + alias(s[i], self.pick(ALIAS_OFFSETS)) + s[i+1:]
        return s
    def url_text(self):
        scheme = self.pick(SCHEMES)
        s = scheme + ':' + self.pick(AFTER)
        if self.r.randrange(10) < 8:
            s += self.pick(USER) + self.host() + self.pick(PORTS)
        s += self.path() + self.pick(QUERIES) + self.pick(FRAGS)
        if scheme in ('non-spec', 'x', 'mailto', 'blob') and self.r.randrange(4) == 0:
            s = scheme + ':' + self.pick(['opaque', 'op que  ', 'a/b', 'x y ', '', ' ', 'http://h/p', 'https://u@h:1/']) + self.pick(QUERIES) + self.pick(FRAGS)
        if self.r.randrange(10) < 3:
            for _ in range(self.r.randrange(1, 3)): s = self.mutate(s)
        if self.r.randrange(10) == 0:
            s = self.pick(['  ', '\x00', '\t \n', '\x1f']) + s + self.pick([' ', '\x00 ', '\n', ''])
        return s
    def base_arg(self, nslots_valid=()):
        """base token: none, slot, or string"""
        r = self.r.randrange(10)
        if r < 4: return '-'
        if r < 7 and nslots_valid: return 's%d' % self.pick(list(nslots_valid))
        t = self.pick(STARTS) if self.r.randrange(4) else self.url_text()
        e = self.enc()
        return 't%d:%s' % (e, U(units(t, e)))

    # ------------------------------------------------------------------ streams
    def s_url(self):
        """C01/C02/C08/C09: parses with and without base, relative chains, object reuse"""
        self.emit('case')
        self.stat('case:url')
        r = self.r.randrange(100)
        if r < 40:
            self.emit('parse 1 %s -' % self.arg(self.pick(STARTS) if self.r.randrange(3) else self.url_text()))
            self.emit('parse 0 %s %s' % (self.arg(self.url_text()), self.base_arg((1,))))
        elif r < 65:
            self.emit('parse 1 %s -' % self.arg(self.pick(STARTS) if self.r.randrange(4) else self.url_text()))
            self.emit('parse 0 %s s1' % self.arg(self.pick(RELS) if self.r.randrange(4) else self.mutate(self.pick(RELS))))
        elif r < 75:
            self.emit('parse 0 %s -' % self.arg(self.pick(STARTS)))
            for _ in range(self.r.randrange(2, 5)):
                rel = self.pick(RELS) if self.r.randrange(3) else self.path() + self.pick(QUERIES)
                self.emit('parse 0 %s s0' % self.arg(rel))
        elif r < 85:
            for _ in range(self.r.randrange(2, 4)):
                self.emit('parse 0 %s -' % self.arg(self.url_text()))
            self.emit('parse 1 %s s0' % self.arg(self.pick(RELS)))
        else:
            self.emit('parse 0 %s %s' % (self.arg(self.url_text()), self.base_arg()))
        if self.r.randrange(6) == 0: self.emit('probe 0')

    def setval(self, setter):
        r = self.r.randrange(10)
        if self.r.randrange(12) == 0: return ''   # the empty value is a special case of every setter
        if r < 6: v = self.pick(SETVALS[setter])
        elif r < 8: v = self.mutate(self.pick(SETVALS[setter]))
        elif r < 9: v = self.url_text()
        else: v = self.pick(SEGS + LABELS + BADHOST + RELS)
        return v
    def start_url(self):
        """structured start URL: shape x query (null / empty / text) x fragment (null / empty / text)"""
        return self.pick(SHAPES) + self.pick(SQUERIES) + self.pick(SFRAGS)
    def s_set(self):
        """C03/C05/C08: setter histories over the start-URL classes"""
        self.emit('case')
        self.stat('case:set')
        x = self.r.randrange(10)
        self.emit('parse 0 %s -' % self.arg(self.url_text() if x < 2 else self.start_url() if x < 5 else self.pick(STARTS)))
        for _ in range(self.r.choice([1, 1, 2, 3, 4, 6, 12])):
            st = self.pick(SETTERS if self.r.randrange(8) else ['protocol', 'host', 'port', 'pathname'])
            self.stat('setter:' + st)
            self.emit('set 0 %s %s' % (st, self.arg(self.setval(st))))
            x = self.r.randrange(14)
            if x == 0: self.emit('probe 0')
            elif x == 1: self.emit('parse 1 %s s0' % self.arg(self.pick(RELS)))
            elif x == 2: self.emit('sp 0 get')
            elif x == 3:
                # self-referential argument: a view of the object's own storage
                self.stat('alias:aset')
                self.emit('aset 0 %s %s' % (self.pick(SETTERS), self.pick(GETTERS)))
            elif x == 4:
                self.stat('alias:parse')
                if self.r.randrange(2): self.emit('aparse 0')
                else: self.emit('aparseb 0 %s' % self.arg(self.pick(RELS)))

    def sp_op(self, slot, kind='sp'):
        o = self.pick(['append', 'append', 'set', 'del', 'del2', 'remove', 'remove2', 'has', 'has2', 'getv', 'getall', 'sort', 'sort', 'clear', 'parse', 'size', 'str'] + (['get'] if kind == 'sp' else ['removeif', 'removeif']))
        self.stat(kind + ':' + o)
        if o == 'removeif':
            # remove_if with a user predicate (value length, name length bound, first value byte, last name byte)
            pk = self.pick(['vlen', 'vlen', 'nlenle', 'vfirst', 'nlast'])
            k = {'vlen': self.r.randrange(4), 'nlenle': self.r.randrange(4)}.get(pk, self.pick([0x31, 0x32, 0x33, 0x61, 0x62, 0x76, 0x80, 0xA9, 0xBD]))
            return '%s %d removeif %s %d' % (kind, slot, pk, k)
        # char-typed ill-formed names are finding F3: names/values here are well-formed text
        # names that really occur in the lists (the queries of STARTS, earlier appends) most of the time, so that
        # set / del / remove / has / get hit existing pairs
        known = self.slotnames.get((kind, slot), []) if kind == 'psp' else self.slotnames.get(slot, [])
        if known and self.r.randrange(10) < 6: n = self.pick(known)
        else: n = self.pick(['a', 'b', 'q', 'x', 'y', 'k', 'z', 'c']) if self.r.randrange(10) < 5 else self.pick(NAMES)
        if o in ('append', 'set'):
            key = (kind, slot) if kind == 'psp' else slot
            self.slotnames.setdefault(key, []).append(n)
        v = self.pick(['1', '2', '3', 'v', '']) if self.r.randrange(10) < 5 else self.pick(VALUES)
        if o in ('append', 'set', 'del2', 'remove2', 'has2'):
            return '%s %d %s %s %s' % (kind, slot, o, self.arg(n), self.arg(v))
        if o in ('del', 'remove', 'has', 'getv', 'getall'):
            return '%s %d %s %s' % (kind, slot, o, self.arg(n))
        if o == 'parse':
            q = self.pick(QUERIES + ['a=1&b=2&a=3', '?x=%F0%9F%92%A9&y=+', 'b&a&c', '%', 'a=%4', 'k=%41', '&&', '=', '?=&=', 'a==b', '\ue000=1&\U00010000=2&\uffff=3'])
            return '%s %d parse %s' % (kind, slot, self.arg(q))
        return '%s %d %s' % (kind, slot, o)
    def s_obj(self):
        """C05/C06: two-object histories with copy / move / swap / safe_assign / clear, params edits"""
        self.emit('case')
        self.stat('case:obj')
        if self.r.randrange(12) == 0:
            # reuse of an EMPTY object whose params object still holds a list (edits on an invalid URL are inert for
            # the URL but stay in the list; safe_assign into an object without params leaves the source's list)
            self.stat('obj:reuse-empty')
            noq = self.pick(['http://h/p', 'http://h.example/p#frag', 'non-spec:/x', 'file:///C:/x', 'https://u@h:8/'])
            if self.r.randrange(2):
                if self.r.randrange(2): self.emit('parse 0 %s -' % self.arg(self.pick(STARTS))); self.emit('sp 0 get'); self.emit('obj clear 0 0')
                else: self.emit('sp 0 get')
                self.emit(self.sp_op(0)); self.emit('sp 0 append %s %s' % (self.arg('k'), self.arg('v')))
                self.emit('parse 0 %s -' % self.arg(noq))
            else:
                self.emit('parse 1 %s -' % self.arg('http://b.example/?x=1&y=2')); self.emit('sp 1 get')
                self.emit('parse 0 %s -' % self.arg('http://a.example/'))
                self.emit('obj safea 0 1')
                self.emit('parse 1 %s -' % self.arg(noq))
                self.emit('dump 1'); self.emit('sp 1 append %s %s' % (self.arg('z'), self.arg('3')))
            self.emit('dump 0'); self.emit('sp 0 %s' % self.pick(['sort', 'append %s %s' % (self.arg('c'), self.arg('d'))])); self.emit('dump 0'); self.emit('dump 1')
            return
        t0 = self.pick(STARTS + ['http://h/?a=1&b=2&a=3#f', 'https://h/p?q=1&x=2&y=3', 'non-spec:/p?k=v&k=w'])
        self.emit('parse 0 %s -' % self.arg(t0)); self.note_query(0, t0)
        if self.r.randrange(2):
            t1 = self.pick(STARTS + ['http://h/?a=1&b=2&a=3#f', 'ws://h/?x=1&x=2']) if self.r.randrange(4) else self.url_text()
            self.emit('parse 1 %s -' % self.arg(t1)); self.note_query(1, t1)
        if self.r.randrange(2): self.emit('sp %d get' % self.r.randrange(2))
        for _ in range(self.r.randrange(2, 9)):
            x = self.r.randrange(100)
            a = self.r.randrange(2); b = 1 - a
            if x < 3:
                # an object assigned / moved / safe_assigned / swapped with ITSELF stays as it is
                o = self.pick(['copya', 'movea', 'swap', 'safea'])
                self.stat('obj:self-' + o)
                self.emit('obj %s %d %d' % (o, a, a))
                self.emit('set %d hash %s' % (a, self.arg('s')))
            elif x < 30:
                o = self.pick(['copya', 'copyc', 'movea', 'movec', 'swap', 'safea', 'clear'])
                self.stat('obj:' + o)
                self.emit('obj %s %d %d' % (o, a, b))
                if o in ('movea', 'movec', 'safea'):
                    # the moved-from source must be re-initialised before it is used again
                    self.emit('parse %d %s -' % (b, self.arg(self.pick(STARTS))))
            elif x < 50:
                st = self.pick(SETTERS)
                self.emit('set %d %s %s' % (a, st, self.arg(self.setval(st))))
            elif x < 55:
                self.emit('parse %d %s %s' % (a, self.arg(self.url_text()), self.base_arg((b,))))
            elif x < 60:
                # relative reference against the other object (use as base)
                self.emit('parse %d %s s%d' % (a, self.arg(self.pick(RELS)), b))
            elif x < 85:
                self.emit(self.sp_op(a))
            elif x < 87:
                self.emit('psp 0 %s' % self.pick(['new', 'ctor %s' % self.arg('a=1&b=2'), 'append %s %s' % (self.arg('k'), self.arg('v'))]))
                self.emit('sp %d %s 0' % (a, self.pick(['assign', 'safea'])))
            elif x < 90:
                # sorted list of a URL receives an unsorted list (assignment / copy of the URL), then sort
                self.stat('obj:transfer-then-sort')
                self.emit('sp %d sort' % a)
                if self.r.randrange(2):
                    self.emit('psp 0 ctor %s' % self.arg(self.pick(['z=1&a=2', 'b=1&a=2&b=3']))); self.emit('sp %d %s 0' % (a, self.pick(['assign', 'safea'])))
                else:
                    self.emit('parse %d %s -' % (b, self.arg('http://h/?z=1&a=2&m=3'))); self.emit('sp %d get' % b); self.emit('obj %s %d %d' % (self.pick(['copya', 'safea']), a, b))
                    self.emit('parse %d %s -' % (b, self.arg(self.pick(STARTS))))
                self.emit('sp %d sort' % a); self.emit('dump %d' % a)
            elif x < 95:
                self.emit('psp 1 fromurl %d' % a)
                self.emit('psp 1 append %s %s' % (self.arg('det'), self.arg('ached')))
                self.emit('dump %d' % a)
            elif x < 97:
                self.emit('probe %d' % a)
            else:
                self.stat('alias:obj')
                self.emit(self.pick(['aset %d %s %s' % (a, self.pick(SETTERS), self.pick(GETTERS)), 'aparse %d' % a, 'aparsebg %d %s' % (a, self.pick(['href', 'protocol', 'pathname', 'search', 'path'])), 'aparseb %d %s' % (a, self.arg(self.pick(RELS))),
                                     'parse %d %s s%d' % (a, self.arg(self.pick(RELS)), a), 'sp %d aparse %s' % (a, self.arg(self.pick(['a', 'q', 'next', 'x']))), 'sp %d aset2' % a, 'sp %d aidx %s %d %d' % (a, self.pick(['remove', 'remove2', 'del', 'del2', 'set']), self.r.randrange(5), self.r.randrange(5)), 'sp %d selfsafea' % a]))
        if self.r.randrange(15) == 0:
            # mutators of a url's OWN list whose arguments are views of that list's names / values (any position), on a query
            # with duplicates interleaved with other names
            self.stat('alias:sp-indexed')
            k = self.r.randrange(2)
            self.emit('parse %d %s -' % (k, self.arg('http://h/p?' + self.pick(['a=1&b=2&a=3&b=4', 'x=1&y=2&x=1&z=3&x=2', 'a=1&a=2&b=3&a=4&c=5', 'k=' + 'v' * 30 + '&j=2&k=3']) + '#f')))
            self.emit('sp %d get' % k)
            for _ in range(self.r.randrange(1, 3)):
                self.emit('sp %d aidx %s %d %d' % (k, self.pick(['remove', 'remove', 'remove2', 'del', 'del2', 'set', 'append']), self.r.randrange(6), self.r.randrange(6)))
            self.emit('dump %d' % k)
        if self.r.randrange(12) == 0:
            # "follow the next parameter": the input of parse() is a view of the URL's own search parameter
            self.stat('alias:parse-own-param')
            k = self.r.randrange(2)
            self.emit('parse %d %s -' % (k, self.arg('http://h/p?x=1&next=' + self.pick(['https%3A%2F%2Fexample.org%2Fa%2Fvery%2Flong%2Fpath%2Fso%2Fthat%2Fit%2Fis%2Fon%2Fthe%2Fheap%3Fq%3D1%26r%3D2', 'a%3Ab', '..%2Fy', '%3A', 'file%3A%2F%2F%2FC%3A%2Fx']) + '&z=2')))
            self.emit('sp %d get' % k)
            self.emit('aparsesp %d %s' % (k, self.arg(self.pick(['next', 'next', 'x', 'nope']))))
            self.emit('sp %d append %s %s' % (k, self.arg('k'), self.arg('v')))
        self.emit('dump 0'); self.emit('dump 1')
        if self.r.randrange(3) == 0: self.emit('probe %d' % self.r.randrange(2))

    def s_psp(self):
        """C15/C16: standalone URLSearchParams histories"""
        self.emit('case')
        self.stat('case:psp')
        q = self.pick(QUERIES + ['a=1&b=2&a=3', 'z=1&\U00010000=2&\uffff=3&\ue000=4&a=5', 'b=&a=&c=&a=2', '%', '%4', 'x=%41', '&&a', '=', '+=+', 'ab=1&abc=2&abd=3&a=4', '\U0001f600=1&\U0001f601=2&\U0001f3ff=3&\U0001f400=4'])
        if self.r.randrange(4):
            self.emit('psp 0 ctor %s' % self.arg(q))
            self.slotnames[('psp', 0)] = [p.split('=')[0] for p in q.lstrip('?').split('&') if p and '%' not in p.split('=')[0] and '+' not in p.split('=')[0]]
        for _ in range(self.r.randrange(1, 10)):
            self.emit(self.sp_op(0, 'psp'))
        self.emit('psp 0 sort')
        if self.r.randrange(6) == 0:
            # the cached sorted flag after sort()/clear(): appends in ascending BYTE order that are descending in
            # UTF-16 code unit order (U+E000..U+FFFF before a supplementary code point), then sort again
            self.stat('psp:flag-pattern')
            if self.r.randrange(2): self.emit('psp 0 clear')
            hi = self.pick(['\ue000', '\uffff', '\uf900', 'a\ue000', '\ufb00'])
            sup = self.pick(['\U00010000', '\U0001f600', '\U0010ffff', 'a\U00010000']) if not hi.startswith('a') else 'a\U00010000'
            self.emit('psp 0 %s %s %s' % (self.pick(['append', 'set']), self.arg(hi), self.arg('1')))
            self.emit('psp 0 %s %s %s' % (self.pick(['append', 'set']), self.arg(sup), self.arg('2')))
            if self.r.randrange(2): self.emit('psp 1 copy 0'); self.emit('psp 1 sort')
            self.emit('psp 0 sort')
        if self.r.randrange(3) == 0:
            self.emit('psp 1 copy 0'); self.emit(self.sp_op(1, 'psp')); self.emit('psp 0 size')
        if self.r.randrange(6) == 0:
            # arguments that are views of the list's own names / values
            self.stat('alias:psp')
            if self.r.randrange(2): self.emit('psp 0 append %s %s' % (self.arg('next'), self.arg(self.pick(['a=1&b=2', 'next=x%26y&z', '', 'k=' + 'v' * 40 + '&a=b&c=d&e=f']))))
            if self.r.randrange(2):
                # duplicates of a long name: set / del with a view of the LAST duplicate's name erase the pair the
                # argument points into
                ln = self.pick(['L' * 40, 'k', '\u00e4' * 20])
                for v in ('1', '2', '3'): self.emit('psp 0 append %s %s' % (self.arg(ln), self.arg(v)))
            self.emit('psp 0 %s' % self.pick(['aparse %s' % self.arg(self.pick(['next', 'a', 'q', 'b'])), 'aappend', 'aset', 'aset2', 'aset2', 'adel', 'adel2', 'selfsafea']))
        if self.r.randrange(6) == 0:
            # arguments that are views of the i-th pair's name / the j-th pair's value of the list being edited, for EVERY
            # mutator and every position (a pair that is kept, one that is removed, the first, the last), on lists with
            # duplicates interleaved with other names
            self.stat('alias:psp-indexed')
            q = self.pick(['a=1&b=2&a=3&b=4', 'a=1&a=2&b=3&a=4&c=5', 'x=1&y=2&x=1&z=3&x=2', 'k=' + 'v' * 30 + '&j=2&k=' + 'w' * 30 + '&k=3&m=4', 'n=1', 'a=1&b=1&c=1&a=1'])
            self.emit('psp 0 ctor %s' % self.arg(q))
            for _ in range(self.r.randrange(1, 4)):
                self.emit('psp 0 aidx %s %d %d' % (self.pick(['remove', 'remove', 'remove2', 'del', 'del2', 'set', 'append', 'has2']), self.r.randrange(6), self.r.randrange(6)))
            self.emit('psp 0 sort')
            self.emit('psp 0 sort')
        if self.r.randrange(8) == 0:
            # LONG lists (beyond the small-range thresholds of sorting algorithms: 16, 32, 64) with few distinct names and
            # pairwise distinct values: stability of sort(), get / get_all after it, standalone and owned by a url
            self.stat('psp:long-list')
            n = self.pick([17, 18, 24, 33, 40, 65, 70, 130])
            names = self.pick([['a', 'b'], ['b', 'a', 'c'], ['k'], ['\uffff', '\U00010000', 'z'], ['x', 'x', 'x', 'y']])
            q = '&'.join('%s=%d' % (self.pick(names), i) for i in range(n))
            if self.r.randrange(2):
                self.emit('psp 0 ctor %s' % self.arg(q)); self.emit('psp 0 sort'); self.emit('psp 0 getall %s' % self.arg(names[0])); self.emit('psp 0 str')
                self.emit('psp 0 append %s %s' % (self.arg(names[-1]), self.arg('last'))); self.emit('psp 0 sort')
            else:
                self.emit('parse 0 %s -' % self.arg('http://h/p?' + q + '#f')); self.emit('sp 0 get'); self.emit('sp 0 sort'); self.emit('sp 0 getall %s' % self.arg(names[0])); self.emit('dump 0')
        if self.r.randrange(5) == 0:
            # a list known to be sorted receives an UNSORTED list from another object, then is sorted: every
            # cached fact about the old list must have gone with it
            self.stat('psp:transfer-then-sort')
            self.emit('psp 1 ctor %s' % self.arg(self.pick(['z=1&a=2', 'b=1&a=2&b=3&a=4', 'y=&x=&\U00010000=1&\uffff=2'])))
            self.emit('psp 0 copy 1'); self.emit('psp 0 sort')

    def s_form(self):
        """C15: byte strings for the form parser, raw and escaped ill-formed UTF-8"""
        self.emit('case')
        self.stat('case:form')
        alphabet = [0x26, 0x3D, 0x2B, 0x25, 0x34, 0x31, 0x46, 0x61, 0x3F, 0xC3, 0xA9, 0xFF, 0x20, 0x67, 0xE2, 0x82, 0xF0, 0x9F, 0x92, 0x78, 0xC0, 0xC1, 0xAE, 0x80]
        n = self.r.randrange(0, 16)
        b = [self.pick(alphabet) for _ in range(n)]
        if self.r.randrange(16) == 0:
            # a LONG escaped value / name (beyond every internal block and buffer size), shifted by a few bytes
            self.stat('form:long')
            mb = self.pick([[0x25, 0x45, 0x32, 0x25, 0x38, 0x32, 0x25, 0x41, 0x43], [0x25, 0x43, 0x33, 0x25, 0x41, 0x39], [0xE2, 0x82, 0xAC], [0x2B], [0x25, 0x46, 0x30, 0x25, 0x39, 0x46, 0x25, 0x39, 0x32, 0x25, 0x41, 0x39]])
            b = b[:3] + self.pick([[], [0x3D], [0x26, 0x78, 0x3D]]) + mb * self.pick([22, 43, 44, 65, 86, 130, 342]) + self.pick([[], [0x25], [0x26, 0x61]])
        # finding F4 (raw lead byte followed by an escaped continuation) is excluded from this stream:
        # no raw byte >= 0x80 directly before '%'
        for i in range(len(b) - 1):
            if b[i] >= 0x80 and b[i+1] == 0x25: b[i+1] = 0x26
        for i in range(len(b) - 3):
            if b[i] == 0x25 and b[i+3] >= 0x80: b[i+3] = 0x26
        self.emit('psp 0 ctor 8 %s' % U(b))
        self.emit('psp 0 sort')

    def s_host(self):
        """C07: hosts through special / non-special / file URLs, setters, url_host"""
        self.emit('case')
        self.stat('case:host')
        h = self.host()
        if self.r.randrange(4) == 0: h = self.mutate(h)
        if self.r.randrange(150) == 0:
            # VERY long hosts on the IDNA path (beyond the 1024-unit inline buffers, and beyond 2048: a second, heap-to-heap
            # growth of the conversion buffers)
            self.stat('host:very-long')
            lab = self.pick(['\u00e4' + 'a' * 50, '%C3%A4' + 'b' * 40, 'xn--' + 'a' * 30, 'a' * 63])
            h = '.'.join([lab] * self.pick([21, 25, 45, 60])) + self.pick(['', '.com', '.\u00e4'])
        e = self.enc(50)
        x = self.r.randrange(100)
        # the instances of the IDNA hypotheses of the theorems, at this host, on the oracle
        self.emit('idnahyp %s' % self.arg(h, e))
        if x < 30:
            self.emit('host %s' % self.arg(h, e))
        elif x < 55:
            self.emit('parse 0 %s -' % self.arg(self.pick(['http://', 'https://', 'ws://', 'ftp://']) + h + self.pick(['', '/', ':8/', '/p?q'] ), e))
        elif x < 65:
            self.emit('parse 0 %s -' % self.arg('non-spec://' + h + self.pick(['', '/', ':8/']), e))
        elif x < 75:
            self.emit('parse 0 %s -' % self.arg('file://' + h + self.pick(['', '/', '/p']), e))
        elif x < 90:
            self.emit('parse 0 %s -' % self.arg(self.pick(['http://x/', 'non-spec://x/', 'file://x/', 'https://u:p@x:8/'])))
            self.emit('set 0 %s %s' % (self.pick(['host', 'hostname']), self.arg(h, e)))
        else:
            self.emit('host %s' % self.arg(h, e))
            self.emit('parse 0 %s -' % self.arg('http://' + h + '/', e))

    def s_hostascii(self, k):
        """C07 fast path: bounded-exhaustive ASCII hosts (index k enumerates the space)"""
        syms = [chr(c) for c in range(0x20, 0x7F)] + ['\x00', '\t', '\n', '\x7f', '\x1f']
        n = len(syms)
        if k < n: s = syms[k]
        elif k < n + n * n: k -= n; s = syms[k // n] + syms[k % n]
        else: return False
        self.emit('host 8 %s' % U(units(s, 8)))
        self.emit('idnahyp 8 %s' % U(units(s, 8)))
        return True

    def s_enc(self):
        """C10: the same API in every encoding, well-formed boundary text and ill-formed sequences"""
        self.emit('case')
        self.stat('case:enc')
        e = self.pick([8, 16, 32])
        bad = {8: BAD8, 16: BAD16, 32: BAD32}[e]
        def noisy():
            # code units: ASCII context + boundary scalars + ill-formed fragments
            us = []
            for _ in range(self.r.randrange(1, 5)):
                x = self.r.randrange(10)
                if x < 3: us += units(self.pick(['a', '/', '?', '#', '%41', 'x y', ':', '@', '.', '=', '&']), e)
                elif x == 3 and e != 8:
                    # a wide unit whose LOW BYTE is an ASCII-significant character, in a context where that character matters
                    t = self.pick(['%41', '%4', '%C3%A9', '[1::2]', '1.2.3.4', '0x7f', ':80', 'http:', '//', '?a=b&c', '#', '@', 'C:', '..', '%2e'])
                    i = self.r.randrange(len(t)); us += units(t[:i] + alias(t[i], self.pick(ALIAS_OFFSETS if e == 32 else ALIAS_OFFSETS[:4])) + t[i+1:], e)
                elif x < 6: us += units(self.pick(BOUNDARY), e)
                else: us += self.pick(bad)
            return us
        x = self.r.randrange(100)
        if x < 8 and e != 8:
            # a whole URL (or setter value) in which ONE character, at any position — scheme letter, delimiter, digit,
            # drive letter, hex digit — is replaced by a wide unit with the same low byte
            t = self.pick(STARTS + ['http://example.org/a?b#c', 'file:///c:/x/../y', 'HTTP://H:80/', 'ws://[1::a]:81/', 'http://0x7f.1/', 'http://h/%41%e4'])
            i = self.r.randrange(len(t)); t = t[:i] + alias(t[i], self.pick(ALIAS_OFFSETS if e == 32 else ALIAS_OFFSETS[:4])) + t[i+1:]
            self.stat('enc:alias-anywhere')
            if self.r.randrange(3): self.emit('parse 0 %d %s %s' % (e, U(units(t, e)), self.pick(['-', '-', 't8:' + U(units('http://example.org/foo/bar', 8)), 't8:' + U(units('file:///C:/dir/file', 8))])))
            else:
                self.emit('parse 0 %s -' % self.arg('https://u:p@h:81/a/b?q#f'))
                self.emit('set 0 %s %d %s' % (self.pick(['href', 'protocol', 'host', 'pathname', 'port']), e, U(units(t, e))))
        elif x < 25:
            pre = self.pick(['http://h/', 'http://h/?', 'http://h/#', 'http://', 'non-spec:', 'non-spec://', 'http://u', 'file:///', 'http://h/p?q#'])
            suf = self.pick(['', '/', '@h/', '#', '?x'])
            self.emit('parse 0 %d %s -' % (e, U(units(pre, e) + noisy() + units(suf, e))))
        elif x < 45:
            self.emit('parse 0 %s -' % self.arg(self.pick(['http://u:p@h:81/a/b?q#f', 'non-spec://h/p', 'non-spec:op'])))
            st = self.pick(['username', 'password', 'host', 'hostname', 'pathname', 'search', 'hash', 'href', 'protocol', 'port'])
            self.emit('set 0 %s %d %s' % (st, e, U(noisy())))
        elif x < 55: self.emit('penc %s %d %s' % (self.pick(['fragment', 'query', 'squery', 'path', 'rawpath', 'posixpath', 'userinfo', 'component']), e, U(noisy())))
        elif x < 65: self.emit('pdec %d %s' % (e, U(noisy())))
        elif x < 68: self.emit('host %d %s' % (e, U(units('a', e) + noisy())))
        elif x < 72:
            # hosts: addresses, and labels where a non-ASCII unit directly follows an ASCII-significant one
            # (signedness / width of the comparison of the following unit: '<' U+0338 etc.)
            h = self.pick(IPV6 + IPV4) if self.r.randrange(2) else '.'.join(self.pick(LABELS) for _ in range(self.r.randrange(1, 3)))
            if self.r.randrange(2): self.emit('host %d %s' % (e, U(units(h, e))))
            else: self.emit('parse 0 %d %s -' % (e, U(units('http://' + h + '/', e))))
        elif x < 80: self.emit('utf %d %s' % (e, U(noisy())))
        elif x < 88 and e != 8: self.emit('psp 0 ctor %d %s' % (e, U(units('a=', e) + noisy() + units('&', e) + noisy())))
        elif x < 94 and e != 8: self.emit('psp 0 append %d %s %d %s' % (e, U(noisy()), e, U(noisy())))
        elif self.r.randrange(2): self.emit('frompath posix %d %s' % (e, U(units('/', e) + noisy())))
        else:
            # a path whose decisive characters come late (a scanner that covers only part of a wide string)
            self.emit('frompath %s %d %s' % (self.pick(['posix', 'windows']), e, U(units(self.pick(['/srv/www/public/../secret', 'C:\\srv\\www\\public\\..\\secret', '\\\\server\\share\\public\\..\\x', '/a/b/c/d/e/f/g/h/%2e%2e', '/aaaaaaaaaaaaaaaaaaaaaaaa/b?c#d', 'C:\\aaaaaaaaaaaaaaaa\\b|c']), e))))

        if self.r.randrange(5) == 0:
            # the same well-formed name / value in every encoding through every query and mutator of a params object
            # (short names and names of 16+ UTF-8 bytes: beyond the small-string buffer of the converted temporary)
            self.stat('enc:params-queries')
            nm = ''.join(self.pick(BOUNDARY + ['a', 'key', '\u4f60\u597d', '\U0001f600', '\u00e9', 'x y', 'n&=']) for _ in range(self.pick([1, 1, 2, 4, 7])))
            vl = ''.join(self.pick(BOUNDARY + ['v', '1', '\U0001f4a9', '\uffff', ' ']) for _ in range(self.pick([0, 1, 3, 6])))
            k = self.pick(['psp', 'sp'])
            e0 = self.pick([8, 16, 32])
            self.emit('%s 0 append %d %s %d %s' % (k, e0, U(units(nm, e0)), e0, U(units(vl, e0))))
            for _ in range(self.r.randrange(2, 6)):
                e1 = self.pick([8, 16, 32]); e2 = self.pick([8, 16, 32])
                o = self.pick(['has', 'has', 'getv', 'getv', 'getall', 'has2', 'set', 'append', 'del2', 'del', 'remove'])
                if o in ('has2', 'set', 'append', 'del2'): self.emit('%s 0 %s %d %s %d %s' % (k, o, e1, U(units(nm, e1)), e2, U(units(vl, e2))))
                else: self.emit('%s 0 %s %d %s' % (k, o, e1, U(units(nm, e1))))

    def s_set_exh(self, k, stride=None):
        """C03/C05/C08: EVERY structured start URL x EVERY key value of every setter, one call each, then the call
        that most often exposes stale bookkeeping (a second setter on a later part)"""
        starts = [a + b + c for a in SHAPES for b in SQUERIES for c in SFRAGS]
        calls = [(st, v) for st in SETTERS for v in SETKEYS[st]]
        # stride n: every n-th combination, the offset rotating with the seed (quick tier)
        stride = stride or 1
        k = k * stride + self.seed % stride
        if k >= len(starts) * len(calls): return False
        u = starts[k // len(calls)]; st, v = calls[k % len(calls)]
        self.emit('case')
        self.emit('parse 0 8 %s -' % U(units(u, 8)))
        self.emit('set 0 %s 8 %s' % (st, U(units(v, 8))))
        self.emit('set 0 %s 8 %s' % (('search', U(units('z', 8))) if k % 2 else ('hash', U(units('z', 8)))))
        return True
    # ---- the web-platform-tests data for the URL Standard (doc/wpt/: urltestdata.json, setters_tests.json):
    # the Standard's own conformance inputs; the expectations in the files are compared by tools/extra.py wpt
    _wpt = {}
    wpt_missing = set()
    def wpt_data(self, name):
        if name not in Gen._wpt:
            import json as J
            d = J.load(open(os.path.join(os.path.dirname(os.path.dirname(os.path.abspath(__file__))), 'doc', 'wpt', name)))
            # plus the repository's own data files in the same format (test/data/)
            repo = os.environ.get('VERIF_REPO', '/repo')
            def own(f):
                try: return J.load(open(os.path.join(repo, 'test', 'data', f)))
                except Exception:
                    Gen.wpt_missing.add(f)
                    return [] if name != 'setters_tests.json' else {}
            if name == 'urltestdata.json': Gen._wpt[name] = [c for c in d + own('my-urltestdata.json') if isinstance(c, dict)]
            else: Gen._wpt[name] = [(st, c) for dd in (d, own('my-setters_tests.json')) for st, cs in dd.items() if isinstance(cs, list) and st != 'comment' for c in cs]
        return Gen._wpt[name]
    def form_data(self):
        """the repository's urlencoded-parser.json and urlsearchparams-sort.json (web-platform-tests data it ships)"""
        if 'form' not in Gen._wpt:
            import json as J
            repo = os.environ.get('VERIF_REPO', '/repo')
            out = []
            for f, sort in (('urlencoded-parser.json', False), ('urlsearchparams-sort.json', True)):
                try: out += [(sort, c) for c in J.load(open(os.path.join(repo, 'test', 'data', f))) if isinstance(c, dict)]
                except Exception: Gen.wpt_missing.add(f)
            Gen._wpt['form'] = out
        return Gen._wpt['form']
    def s_wptform(self, k):
        d = self.form_data()
        if k >= len(d): return False
        sort, c = d[k]
        e = self.wpt_enc(k, c['input'])
        self.emit('case')
        self.emit('psp 0 ctor %d %s' % (e, U(units(c['input'], e))))
        if sort: self.emit('psp 0 sort')
        return True
    def wpt_enc(self, k, *texts):
        e = (8, 16, 32)[(k + self.seed) % 3]
        if e == 8 and any(0xD800 <= ord(ch) <= 0xDFFF for t in texts for ch in t): e = 16   # lone surrogates have no UTF-8 form
        return e
    def s_wpt(self, k):
        d = self.wpt_data('urltestdata.json')
        if k >= len(d): return False
        c = d[k]; base = c.get('base')
        e = self.wpt_enc(k, c['input'], base or '')
        self.emit('case')
        self.emit('parse 0 %d %s %s' % (e, U(units(c['input'], e)), '-' if base is None else 't%d:%s' % (e, U(units(base, e)))))
        return True
    def s_wptset(self, k):
        d = self.wpt_data('setters_tests.json')
        if k >= len(d): return False
        st, c = d[k]
        e = self.wpt_enc(k, c['href'], c['new_value'])
        self.emit('case')
        self.emit('parse 0 %d %s -' % (e, U(units(c['href'], e))))
        self.emit('set 0 %s %d %s' % (st, e, U(units(c['new_value'], e))))
        return True
    def s_alias_exh(self, k):
        """C03 / C04 / C05: every setter x every getter of the SAME object as argument (a view of the storage the setter
        edits in place), on start URLs where the part written is the last stored part, a middle part, a never-started
        part, and long enough that the edit reallocates; then parse(own href) and parse(relative, base = itself)"""
        starts = ['http://u:p@h:81/a/b?q=1#frag', 'non-spec:opaque  ?q#f', 'file:///C:/x/y', 'non-spec://h/p?q', 'http://h/p#f%20 x', 'http://h/?a b',
                  'http://h/?' + 'abcdefghijklmnopqrstuvwxyz0123456789' * 2, 'https://' + 'h' * 40 + '.example/' + 'p' * 40, 'non-spec:/.//p', 'ws://h', 'blob:http://h/x#f',
                  'http://h/a/../b?x#' + 'f' * 50]
        # short URLs too: a serialization of at most 15 characters lives in the string's in-object buffer, and an
        # object made by COPY has no reserve (a parsed one has length + 32)
        starts += ['http://a/', 'a:b', 'x:/p?q#f', 'ws://h']
        PG = ['href', 'protocol', 'pathname', 'search', 'hash', 'host', 'path']
        n = len(SETTERS) * len(GETTERS)
        m = n + 2 + 2 * len(PG)
        if k >= len(starts) * m: return False
        u = starts[k // m]; j = k % m
        self.emit('case')
        if j >= n + 2 + len(PG):
            # the object under test is a copy
            self.emit('parse 1 8 %s -' % U(units(u, 8))); self.emit('obj copyc 0 1')
        else: self.emit('parse 0 8 %s -' % U(units(u, 8)))
        if j < n: self.emit('aset 0 %s %s' % (SETTERS[j // len(GETTERS)], GETTERS[j % len(GETTERS)]))
        elif j == n: self.emit('aparse 0')
        elif j == n + 1: self.emit('aparseb 0 8 %s' % U(units('../x?y', 8)))
        else: self.emit('aparsebg 0 %s' % PG[(j - n - 2) % len(PG)])
        self.emit('set 0 hash 8 %s' % U(units('z', 8)))
        return True
    def s_encraw(self):
        """C10 / C06: URLSearchParams members with CHAR-typed ill-formed UTF-8 names and values — the input class of the
        listed finding F3 (stored and compared raw). The library is compared with the code-shaped model inside the class,
        so a change confined to it is still seen; the difference to the Standard-shaped column is the finding itself."""
        self.emit('case')
        self.stat('case:encraw')
        def raw():
            us = []
            for _ in range(self.r.randrange(1, 4)):
                us += self.pick(BAD8) if self.r.randrange(3) else units(self.pick(['a', 'b', '=', '&', '+', 'k']), 8)
            return us
        kind = self.pick(['psp', 'sp'])
        if kind == 'sp': self.emit('parse 0 %s -' % self.arg(self.pick(['http://h/?a=1&b=2', 'non-spec:/p', 'http://h/p#f']))); self.emit('sp 0 get')
        if self.r.randrange(3) == 0:
            # the form parser on char input: ill-formed names AND values, in every position of the pair list
            q = []
            for i in range(self.r.randrange(1, 4)): q += (units('&', 8) if i else []) + raw() + units('=', 8) + raw()
            self.emit('%s 0 %s 8 %s' % (kind, 'parse' if kind == 'sp' else self.pick(['ctor', 'parse']), U(q)))
            self.emit('%s 0 sort' % kind)
            return
        for _ in range(self.r.randrange(1, 5)):
            o = self.pick(['append', 'append', 'set', 'del', 'del2', 'has', 'has2', 'getv', 'getall', 'remove'])
            if o in ('append', 'set', 'del2', 'has2'): self.emit('%s 0 %s 8 %s 8 %s' % (kind, o, U(raw()), U(raw())))
            else: self.emit('%s 0 %s 8 %s' % (kind, o, U(raw())))
        self.emit('%s 0 sort' % kind)
    def s_ipv6_shape(self, k):
        """C12: EVERY shape of piece list: 0..9 hex pieces x compression at every position (or none) x a trailing ':' /
        '::' / nothing x an embedded IPv4 tail or not"""
        shapes = []
        for n in range(0, 10):
            for pos in [None] + list(range(0, n + 1)):
                for tail in ('', ':', '::', ':1.2.3.4', '1.2.3.4'):
                    ps = [str(i + 1) for i in range(n)]
                    if pos is None: t = ':'.join(ps)
                    else: t = ':'.join(ps[:pos]) + '::' + ':'.join(ps[pos:])
                    shapes.append(t + tail)
        if k >= len(shapes): return False
        self.emit('ipv6 %s' % U(units(shapes[k], 8)))
        return True
    def s_url_pfx(self, k):
        """C04 / C01: EVERY prefix of key URL strings, without a base and against bases of the same scheme, in exactly sized
        unterminated buffers: each look-ahead of each parser state is taken at the very end of the input"""
        keys = ['http://u:p@h:81/a/../b?q#f', 'http:/x', 'http:\\\\h\\p', 'file:///C:/x/../y', 'file://h/C|/..', 'file:C|/x', 'non-spec://h:1/p/./q', 'non-spec:/.//p', '//h:8/p', '/\\h',
                '?q#f', 'C|/x', '..//x', 'ws://[1::2]:80/', 'https://h:443', 'blob:http://h/x', '%2e%2E/%2e/x', 'http://%C3%A4%zz/', 'http://0x7f.1.', 'a:b  ']
        bases = ['-', 't8:' + U(units('http://example.org/foo/bar', 8)), 't8:' + U(units('file:///C:/dir/file', 8)), 't8:' + U(units('non-spec://h/a/b', 8)), 't8:' + U(units('https://h/', 8))]
        tot = 0
        for key in keys:
            n = (len(key) + 1) * len(bases)
            if k < tot + n:
                j = k - tot
                p = key[:j // len(bases)]; b = bases[j % len(bases)]
                e = (8, 16, 32)[(k + self.seed) % 3]
                self.emit('case')
                for _ in range(3): self.emit('parse 0 %d %s %s' % (e, U(units(p, e)), b))   # three consecutive argument forms
                return True
            tot += n
        return False
    def s_enc_exh(self, k):
        """C10: all byte strings of length <= 3 over a 20-byte alphabet covering every lead/trail class"""
        alpha = [0x41, 0x7F, 0x80, 0x8F, 0x90, 0x9F, 0xA0, 0xBF, 0xC1, 0xC2, 0xDF, 0xE0, 0xE1, 0xED, 0xEF, 0xF0, 0xF1, 0xF4, 0xF5, 0xFF]
        n = len(alpha)
        if k < n: b = [alpha[k]]
        elif k < n + n * n: k -= n; b = [alpha[k // n], alpha[k % n]]
        elif k < n + n * n + n ** 3: k -= n + n * n; b = [alpha[k // (n * n)], alpha[k // n % n], alpha[k % n]]
        else: return False
        self.emit('utf 8 %s' % U(b))
        return True

    def ipv4num(self):
        """one IPv4 number: boundary and wrapping values, in every radix, zero-padded after the prefix (the padding makes the
        text longer than any digit-count limit while the value stays in range)"""
        v = self.pick([0, 1, 7, 8, 9, 127, 255, 256, 65535, 65536, 2**24 - 1, 2**24, 2**32 - 1, 2**32, 2**32 + 1, 2**64 - 1, 2**64, 2**64 + 1, self.r.randrange(2**32)] + WRAPV)
        f = self.pick(['%d', '0x%x', '0X%X', '0%o'])
        z = '0' * self.pick([0, 0, 0, 1, 2, 5, 9, 10, 11, 12, 14, 15, 16, 20])
        t = f % v
        if f.startswith('0x') or f.startswith('0X'): return t[:2] + z + t[2:]
        return (z + t) if f != '%d' else t
    def s_buf(self):
        """C04 / C18 / C20: upa::simple_buffer<char, N> histories for every inline capacity the library's tests use, and the
        string view of the configuration; lengths straddle N, 16 (the minimum heap capacity) and the powers of two"""
        self.stat('case:buf')
        if self.r.randrange(4) == 0:
            al = [0x00, 0x61, 0x62, 0x7f, 0x80, 0xff, 0x41]
            a = [self.pick(al) for _ in range(self.r.randrange(0, 6))]
            b = list(a) if self.r.randrange(3) == 0 else [self.pick(al) for _ in range(self.r.randrange(0, 6))]
            if a and self.r.randrange(3) == 0: b = a[:self.r.randrange(len(a) + 1)] + ([self.pick(al)] if self.r.randrange(2) else [])
            self.emit('sv %s %s %d' % (U(a), U(b), self.pick([0, 1, 2, 3, 5, 9])))
            return
        n = self.pick([0, 1, 2, 4, 16, 1024])
        ops = []
        if self.r.randrange(4) == 0: ops.append('i%d' % self.pick([0, 1, n, n + 1, 3, 17, 100, 1025, 2049]))
        for _ in range(self.r.randrange(1, 14)):
            o = self.pick(['p', 'p', 'p', 'a', 'a', 'a', 'r', 'v', 'c', 'k', 'k'])
            if o == 'p': ops.append('p%02x' % self.r.randrange(256))
            elif o == 'a': ops.append('a' + ''.join('%02x' % self.r.randrange(256) for _ in range(self.pick([0, 1, 2, 3, 5, 15, 16, 17, 31, 33, 64, 65, n, n + 1, 1023 if n == 1024 else 7, 1025 if n == 1024 else 9]))))
            elif o == 'r': ops.append('r%d' % self.pick([0, 1, 2, 3, n, n + 1, 16, 17, 40, 1024, 1025, 2050]))
            elif o == 'v': ops.append('v%d' % self.pick([0, 1, n, n + 1, 16, 33, 100, 1025, 4097]))
            else: ops.append(o)
        self.emit('buf %d %s' % (n, ';'.join(ops)))
    def s_ipv4(self):
        self.stat('case:ipv4')
        x = self.r.randrange(100)
        if x < 40: s = self.pick(IPV4)
        elif x < 60: s = self.mutate(self.pick(IPV4))
        elif x < 85:
            s = '.'.join(self.ipv4num() for _ in range(self.r.choice([1, 2, 3, 4, 4, 5, 6, 7, 8, 12]))) + self.pick(['', '', '.', '..'])
        else:
            s = ''.join(self.pick('0178 9afxX.g-'.replace(' ', '')) for _ in range(self.r.randrange(0, 14)))
        if s and self.r.randrange(8) == 0:
            i = self.r.randrange(len(s)); s = s[:i] + alias(s[i], self.pick(ALIAS_OFFSETS)) + s[i+1:]
        self.emit('ipv4 %s' % U(units(s, 32)))
        self.emit('ends %s' % U(units(s, 32)))
    def s_ipv4_exh(self, k, maxlen):
        alpha = '0179afxX.g-8'
        n = len(alpha); tot = 0
        for L in range(0, maxlen + 1):
            if k < tot + n ** L:
                k -= tot
                s = ''.join(alpha[k // (n ** i) % n] for i in range(L))
                self.emit('ipv4 %s' % U(units(s, 8))); self.emit('ends %s' % U(units(s, 8)))
                return True
            tot += n ** L
        return False
    def s_ipv4ser(self):
        v = self.pick([0, 1, 255, 256, 65535, 65536, 2**24 - 1, 2**24, 2**32 - 1, 0x7f000001, self.r.randrange(2**32), self.r.randrange(2**32)])
        self.emit('ipv4ser %d' % v)
        # round trip through the parser
        self.emit('ipv4 %s' % U(units('%d.%d.%d.%d' % (v >> 24, (v >> 16) & 255, (v >> 8) & 255, v & 255), 8)))

    def s_ipv6(self):
        self.stat('case:ipv6')
        x = self.r.randrange(100)
        if x < 35: s = self.pick(IPV6)[1:-1] if self.pick(IPV6).endswith(']') else self.pick(IPV6)[1:]
        elif x < 55: s = self.mutate(self.pick(IPV6).strip('[]'))
        elif x < 85:
            n = self.r.randrange(1, 10)
            ps = [self.pick(['0', '1', 'f', 'ffff', '00', '0001', 'AbC', '12345', 'g', '', '10', 'dead']) for _ in range(n)]
            s = ':'.join(ps)
            if self.r.randrange(3) == 0:
                i = self.r.randrange(len(s) + 1); s = s[:i] + '::' + s[i:]
            if self.r.randrange(4) == 0: s += self.pick([':1.2.3.4', '.1', ':1.2.3', ':256.0.0.1', ':01.2.3.4', ':1.2.3.4.5', ':1.2.3.4:'])
        elif x < 88 and self.r.randrange(2):
            # LONG literals: full-width (zero-padded 4-digit) pieces with an embedded IPv4 tail of 3-digit parts — up to the
            # 45 characters a valid literal can have — with and without compression, and one piece / part too many
            np = self.pick([6, 6, 6, 5, 4, 7, 2])
            ps = [self.pick(['0000', 'ffff', '00ab', 'FFFF', '0001', 'abcd']) for _ in range(np)]
            tail = '.'.join(self.pick(['255', '100', '192', '168', '000', '256', '25', '1']) for _ in range(self.pick([4, 4, 4, 3, 5])))
            s = ':'.join(ps) + ':' + tail
            if np < 6 or self.r.randrange(4) == 0:
                i = self.r.randrange(np + 1); s = ':'.join(ps[:i]) + '::' + ':'.join(ps[i:]) + (':' if i < np else '') + tail
            if self.r.randrange(6) == 0: s = ':'.join(self.pick(['0000', 'ffff', '00ab']) for _ in range(self.pick([8, 8, 7, 9])))
            self.stat('ipv6:long')
        elif x < 92:
            # a number that wraps: as a part of the embedded IPv4 address (any position) or as a hex piece
            w = self.pick(WRAPV)
            if self.r.randrange(3):
                parts = ['1', '2', '3', '4']; parts[self.r.randrange(4)] = str(w)
                s = self.pick(['::', '::ffff:', '1:2:3:4:5:6:', '1::']) + '.'.join(parts)
            else:
                s = self.pick(['::%x', '1:%x::', '%x::1', '1:2:3:4:5:6:7:%x']) % w
        else:
            # (with the neighbours of the hex-digit classes under case folding and bit masks: C0 controls that `| 0x20` maps
            # onto digits, the characters just outside 0-9 / A-F / a-f)
            s = ''.join(self.pick(['0', '1', 'f', ':', '.', 'g', '0', '1', 'f', ':', ':', '\x11', '\x19', '\x10', '/', '@', 'G', '`', 'F', 'A', '\x01', '!']) for _ in range(self.r.randrange(0, 12)))
        if s and self.r.randrange(8) == 0:
            i = self.r.randrange(len(s)); s = s[:i] + alias(s[i], self.pick(ALIAS_OFFSETS)) + s[i+1:]
        self.emit('ipv6 %s' % U(units(s, 32)))
    def s_ipv6_exh(self, k, maxlen):
        alpha = '01f:.g'
        n = len(alpha); tot = 0
        for L in range(0, maxlen + 1):
            if k < tot + n ** L:
                k -= tot
                s = ''.join(alpha[k // (n ** i) % n] for i in range(L))
                self.emit('ipv6 %s' % U(units(s, 8)))
                return True
            tot += n ** L
        return False
    def s_ipv6ser(self, k=None):
        if k is not None:
            # all 2^8 zero / non-zero patterns x digit-length classes
            cls = [1, 0x10, 0x100, 0x1000, 0xffff]
            a = [(cls[(k >> 8) % 5] if (k >> i) & 1 else 0) for i in range(8)]
        else:
            a = [self.pick([0, 0, 0, 1, 0xf, 0x10, 0xff, 0x100, 0xfff, 0x1000, 0xffff, self.r.randrange(65536)]) for _ in range(8)]
        self.emit('ipv6ser %s' % U(a))

    def s_pct(self):
        self.stat('case:pct')
        e = self.enc(60)
        x = self.r.randrange(100)
        if x < 6:
            # a user-built no-encode set: every way to give the range (empty, one element, up to 0xFF, reversed)
            lo, hi = self.pick([(0x21, 0x7e), (0x21, 0xff), (0x00, 0xff), (0x80, 0xff), (0x41, 0x41), (0x7f, 0x21), (0xff, 0xff), (0x00, 0x00), (self.r.randrange(256), self.r.randrange(256))])
            t = ''.join(self.pick(['a', 'Z', ' ', '%', '~', '\x00', '\x7f', '\u00e9', '\u00ff', '!', '/']) for _ in range(self.r.randrange(0, 8)))
            self.emit('pencset %x %x %x %s' % (lo, hi, self.pick([0x25, 0x41, 0xff, 0x00]), self.arg(t, e)))
        elif x < 11:
            # LONG runs: escape runs and multi-byte text longer than any internal block / buffer size (64, 128, 256, 1024),
            # shifted by 0..3 bytes so that a multi-byte sequence straddles every such boundary
            self.stat('pct:long')
            mb = self.pick(['%E2%82%AC', '%C3%A9', '%F0%9F%92%A9', '%E4%BD%A0', '\u20ac', '\U0001f4a9', '\u00e9'])
            pre = ''.join(self.pick(['%20', '%41', 'a', '%C3%A9', '%7F']) for _ in range(self.r.randrange(0, 4)))
            n = self.pick([22, 43, 44, 64, 65, 86, 128, 130, 257, 342, 400])
            t = pre + mb * n + self.pick(['', '%', '%E2%82', 'z'])
            if self.r.randrange(3): self.emit('pdec %s' % self.arg(t, e))
            else: self.emit('penc %s %s' % (self.pick(['fragment', 'query', 'path', 'component']), self.arg(t, e)))
        elif x < 40:
            t = ''.join(self.pick(['a', ' ', '%', '/', '?', '#', "'", '"', '<', '`', '{', '|', '\\', '^', ':', '@', '=', '&', '+', '$', ',', ';', '[', ']', '~', '!', '(', '*', '\x00', '\x1f', '\x7f'] + BOUNDARY) for _ in range(self.r.randrange(0, 8)))
            self.emit('penc %s %s' % (self.pick(['fragment', 'query', 'squery', 'path', 'rawpath', 'posixpath', 'userinfo', 'component']), self.arg(t, e)))
        else:
            alpha = ['%', '4', '1', 'C', '3', 'A', '9', 'E', '2', '8', 'z', 'g', 'F', '0', 'f', 'c', '%\x11\x12', '%\x10\x19', '%1\x11', '%/:', '%@G', '%`g', '%\x01\x06', '%!&', '\u0134', '\u0131', '\u0141', '\u0161', '\uff41', '\U0001f431', '%\u0134\u0131', '%4\u0131', '\u00e9', 'a', '\U0001f4a9', '%C3%A9', '%E2%82%AC', '%F0%9F%92%A9', '%FF', '%80', '%C3', '%E2%82', '%', '%4', '%zz', '%C3%zz', '%C3%', '%41', '%00', '%7F', '%c3%a9']
            t = ''.join(self.pick(alpha) for _ in range(self.r.randrange(0, 8)))
            self.emit('pdec %s' % self.arg(t, e))
    def s_pct_exh(self, k):
        if k < 256:
            self.emit('pdec 8 %s' % U(units('%%%02X' % k, 8))); return True
        k -= 256
        alpha = ['%', '4', '1', 'C', '3', 'A', '9', 'E', '2', '8', 'z', '\u00e9']
        n = len(alpha); tot = 0
        for L in range(0, 5):
            if k < tot + n ** L:
                k -= tot
                s = ''.join(alpha[k // (n ** i) % n] for i in range(L))
                self.emit('pdec 8 %s' % U(units(s, 8)))
                return True
            tot += n ** L
        return False

    def s_file(self):
        """C17: both formats, four encodings, round trips"""
        self.emit('case')
        self.stat('case:file')
        x = self.r.randrange(100)
        segs = ['a', 'b c', '.', '..', '...', '%', '%41', '?', '#', ':', '|', '\\', 'C:', 'C|', '\u00e4', '\U0001f600', '\x01', '\x7f', '\x00', '', 'x.y', '..x', 'x..', ' ', '\t', 'a\nb', '~', '^', '{}', '`', "'", '"', '<>', ';', '=', '&', '+', '$', ',', '@', '[', ']', '!', '*', '(', ')']
        if x < 8:
            # char paths with ILL-FORMED UTF-8 segments: overlong spellings of the characters the conversion must not let
            # through ('.', '/', NUL, '\\', ':', '|', '%', '?', '#'), lone leads and trails, truncated sequences — the raw-byte
            # checks see bytes >= 0x80 only; what the encoder makes of them must not become a delimiter or a dot segment
            def over2(c): return [0xC0 | (c >> 6), 0x80 | (c & 0x3F)]
            def over3(c): return [0xE0, 0x80 | (c >> 6), 0x80 | (c & 0x3F)]
            frag = [over2(0x2E) * 2, over2(0x2E), over2(0x2F), over2(0x00), over2(0x5C), over2(0x3A), over2(0x7C), over2(0x25), over2(0x3F), over2(0x23),
                    over3(0x2E) * 2, over3(0x2F), over3(0x5C), [0xC1, 0x9C], [0xC1, 0xBF], [0xC0], [0xC1], [0xC0, 0x2E], [0x2E, 0xC0, 0xAE]] + BAD8
            fmt = self.pick(['posix', 'windows'])
            sep = [0x2F] if fmt == 'posix' else self.pick([[0x5C], [0x2F]])
            b = list(sep) if fmt == 'posix' else units(self.pick(['C:\\', '\\\\srv\\share\\', 'c:/', '\\\\?\\C:\\']), 8)
            for i in range(self.r.randrange(1, 4)):
                seg = []
                for _ in range(self.r.randrange(1, 3)): seg += self.pick(frag) if self.r.randrange(4) else units(self.pick(['a', 'x', '..', '.', 'etc']), 8)
                b += (sep if i else []) + seg
            if self.r.randrange(2): b += sep + units('etc', 8)
            self.emit('%s %s 8 %s' % (self.pick(['frompath', 'frompath', 'rt']), fmt, U(b)))
            self.stat('file:illformed-bytes')
        elif x < 30:
            p = '/' + '/'.join(self.pick(segs) for _ in range(self.r.randrange(0, 5)))
            if self.r.randrange(8) == 0: p = p[1:]
            if self.r.randrange(6) == 0: p = p[:self.r.randrange(0, len(p) + 1)]
            self.emit('frompath posix %s' % self.arg(p))
            self.stat('file:posix')
        elif x < 60:
            pre = self.pick(['C:\\', 'c:/', 'C|\\', 'C:', '\\\\host\\share\\', '\\\\host\\share', '//host/share/', '\\\\?\\C:\\', '\\\\.\\C:\\', '\\\\?\\UNC\\host\\share\\', '\\\\?\\unc\\h\\s\\', '\\\\.\\UNC\\h\\s', '\\\\?\\', '\\\\.\\', '\\\\?\\x', '\\\\h', '\\\\h\\', '\\\\h\\.', '\\\\h\\..', '\\\\.\\s', '\\\\?\\s\\x', '\\\\C:\\s\\x', '\\\\h\x00\\s', '\\\\h\\s\x00', '\\', 'C', '1:\\', '\\\\\\h\\s'])
            p = pre + self.pick(['\\', '/'] ).join(self.pick(segs) for _ in range(self.r.randrange(0, 4)))
            # every prefix of a path is a path: the scanner's look-ahead at the very end of the (unterminated,
            # exactly sized) buffer
            if self.r.randrange(4) == 0: p = p[:self.r.randrange(0, len(p) + 1)]
            self.emit('frompath windows %s' % self.arg(p))
            self.stat('file:windows')
        else:
            host = self.pick(['', '', '', 'host', 'h', '.', 'localhost', '1.2.3.4', '[::1]', '%2E', 'C:', '..'])
            body = self.pick(['/', '/a/b', '/C:/x', '/C|/x', '/c:', '/C:', '/C:x', '/C:x/y', '/c:%5Cx', '/C:.', '/a%7C/x', '/C%3A/x', '//h/s/x', '///h/s', '////h/s', '/a%00b', '/a%2Fb', '/a%5Cb', '/%2e%2e/x', '/..%2Fx', '/a b', '/%C3%A4', '/%FF', '/?', '//./x', '//?/x', '//h/./x', '//h/../x', '/%3F', '//%2E/s', '///./s', '/a/./b', '/x/', '//', '/C:/a/../..', '/%5C%5Ch%5Cs'])
            self.emit('parse 0 %s -' % self.arg('file://' + host + body))
            self.emit('topath %s 0' % self.pick(['posix', 'windows']))
            self.emit('topath %s 0' % self.pick(['posix', 'windows']))
            self.stat('file:topath')
            if self.r.randrange(3) == 0:
                self.emit('set 0 protocol %s' % self.arg('http'))
                self.emit('topath %s 0' % self.pick(['posix', 'windows']))
            return
        # round trip: the URL just produced back to a path (slot-less op keeps it simple: parse into slot 0)
        # (frompath prints the URL; topath needs a slot, so repeat through parse of the href on the model side is not
        # possible here; the dedicated round-trip stream below covers it)

    def s_file_pfx(self, k):
        """C04 / C17: EVERY prefix of key path strings, both formats: each look-ahead of the path scanners is taken at
        the very end of an exactly sized, unterminated buffer"""
        keys = ['\\\\?\\UNC\\host\\share\\x', '\\\\.\\unc\\h\\s', '//?/UNC/h/s/', '\\\\?\\C:\\dir\\..\\x', '\\\\.\\c|\\x', '\\\\host\\share\\a\\..\\b',
                '//host/share/..', 'C:\\dir\\.\\..\\x y', 'c|/a/../..', '\\\\localhost\\C:\\x', '\\\\h\\s\\%41%', '/usr/../lib/./x%2', '/a/..', '/..', '/%2e%2E/', '\\\\?\\', '\\\\?\\UNC\\', '\\\\?\\UNC\\h', '\\\\?\\UNC\\h\\', 'C:\\..', 'c|/..', '\\\\?\\C:\\..', '\\\\h\\s\\..', 'C:\\.', 'C:\\...', 'C:\\..x', '\\\\?\\UXC\\h\\s', '\\\\?\\UNX\\h\\s', '\\\\.\\uNcx\\h\\s', '\\\\?\\XNC\\h\\s']
        tot = 0
        for key in keys:
            n = len(key) + 1
            if k < tot + 2 * n:
                j = k - tot
                p = key[:j % n]
                fmt = 'windows' if j < n else 'posix'
                e = (8, 16, 32)[(k + self.seed) % 3]
                # three consecutive lines = three consecutive argument forms of the harness: at least one of them is an
                # unterminated, exactly sized buffer whatever the line alignment
                for _ in range(3): self.emit('frompath %s %d %s' % (fmt, e, U(units(p, e))))
                return True
            tot += 2 * n
        return False
    def s_file_rt(self):
        """C17 round trip: path -> URL (through the href setter) -> path -> URL -> path"""
        self.emit('case')
        self.stat('case:filert')
        fmt = self.pick(['posix', 'windows'])
        segs = ['a', 'b c', '...', '%', '%41', '?', '#', ':', '|', 'C:', '\u00e4', '\U0001f600', '\x01', '\x7f', 'x.y', '..x', ' ', '~', '^', '{}', "'", ';', '&', '+', '.']
        if fmt == 'posix':
            p = '/' + '/'.join(self.pick(segs + ['\\']) for _ in range(self.r.randrange(0, 5)))
        else:
            pre = self.pick(['C:\\', 'c:/', 'C|\\', 'z:\\', '\\\\host\\share\\', '//host/share/', '\\\\?\\C:\\', '\\\\?\\UNC\\host\\share\\', '\\\\localhost\\share\\', '\\\\LOCALHOST\\s\\', '\\\\localhost\\C:\\', '\\\\host\\C|\\', '\\\\..\\share\\', '\\\\1.2.3.4\\s\\', '\\\\b\u00fccher\\s\\', '\\\\\u3002\\s\\', '\\\\\uff0e\\share\\', '\\\\\uff61\\s\\', '\\\\?\\UNC\\\u3002\\s\\', '\\\\\u3002\u3002\\s\\', '\\\\loc\u00adalhost\\s\\', '\\\\a{b\\s\\', '\\\\a"b`c}\\share\\', '\\\\h%41\\s\\', '\\\\ho st\\s\\'])
            p = pre + self.pick(['\\', '/']).join(self.pick(segs) for _ in range(self.r.randrange(0, 4)))
        self.emit('rt %s %s' % (fmt, self.arg(p)))

    def s_member(self, k):
        """C13: every table through the public lookups; wide values"""
        sets = ['fragment', 'query', 'squery', 'path', 'rawpath', 'posixpath', 'userinfo', 'component', 'fhost', 'fdomain', 'hex', 'ipv4char', 'scheme', 'asciidomain', 'digit', 'alpha', 'encbyte']
        wide = list(range(256)) + [0x100, 0x101, 0x120, 0x141, 0x17F, 0x1FF, 0x200, 0x2020, 0x3041, 0xFF21, 0xFFFF, 0x10000, 0x10041, 0x10FFFF, 0x110000, 0x7FFFFFFF, 0x80000000, 0xFFFFFF41, 0xFFFFFFFF]
        tot = len(sets) * len(wide)
        if k >= tot: return False
        s = sets[k // len(wide)]; c = wide[k % len(wide)]
        if s == 'encbyte' and c > 255: self.emit('member digit %x' % c)
        else: self.emit('member %s %x' % (s, c))
        return True

    def s_size(self):
        """C04: lengths straddling the inline buffers, overlong hosts / ports / part lists, embedded NULs"""
        self.emit('case')
        self.stat('case:size')
        n = self.pick([1023, 1024, 1025, 2047, 2048, 2049, 4097])
        e = self.pick([8, 16, 32])
        x = self.r.randrange(12)
        if x == 0: t = 'http://' + 'a' * n + '/'
        elif x == 1: t = 'http://' + '\u00e4' * n + '.de/'
        elif x == 2: t = 'http://h/' + 'a/' * n
        elif x == 3: t = 'http://h:' + '0' * n + '80/'
        elif x == 4: t = 'http://' + '1.' * n
        elif x == 5: t = 'http://[' + '1:' * n + ']'
        elif x == 6: t = 'http://h/?' + '\U0001f600' * n
        elif x == 7: t = 'http://' + '9' * n
        elif x == 8: t = 'a:' + ' ' * n + '#'
        elif x == 9: t = 'http://h/' + '\t' * n + 'x' + '\x00' * 3
        elif x == 10: t = 'http://' + 'xn--' + 'a' * n + '/'
        else: t = 'http://' + ('a' * 63 + '.') * (n // 64) + 'com/'
        self.emit('parse 0 %s -' % self.arg(t, e))
        if self.r.randrange(2): self.emit('set 0 %s %s' % (self.pick(['host', 'pathname', 'search', 'hash', 'username']), self.arg(self.pick(['a', '\u00e4', '%41', '/x']) * n, e)))
        if self.r.randrange(4) == 0: self.emit('pdec %s' % self.arg('%C3%A9' * n, e))
        if self.r.randrange(4) == 0: self.emit('host %s' % self.arg(('\u00e4' * 60 + '.') * (n // 61), e))

STREAMS = {'buf': lambda g: g.s_buf(), 
    'url': Gen.s_url, 'set': Gen.s_set, 'obj': Gen.s_obj, 'psp': Gen.s_psp, 'form': Gen.s_form, 'host': Gen.s_host,
    'enc': Gen.s_enc, 'encraw': Gen.s_encraw, 'ipv4': Gen.s_ipv4, 'ipv4ser': Gen.s_ipv4ser, 'ipv6': Gen.s_ipv6, 'ipv6ser': Gen.s_ipv6ser,
    'pct': Gen.s_pct, 'file': Gen.s_file, 'filert': Gen.s_file_rt, 'size': Gen.s_size,
}
EXH = {
    'hostascii': lambda g, k, a: g.s_hostascii(k), 'encexh': lambda g, k, a: g.s_enc_exh(k),
    'ipv4exh': lambda g, k, a: g.s_ipv4_exh(k, a or 4), 'ipv6exh': lambda g, k, a: g.s_ipv6_exh(k, a or 5),
    'pctexh': lambda g, k, a: g.s_pct_exh(k), 'member': lambda g, k, a: g.s_member(k), 'setexh': lambda g, k, a: g.s_set_exh(k, a),
    'wpt': lambda g, k, a: g.s_wpt(k), 'wptset': lambda g, k, a: g.s_wptset(k), 'wptform': lambda g, k, a: g.s_wptform(k), 'filepfx': lambda g, k, a: g.s_file_pfx(k), 'aliasexh': lambda g, k, a: g.s_alias_exh(k), 'ipv6shape': lambda g, k, a: g.s_ipv6_shape(k), 'urlpfx': lambda g, k, a: g.s_url_pfx(k),
    'ipv6serexh': lambda g, k, a: (g.s_ipv6ser(k), k < 256 * 5 - 1)[1],
}

def generate(streams, n, seed, corpus=None):
    """streams: list of 'name' or 'name:count' or exhaustive 'name!arg'"""
    g = Gen(seed)
    if corpus:
        for line in corpus: g.emit(line)
    for spec in streams:
        if '!' in spec or spec in EXH:
            name, _, a = spec.partition('!')
            a = int(a) if a else None
            g.emit('case')
            k = 0
            while EXH[name](g, k, a): k += 1
            g.stats['exh:' + name] = k
            continue
        name, _, c = spec.partition(':')
        cnt = int(c) if c else n
        for _ in range(cnt): STREAMS[name](g)
    return g

if __name__ == '__main__':
    ap = argparse.ArgumentParser()
    ap.add_argument('--streams', required=True)
    ap.add_argument('--n', type=int, default=1000)
    ap.add_argument('--seed', type=int, default=1)
    a = ap.parse_args()
    g = generate(a.streams.split(','), a.n, a.seed)
    sys.stdout.write('\n'.join(g.lines) + '\n')
    sys.stderr.write(repr(sorted(g.stats.items())) + '\n')
