#!/usr/bin/env python3
"""development helper: automated single-token mutation sweep of the library against the OPERATION FILES the checks generate.
Not a check and not evidence: it measures how much of a random sample of small source edits the correspondence streams
can see at all, and lists the survivors for inspection (equivalent edit? assertion-only? generator gap?).

For every sampled mutant: scratch copy of include/ + src/ (never /repo), one edit, plain -O1 build of harness/driver.cpp (no
sanitizers: first pass), the union of the quick streams of all properties (seed 1), transcript compared with the transcript of
the unchanged tree.  killed = differs / crashes / does not terminate / does not compile (counted separately).
usage: mutsweep.py [-n N] [-j J] [--seed S] [--files url.h,...] [--out doc/mutsweep.json]"""
import argparse, concurrent.futures, hashlib, json, os, random, re, shutil, subprocess, sys, tempfile, time
sys.path.insert(0, os.path.dirname(os.path.abspath(__file__)))
import common as C, props as P, gencases

OPS = [  # (name, regex, replacement)
    ('lt->le', r' < ', ' <= '), ('le->lt', r' <= ', ' < '), ('gt->ge', r' > ', ' >= '), ('ge->gt', r' >= ', ' > '),
    ('eq->ne', r' == ', ' != '), ('ne->eq', r' != ', ' == '), ('and->or', r' && ', ' || '), ('or->and', r' \|\| ', ' && '),
    ('plus1->plus0', r' \+ 1\b', ' + 0'), ('minus1->minus0', r' - 1\b', ' - 0'), ('plus1->plus2', r' \+ 1\b', ' + 2'),
    ('not-removed', r'\(!(?=[a-zA-Z_(])', '('), ('true->false', r'\btrue\b', 'false'), ('false->true', r'\bfalse\b', 'true'),
    ('inc->dec', r'\+\+(?=[a-zA-Z_])', '--'), ('num+1', None, None), ('stmt-deleted', None, None),
]

def candidates(path, rel):
    out = []
    lines = open(path, errors='replace').read().split('\n')
    in_block = False
    for i, l in enumerate(lines):
        s = l.strip()
        if in_block:
            if '*/' in s: in_block = False
            continue
        if s.startswith('/*') and '*/' not in s: in_block = True; continue
        if not s or s.startswith('//') or s.startswith('#') or s.startswith('*') or 'assert(' in s or 'static_assert' in s or s.startswith('template') or s.startswith('using ') or s.startswith('typedef'): continue
        code = l.split('//')[0]
        for (name, rx, rep) in OPS:
            if rx is None: continue
            for m in re.finditer(rx, code):
                out.append((rel, i, name, m.start(), m.end(), rep))
        for m in re.finditer(r'(?<![\w.])(0x[0-9a-fA-F]+|\d+)(?![\w.])', code):
            v = m.group(1)
            try: n = int(v, 0)
            except ValueError: continue
            nv = ('0x%X' % (n + 1)) if v.lower().startswith('0x') else str(n + 1)
            out.append((rel, i, 'num+1', m.start(), m.end(), nv))
        if re.match(r'^\s+[a-zA-Z_][\w.\->\[\]:]*(\(.*\))?\s*(=|\+=|-=|\|=|&=)[^=].*;\s*$', code) or re.match(r'^\s+(\+\+|--)?[a-zA-Z_][\w.\->\[\]]*(\+\+|--)?;\s*$', code) or re.match(r'^\s+[a-zA-Z_][\w.\->:]*\([^;]*\);\s*$', code):
            if not re.match(r'^\s*(return|const|auto|int|bool|std::|static|char|unsigned|size_t|uint)', code):
                out.append((rel, i, 'stmt-deleted', 0, len(l), ''))
    return out, lines

def build(srcdir, outdir, kind):
    inc = os.path.join(srcdir, 'include'); src = os.path.join(srcdir, 'src')
    flags = ['-std=c++20', '-DUPA_VERIF_HOOKS', '-I' + inc, '-w']
    if kind == 'asan': flags += ['-fsanitize=address,undefined', '-fno-sanitize-recover=all', '-g1']
    procs = [subprocess.Popen(['g++'] + flags + ['-O1', '-c', os.path.join(src, f), '-o', os.path.join(outdir, f + '.o')], stdout=subprocess.DEVNULL, stderr=subprocess.DEVNULL) for f in C.LIB_SRCS]
    procs.append(subprocess.Popen(['g++'] + flags + ['-O1' if kind == 'plain' else '-O0', '-c', os.path.join(C.VERIF, 'harness', 'driver.cpp'), '-o', os.path.join(outdir, 'harness.o')], stdout=subprocess.DEVNULL, stderr=subprocess.DEVNULL))
    if any(p.wait() != 0 for p in procs): return None
    exe = os.path.join(outdir, 'harness')
    r = subprocess.run(['g++'] + flags + [os.path.join(outdir, f + '.o') for f in C.LIB_SRCS] + [os.path.join(outdir, 'harness.o'), '-licuuc', '-licudata', '-lpthread', '-o', exe], stdout=subprocess.DEVNULL, stderr=subprocess.DEVNULL)
    return exe if r.returncode == 0 else None

def run(exe, opsfile, timeout):
    try:
        with open(opsfile) as f:
            p = subprocess.run([exe], stdin=f, stdout=subprocess.PIPE, stderr=subprocess.DEVNULL, timeout=timeout)
        return p.returncode, hashlib.sha256(p.stdout).hexdigest(), p.stdout
    except subprocess.TimeoutExpired:
        return 'timeout', '', b''

def main():
    ap = argparse.ArgumentParser()
    ap.add_argument('-n', type=int, default=200); ap.add_argument('-j', type=int, default=4); ap.add_argument('--seed', type=int, default=1)
    ap.add_argument('--files', default='include/upa/url.h,include/upa/url_host.h,include/upa/url_ip.h,include/upa/url_percent_encode.h,include/upa/url_search_params.h,include/upa/url_search_params-inl.h,include/upa/url_utf.h,include/upa/util.h,include/upa/buffer.h,src/url_ip.cpp,src/url_utf.cpp,src/url_percent_encode.cpp,src/url_search_params.cpp,src/url.cpp')
    ap.add_argument('--out', default=os.path.join(C.VERIF, 'doc', 'mutsweep.json'))
    ap.add_argument('--kind', default='plain')
    ap.add_argument('--scale', type=int, default=1, help='divide the stream counts by this')
    a = ap.parse_args()
    work = tempfile.mkdtemp(prefix='upa_sweep.')
    try:
        # operation file: union of the quick streams of every property
        lines = []
        seen = set()
        for pid in sorted(P.PROPS):
            for st in P.PROPS[pid]['streams']['quick']:
                if a.scale > 1 and ':' in st:
                    n, c = st.split(':'); st = '%s:%d' % (n, max(50, int(c) // a.scale))
                if st in seen: continue
                seen.add(st)
                lines += gencases.generate([st], 0, a.seed, []).lines
        opsfile = os.path.join(work, 'ops.txt')
        open(opsfile, 'w').write('\n'.join(lines) + '\n')
        print('operations:', len(lines), flush=True)
        base = os.path.join(work, 'base'); os.makedirs(base)
        for sub in ('include', 'src'): shutil.copytree(os.path.join(C.REPO, sub), os.path.join(base, sub))
        os.makedirs(os.path.join(base, 'out'))
        exe = build(base, os.path.join(base, 'out'), a.kind)
        t0 = time.time(); rc0, h0, out0 = run(exe, opsfile, 3000); dt = time.time() - t0
        print('baseline: rc=%s %.0fs' % (rc0, dt), flush=True)
        base_lines = out0.split(b'\n')
        cands = []
        texts = {}
        for rel in a.files.split(','):
            cs, ls = candidates(os.path.join(C.REPO, rel), rel)
            cands += cs; texts[rel] = ls
        rnd = random.Random(a.seed)
        rnd.shuffle(cands)
        sample = cands[:a.n]
        print('candidates:', len(cands), 'sample:', len(sample), flush=True)
        results = []
        def one(k):
            rel, i, name, s, e, rep = sample[k]
            d = os.path.join(work, 'm%d' % k)
            try:
                os.makedirs(d)
                for sub in ('include', 'src'): shutil.copytree(os.path.join(C.REPO, sub), os.path.join(d, sub))
                ls = list(texts[rel]); old = ls[i]
                ls[i] = old[:s] + rep + old[e:]
                open(os.path.join(d, rel), 'w').write('\n'.join(ls))
                os.makedirs(os.path.join(d, 'out'))
                ex = build(d, os.path.join(d, 'out'), a.kind)
                if ex is None: st = 'does-not-compile'; first = None
                else:
                    rc, h, out = run(ex, opsfile, max(120, dt * 4))
                    if rc == 'timeout': st = 'killed:timeout'; first = None
                    elif h == h0 and rc == rc0: st = 'SURVIVED'; first = None
                    else:
                        st = 'killed:' + ('crash' if rc != rc0 else 'diff')
                        ol = out.split(b'\n'); first = next((j for j in range(min(len(ol), len(base_lines))) if ol[j] != base_lines[j]), min(len(ol), len(base_lines)))
                r = {'file': rel, 'line': i + 1, 'op': name, 'old': old.strip()[:160], 'new': ls[i].strip()[:160], 'status': st}
                if first is not None and first < len(lines): r['first_differing_op'] = lines[first].split(' ')[0]
                print('%3d %-18s %s:%d %-14s | %s' % (k, st, rel.split('/')[-1], i + 1, name, old.strip()[:90]), flush=True)
                return r
            finally:
                shutil.rmtree(d, ignore_errors=True)
        with concurrent.futures.ThreadPoolExecutor(a.j) as ex: results = list(ex.map(one, range(len(sample))))
        summ = {}
        for r in results: summ[r['status']] = summ.get(r['status'], 0) + 1
        json.dump({'seed': a.seed, 'operations': len(lines), 'kind': a.kind, 'sampled': len(sample), 'of_candidates': len(cands), 'summary': summ,
                   'survivors': [r for r in results if r['status'] == 'SURVIVED'], 'all': results}, open(a.out, 'w'), indent=1)
        print('summary:', summ, '->', a.out)
    finally:
        shutil.rmtree(work, ignore_errors=True)

if __name__ == '__main__':
    main()
