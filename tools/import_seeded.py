#!/usr/bin/env python3
"""development helper: import a confirmed seeded change from its scratch worktree into seeded/<id>/
usage: import_seeded.py <id> <worktree> <property> <checks comma> "<what it needs to manifest>" """
import json, os, shutil, sys
VERIF = os.path.dirname(os.path.dirname(os.path.abspath(__file__)))
sid, wt, prop, checks, needs = sys.argv[1:6]
ORIGIN = ('written by a fresh sub-agent that saw only the property text and its own scratch worktree of /repo (nothing from /verif)' if '_r' not in sid else
          'written by a fresh sub-agent that saw the property text, its own scratch worktree of /repo, and one-line descriptions of the changes of the earlier rounds for this property (so as not to repeat them); nothing else from /verif')
d = os.path.join(VERIF, 'seeded', sid)
os.makedirs(d, exist_ok=True)
shutil.copy(os.path.join(wt, '_mutant', 'patch.confirmed.diff'), os.path.join(d, 'patch.diff'))
shutil.copy(os.path.join(wt, '_mutant', 'demo.cpp'), os.path.join(d, 'demo.cpp'))
shutil.copy(os.path.join(wt, '_mutant', 'notes.txt'), os.path.join(d, 'notes.txt'))
json.dump({'id': sid, 'property': prop, 'checks': checks.split(','), 'needs': needs,
           'origin': ORIGIN,
           'confirmed': 'tools/confirm_seeded.sh in the scratch worktree: the 14 buildable test executables pass with the change; demo.cpp exits 1 with the change and 0 without it (g++ -std=c++17 -I<wt>/include demo.cpp <wt>/src/*.cpp -licuuc -licudata)',
           'detected_by': {}}, open(os.path.join(d, 'meta.json'), 'w'), indent=1)
print('imported', d)
