#!/bin/bash
# development helper: confirms a seeded change in its scratch worktree:
#   suite passes with the change, demo fails with it and passes without it.
# usage: confirm_seeded.sh /tmp/wt_Cxx [g++ flags for the demo, default -std=c++17]
W=$1; shift
FLAGS=("$@"); [ ${#FLAGS[@]} -eq 0 ] && FLAGS=(-std=c++17)
cd "$W" || exit 2
git diff --stat -- include src | tail -3
cmake -S "$W" -B "$W/_b" -G Ninja -DCMAKE_BUILD_TYPE=RelWithDebInfo -DCMAKE_CXX_FLAGS=-Wno-error >/dev/null 2>&1
cmake --build "$W/_b" -- -k 0 >/dev/null 2>&1
echo "tests with change: $(ctest --test-dir "$W/_b" -j8 2>/dev/null | grep -c '   Passed ') passed; failed: $(ctest --test-dir "$W/_b" -j8 2>/dev/null | grep -E '^\s+[0-9]+ - ' | grep -v 'Not Run' | wc -l)"
g++ "${FLAGS[@]}" -I"$W/include" "$W/_mutant/demo.cpp" "$W"/src/*.cpp -licuuc -licudata -o "$W/_demo_with" 2>/dev/null && { "$W/_demo_with" >/dev/null 2>&1; echo "demo with change: exit $?"; }
git diff -- include src tools CMakeLists.txt > "$W/_confirm_patch.diff"; git apply -R "$W/_confirm_patch.diff"
g++ "${FLAGS[@]}" -I"$W/include" "$W/_mutant/demo.cpp" "$W"/src/*.cpp -licuuc -licudata -o "$W/_demo_without" 2>/dev/null && { "$W/_demo_without" >/dev/null 2>&1; echo "demo without change: exit $?"; }
git apply "$W/_confirm_patch.diff"
git diff -- include src tools CMakeLists.txt > "$W/_mutant/patch.confirmed.diff"
