#!/usr/bin/env python3
"""development helper: applies the acceptance mutants of doc/ACCEPTANCE-MUTANTS.md and the seeded
changes under seeded/<id>/patch.diff to SCRATCH COPIES of /repo (never to /repo itself) and runs the
checks of the properties they break, several in parallel (each with its own scratch copy of the Lean
project, because Gen/Tables.lean is regenerated per tree).  Evidence and replays of these runs go to
/tmp/mut.   usage: mutants.py [-jN] [name-substring ...]"""
import os, re, shutil, subprocess, sys, json, time, threading, concurrent.futures
VERIF = os.path.dirname(os.path.dirname(os.path.abspath(__file__)))
doc = open(os.path.join(VERIF, 'doc', 'ACCEPTANCE-MUTANTS.md')).read()
table = dict(re.findall(r'\| (m\d\d_\w+) \| ([\w/]+) \|', doc))
edits = {}
for m in re.finditer(r'### (m\d\d_\w+) — `([^`]+)`\nold:\n```cpp\n(.*?)\n```\nnew:\n```cpp\n(.*?)\n```', doc, flags=re.S):
    edits[m.group(1)] = (m.group(2), m.group(3), m.group(4))
only = [a for a in sys.argv[1:] if not a.startswith('-j')]
J = int(([a[2:] for a in sys.argv[1:] if a.startswith('-j')] or ['4'])[0])
scratch = '/tmp/mut'
os.makedirs(scratch, exist_ok=True)
results = {}
seeded = {}
sd = os.path.join(VERIF, 'seeded')
if os.path.isdir(sd):
    for n in sorted(os.listdir(sd)):
        mp = os.path.join(sd, n, 'meta.json')
        if os.path.exists(mp):
            meta = json.load(open(mp)); seeded['s_' + n] = meta; table['s_' + n] = '/'.join(meta['checks'])
# behaviour-PRESERVING refactorings (benign/<id>/): the checks must stay silent on them
bd = os.path.join(VERIF, 'benign')
if os.path.isdir(bd):
    for n in sorted(os.listdir(bd)):
        mp = os.path.join(bd, n, 'meta.json')
        if os.path.exists(mp):
            meta = json.load(open(mp)); seeded['b_' + n] = dict(meta, _dir=os.path.join(bd, n)); table['b_' + n] = '/'.join(meta['checks'])
slots = list(range(J)); slock = threading.Lock()
def lean_copy(k):
    base = '/tmp/vl/%d' % k
    os.makedirs(base, exist_ok=True)
    first = not os.path.exists(os.path.join(base, 'lean', '.lake'))
    subprocess.run(['rsync', '-a'] + ([] if first else ['--exclude', '.lake']) + [os.path.join(VERIF, 'lean') + '/', os.path.join(base, 'lean') + '/'], check=True)
    if not os.path.exists(os.path.join(base, 'build')): os.symlink(os.path.join(VERIF, 'build'), os.path.join(base, 'build'))
    return os.path.join(base, 'lean')
def one(name):
    with slock: k = slots.pop()
    try:
        _one(name, lean_copy(k))
    except Exception as e:
        print(name, 'ERROR', e, flush=True)
    finally:
        with slock: slots.append(k)
def _one(name, leandir):
    d = os.path.join(scratch, name)
    shutil.rmtree(d, ignore_errors=True)
    os.makedirs(d)
    for sub in ('include', 'src', 'tools'): shutil.copytree(os.path.join('/repo', sub), os.path.join(d, sub))
    shutil.copytree(os.path.join('/repo', 'test', 'data'), os.path.join(d, 'test', 'data'))   # conformance data the checks read
    if name in seeded:
        pdir = seeded[name].get('_dir') or os.path.join(sd, name[2:])
        r = subprocess.run(['patch', '-p1', '-s', '-d', d, '-i', os.path.join(pdir, 'patch.diff')], stdout=subprocess.PIPE, stderr=subprocess.STDOUT, text=True)
        if r.returncode != 0: print(name, 'PATCH DOES NOT APPLY', r.stdout[-300:], flush=True); shutil.rmtree(d); return
    else:
        f, old, new = edits[name]
        p = os.path.join(d, f)
        s = open(p).read()
        if s.count(old) != 1:
            print(name, 'EDIT DOES NOT APPLY (%d occurrences)' % s.count(old), flush=True); shutil.rmtree(d); return
        open(p, 'w').write(s.replace(old, new))
    for pid in table[name].split('/'):
        env = dict(os.environ, VERIF_REPO=d, VERIF_LEAN=leandir, VERIF_EVIDENCE_DIR=os.path.join(scratch, 'evidence', name), VERIF_REPLAY_DIR=os.path.join(scratch, 'replays', name))
        t = time.time()
        r = subprocess.run(['python3', os.path.join(VERIF, 'tools', 'check.py'), '--property', pid], env=env, stdout=subprocess.PIPE, stderr=subprocess.STDOUT, text=True, cwd=VERIF)
        v = [l for l in r.stdout.splitlines() if l.startswith(('VIOLATION', 'OK', 'Traceback'))]
        print('%-28s %s: %s (%.0fs)' % (name, pid, v[0][:130] if v else r.stdout[-300:], time.time() - t), flush=True)
        results.setdefault(name, {})[pid] = v[0] if v else 'ERROR'
    shutil.rmtree(d)
names = [n for n in sorted(list(edits) + list(seeded)) if not only or any(o in n for o in only)]
with concurrent.futures.ThreadPoolExecutor(J) as ex: list(ex.map(one, names))
json.dump(results, open(os.path.join(scratch, 'results.json'), 'w'), indent=1)
