// Correspondence harness: executes an operation file (one operation per line, see
// doc/MODEL-SKETCH.md §5 and lean/Driver/Main.lean) against the real library, in-process, and prints one
// canonical line per operation.  Built from /repo's CURRENT tree with -DUPA_VERIF_HOOKS (read-only
// friend access to the private representation), assertions enabled, ASan + UBSan.
//
// Besides the values the Lean models predict, every dump of a valid URL carries property predicates
// evaluated directly on the implementation (independent of any model):
//   canon=  C08 canonical-form predicate on the public getters
//   rp=     C02 reparse of href with no base and against a set of bases reproduces the object
//   lk=     C06 params list == parse(query)
#include "upa/url.h"
#include "upa/url_host.h"
#include "upa/url_ip.h"
#include "upa/url_percent_encode.h"
#include "upa/url_search_params.h"
#include "buf_ops.h"

#include <cstdio>
#include <cstdlib>
#include <cstring>
#include <functional>
#include <iostream>
#include <list>
#include <memory>
#include <sstream>
#include <string>
#include <unistd.h>
#include <vector>

namespace upa_verif {
struct access {
    static const std::string& norm(const upa::url& u) { return u.norm_url_; }
    static std::size_t part_end(const upa::url& u, int i) { return u.part_end_[i]; }
    static unsigned flags(const upa::url& u) { return u.flags_; }
    static std::size_t seg(const upa::url& u) { return u.path_segment_count_; }
    static int scheme_index(const upa::url& u) {
        return u.scheme_inf_ ? static_cast<int>(u.scheme_inf_ - upa::url::kSchemes) : -1;
    }
    static bool has_params(const upa::url& u) { return static_cast<bool>(u.search_params_ptr_); }
    static const upa::url_search_params& params(const upa::url& u) { return *u.search_params_ptr_; }
    static bool is_sorted(const upa::url_search_params& p) { return p.is_sorted_; }
    static const upa::url* owner(const upa::url_search_params& p) { return p.url_ptr_; }
};
} // namespace upa_verif
using upa_verif::access;

// ---------------------------------------------------------------------------------- helpers
static std::string hx(const char* p, std::size_t n) {
    if (n == 0) return "-";
    static const char* d = "0123456789abcdef";
    std::string s; s.reserve(2 * n);
    for (std::size_t i = 0; i < n; ++i) { unsigned char c = static_cast<unsigned char>(p[i]); s += d[c >> 4]; s += d[c & 15]; }
    return s;
}
static std::string hx(const std::string& s) { return hx(s.data(), s.size()); }
static std::string hx(upa::string_view s) { return hx(s.data(), s.size()); }

// `aidx <what> <i> <j>`: the name argument is a VIEW of the i-th pair's name and the value argument a view of the j-th
// pair's value of the list that is being edited (indices modulo the size): every mutator / query, every position
template <class P>
static bool alias_indexed(P& p, const std::vector<std::string>& t, std::size_t at, std::string& r) {
    if (p.empty()) { r = "0"; return false; }
    const std::size_t n = p.size();
    auto itn = std::next(p.begin(), static_cast<long>(static_cast<std::size_t>(std::atoi(t[at + 1].c_str())) % n));
    auto itv = std::next(p.begin(), static_cast<long>(static_cast<std::size_t>(std::atoi(t[at + 2].c_str())) % n));
    const std::string& what = t[at];
    const std::string& nm = itn->first; const std::string& vl = itv->second;
    if (what == "del") p.del(nm);
    else if (what == "del2") p.del(nm, vl);
    else if (what == "remove") r = std::to_string(static_cast<unsigned long>(p.remove(nm)));
    else if (what == "remove2") r = std::to_string(static_cast<unsigned long>(p.remove(nm, vl)));
    else if (what == "set") p.set(nm, vl);
    else if (what == "append") p.append(nm, vl);
    else if (what == "has2") r = p.has(nm, vl) ? "1" : "0";
    else r = "?";
    return what != "has2";
}

// user predicates of the `removeif` operation (url_search_params::remove_if with a caller's predicate)
struct user_pred {
    std::string kind; std::size_t k;
    bool operator()(const upa::url_search_params::value_type& x) const {
        if (kind == "vlen") return x.second.size() == k;
        if (kind == "nlenle") return x.first.size() <= k;
        if (kind == "vfirst") return !x.second.empty() && static_cast<unsigned char>(x.second.front()) == k;
        if (kind == "nlast") return !x.first.empty() && static_cast<unsigned char>(x.first.back()) == k;
        return false;
    }
};

static std::vector<uint32_t> parse_units(const std::string& s) {
    std::vector<uint32_t> v;
    if (s == "-") return v;
    std::size_t i = 0;
    while (i <= s.size()) {
        std::size_t j = s.find(',', i);
        if (j == std::string::npos) j = s.size();
        v.push_back(static_cast<uint32_t>(std::strtoul(s.substr(i, j - i).c_str(), nullptr, 16)));
        i = j + 1;
    }
    return v;
}

// a user-defined string-like class (data() + length())
template <class CharT>
struct my_string {
    using value_type = CharT;
    const CharT* p; std::size_t n;
    const CharT* data() const { return p; }
    std::size_t length() const { return n; }
};

static unsigned g_line = 0;

// Calls f with the units presented as CharT in one of the accepted argument forms. The buffer is an
// exactly sized heap block without terminator (except for the forms that need one), so that ASan
// sees any read past the end.
template <class CharT, class F>
static auto with_form(const std::vector<uint32_t>& units, unsigned form, F&& f) -> decltype(f(std::basic_string<CharT>())) {
    const std::size_t n = units.size();
    bool has_nul = false;
    for (auto u : units) if (u == 0) has_nul = true;
    std::unique_ptr<CharT[]> buf(new CharT[n ? n : 1]);
    for (std::size_t i = 0; i < n; ++i) buf[i] = static_cast<CharT>(units[i]);
    const CharT* p = buf.get();
    switch (form % 6) {
    case 0: return f(std::basic_string<CharT>(p, n));
    case 1: return f(upa::str_arg<CharT>(p, n));
    case 2: return f(upa::str_arg<CharT>(p, p + n));
    case 3: return f(my_string<CharT>{ p, n });
    case 4:
        if (!has_nul) {
            std::unique_ptr<CharT[]> z(new CharT[n + 1]);
            for (std::size_t i = 0; i < n; ++i) z[i] = p[i];
            z[n] = 0;
            const CharT* zp = z.get();
            return f(zp);
        }
        return f(upa::str_arg<CharT>(p, static_cast<std::ptrdiff_t>(n)));
    default: {
#ifdef UPA_CPP_17
        return f(std::basic_string_view<CharT>(p, n));
#else
        return f(upa::str_arg<CharT>(p, n));
#endif
    }
    }
}

// dispatch on encoding token: "8", "16", "32"; for 32 every other line uses wchar_t, for 8 (C++20) char8_t
template <class F>
static auto with_arg(const std::string& enc, const std::vector<uint32_t>& units, F&& f) -> decltype(f(std::string())) {
    const unsigned form = g_line;
    if (enc == "16") return with_form<char16_t>(units, form, f);
    if (enc == "32") {
        if ((g_line / 6) % 2) return with_form<wchar_t>(units, form, f);
        return with_form<char32_t>(units, form, f);
    }
#ifdef __cpp_char8_t
    if ((g_line / 6) % 2) return with_form<char8_t>(units, form, f);
#endif
    return with_form<char>(units, form, f);
}

// two-argument sites: restricted to two forms per argument to bound template instantiations
template <class CharT, class F>
static auto with_form2(const std::vector<uint32_t>& units, unsigned form, F&& f) -> decltype(f(std::basic_string<CharT>())) {
    const std::size_t n = units.size();
    std::unique_ptr<CharT[]> buf(new CharT[n ? n : 1]);
    for (std::size_t i = 0; i < n; ++i) buf[i] = static_cast<CharT>(units[i]);
    const CharT* p = buf.get();
    if (form % 2) return f(std::basic_string<CharT>(p, n));
    return f(upa::str_arg<CharT>(p, n));
}
template <class F>
static auto with_arg2(const std::string& enc, const std::vector<uint32_t>& units, F&& f) -> decltype(f(std::string())) {
    const unsigned form = g_line;
    if (enc == "16") return with_form2<char16_t>(units, form, f);
    if (enc == "32") {
        if ((g_line / 2) % 2) return with_form2<wchar_t>(units, form, f);
        return with_form2<char32_t>(units, form, f);
    }
    return with_form2<char>(units, form, f);
}

// ---------------------------------------------------------------------------------- state
static upa::url g_url[4];
static upa::url_search_params g_params[4];
static std::vector<upa::url> g_bases;   // fixed bases for the C02 reparse predicate

// ---------------------------------------------------------------------------------- predicates
static bool is_lower(char c) { return c >= 'a' && c <= 'z'; }
static bool is_digit(char c) { return c >= '0' && c <= '9'; }
static bool printable(char c) { return c >= 0x21 && c <= 0x7E; }

// C08, written from the property text on public getters only
static bool canon(const upa::url& u) {
    const auto href = u.href();
    const bool opaque = u.has_opaque_path();
    // printable ASCII, U+0020 only inside an opaque path
    {
        const auto path = u.pathname();
        const std::size_t pb = static_cast<std::size_t>(path.data() - href.data());
        for (std::size_t i = 0; i < href.size(); ++i) {
            const char c = href[i];
            if (printable(c)) continue;
            if (c == ' ' && opaque && path.size() && i >= pb && i < pb + path.size()) continue;
            return false;
        }
    }
    // scheme
    const auto prot = u.protocol();
    if (prot.size() < 2 || prot.back() != ':' || !is_lower(prot[0])) return false;
    for (std::size_t i = 1; i + 1 < prot.size(); ++i) {
        const char c = prot[i];
        if (!(is_lower(c) || is_digit(c) || c == '+' || c == '-' || c == '.')) return false;
    }
    const std::string scheme(prot.data(), prot.size() - 1);
    int defport = -1; bool special = true;
    if (scheme == "http" || scheme == "ws") defport = 80;
    else if (scheme == "https" || scheme == "wss") defport = 443;
    else if (scheme == "ftp") defport = 21;
    else if (scheme == "file") defport = -1;
    else special = false;
    const bool is_file = scheme == "file";
    // port
    const auto port = u.port();
    if (u.is_null(upa::url::PORT) != port.empty()) return false;
    if (!port.empty()) {
        if (port.size() > 5) return false;
        long v = 0;
        for (char c : port) { if (!is_digit(c)) return false; v = v * 10 + (c - '0'); }
        if (port.size() > 1 && port[0] == '0') return false;
        if (v > 65535 || v == defport) return false;
    }
    const auto hostname = u.hostname();
    if (special && !is_file && hostname.empty()) return false;
    if (special && (opaque || u.pathname().empty() || u.pathname()[0] != '/')) return false;
    if (hostname.empty() || is_file) {
        if (!u.username().empty() || !u.password().empty() || !port.empty()) return false;
    }
    for (auto s : { u.username(), u.password() })
        for (char c : s) if (c == '/' || c == ':' || c == '@' || c == '?' || c == '#') return false;
    switch (u.host_type()) {
    case upa::HostType::Domain:
        for (char c : hostname) {
            const unsigned char uc = static_cast<unsigned char>(c);
            if (uc <= 0x20 || uc >= 0x7F || std::strchr("#/:<>?@[\\]^|%", c) || (c >= 'A' && c <= 'Z')) return false;
        }
        break;
    case upa::HostType::IPv6:
        if (hostname.size() < 4 || hostname.front() != '[' || hostname.back() != ']') return false;
        for (std::size_t i = 1; i + 1 < hostname.size(); ++i) {
            const char c = hostname[i];
            if (!(is_digit(c) || (c >= 'a' && c <= 'f') || c == ':')) return false;
        }
        break;
    default: break;
    }
    const auto search = u.search();
    for (char c : search) if (c == '#' || c == ' ' || (c == '\'' && special)) return false;
    for (char c : u.pathname()) if (c == '?' || c == '#') return false;
    // '/.' guard: a URL with null host whose path starts with '//'
    if (u.is_null(upa::url::HOST) && !opaque && u.pathname().size() >= 2 && u.pathname()[0] == '/' && u.pathname()[1] == '/') {
        const std::string want = std::string(prot.data(), prot.size()) + "/." + std::string(u.pathname().data(), u.pathname().size());
        if (std::string(href.data(), href.size()).compare(0, want.size(), want) != 0) return false;
    }
    return true;
}

static std::string pe_norm(const upa::url& u) {
    // part_end_ with trailing zeros (never started parts) replaced by the string length
    std::string s;
    const std::size_t n = access::norm(u).size();
    for (int i = 0; i < upa::url::PART_COUNT; ++i) {
        std::size_t v = access::part_end(u, i);
        if (v == 0) {
            bool trailing = true;
            for (int j = i; j < upa::url::PART_COUNT; ++j) if (access::part_end(u, j)) trailing = false;
            if (trailing) v = n;
        }
        if (i) s += ',';
        s += std::to_string(v);
    }
    return s;
}

static std::string public_dump(const upa::url& u) {
    std::string s = "V href=" + hx(u.href());
    s += " origin=" + hx(u.origin());
    s += " protocol=" + hx(u.protocol());
    s += " username=" + hx(u.username());
    s += " password=" + hx(u.password());
    s += " host=" + hx(u.host());
    s += " hostname=" + hx(u.hostname());
    s += " port=" + hx(u.port());
    s += " pathname=" + hx(u.pathname());
    s += " search=" + hx(u.search());
    s += " hash=" + hx(u.hash());
    s += " path=" + hx(u.path());
    s += " nulls=";
    s += u.is_null(upa::url::HOST) ? '1' : '0';
    s += u.is_null(upa::url::PORT) ? '1' : '0';
    s += u.is_null(upa::url::QUERY) ? '1' : '0';
    s += u.is_null(upa::url::FRAGMENT) ? '1' : '0';
    s += " ht=" + std::to_string(static_cast<int>(u.host_type()));
    s += " op=";
    s += u.has_opaque_path() ? '1' : '0';
    s += " pi=" + std::to_string(u.port_int()) + " rpi=" + std::to_string(u.real_port_int());
    s += " sf=";
    s += u.is_special_scheme() ? '1' : '0';
    s += u.is_file_scheme() ? '1' : '0';
    s += u.is_http_scheme() ? '1' : '0';
    s += u.has_credentials() ? '1' : '0';
    if (u.to_string() != std::string(u.href().data(), u.href().size()) || u.get_href() != u.href() || u.get_pathname() != u.pathname() || u.get_search() != u.search() || u.get_hash() != u.hash() || u.get_host() != u.host() || u.get_hostname() != u.hostname() || u.get_port() != u.port() || u.get_protocol() != u.protocol() || u.get_username() != u.username() || u.get_password() != u.password() || u.get_path() != u.path() || u.empty()) s += " ALIAS-DIFF";
    return s;
}

// the raw stored representation (zeros of never-started parts included): input / expected output of the
// operational setter model (Impl/SetRepApi.lean); printed after " %%" for every in-place edit
static std::string g_step;
static std::string raw_state(const upa::url& u) {
    std::string s = hx(access::norm(u)) + " ";
    for (int i = 0; i < upa::url::PART_COUNT; ++i) { if (i) s += ','; s += std::to_string(access::part_end(u, i)); }
    const int si = access::scheme_index(u);
    s += " " + std::to_string(access::flags(u)) + " " + std::to_string(access::seg(u)) + " " + std::to_string(si);
    return s;
}

static std::string hidden_core(const upa::url& u) {
    std::string s = " seg=" + std::to_string(access::seg(u));
    const int si = access::scheme_index(u);
    s += " si=" + (si < 0 ? std::string("-") : std::to_string(si));
    s += " pe=" + pe_norm(u);
    return s;
}

// full state equality used by the C02 / C05 predicates: public observables + hidden state (offsets up
// to the two encodings of trailing parts) + flag word
static std::string full_state(const upa::url& u) {
    return public_dump(u) + hidden_core(u) + " fl=" + std::to_string(access::flags(u));
}

static bool file_exc(const upa::url& u) {
    if (!u.is_file_scheme()) return false;
    if (u.hostname() == upa::string_view("localhost", 9)) return true;
    const auto p = u.pathname();
    return p.size() >= 3 && p[0] == '/' && ((p[1] | 0x20) >= 'a' && (p[1] | 0x20) <= 'z') && p[2] == '|' &&
           (p.size() == 3 || p[3] == '/');
}

static char reparse_flag(const upa::url& u) {
    const std::string want = full_state(u);
    bool ok = true;
    {
        upa::url r;
        if (r.parse(u.href(), nullptr) != upa::validation_errc::ok || full_state(r) != want) ok = false;
    }
    for (const auto& b : g_bases) {
        upa::url r;
        if (r.parse(u.href(), &b) != upa::validation_errc::ok || full_state(r) != want) ok = false;
    }
    for (int k = 0; k < 4 && ok; ++k) {
        if (!g_url[k].is_valid()) continue;
        upa::url r;
        if (r.parse(u.href(), &g_url[k]) != upa::validation_errc::ok || full_state(r) != want) ok = false;
    }
    if (ok) return '1';
    return file_exc(u) ? 'x' : '0';
}

static std::string pairs_str(const upa::url_search_params& p) {
    if (p.empty()) return "-";
    std::string s;
    bool first = true;
    for (const auto& nv : p) {
        if (!first) s += ',';
        first = false;
        s += hx(nv.first) + ":" + hx(nv.second);
    }
    return s;
}

static std::string dump(const upa::url& u) {
    if (!u.is_valid()) return "I";
    std::string s = public_dump(u) + hidden_core(u);
    s += " canon=";
    s += canon(u) ? '1' : '0';
    s += " rp=";
    s += reparse_flag(u);
    return s;
}

// returns the " sp=… so=…" part plus (C++ only) lock-step predicates which are appended after "@@"
static std::string sp_dump(const upa::url& u, std::string& preds) {
    if (!u.is_valid()) return " sp=?";
    if (!access::has_params(u)) return " sp=~";
    const auto& p = access::params(u);
    std::string s = " sp=" + pairs_str(p) + " so=" + (access::is_sorted(p) ? "1" : "0");
    if (u.is_valid()) {
        // C06: the params object lists exactly the pairs of the URL's current query; owner is this URL
        // (the URL's list is the parse of the query as it is: no '?' is dropped here)
        const auto q = upa::url_search_params::do_parse(false, u.get_part_view(upa::url::QUERY));
        bool same = q.size() == p.size();
        if (same) {
            auto a = q.begin(); auto b = p.begin();
            for (; a != q.end(); ++a, ++b) if (*a != *b) { same = false; break; }
        }
        preds += same ? " lk=1" : " lk=0";
        preds += access::owner(p) == &u ? " own=1" : " own=0";
    }
    return s;
}

static std::string obj_line(const upa::url& u, std::string& preds) {
    std::string s = dump(u) + sp_dump(u, preds);
    if (u.is_valid()) {
        // the raw offsets, zeros of never-started parts included (compared with the representation-level object model)
        // the whole raw representation: offsets with their zeros / the modelled flag bits / segment count / scheme index / string
        s += " rpe=";
        for (int i = 0; i < upa::url::PART_COUNT; ++i) { if (i) s += ','; s += std::to_string(access::part_end(u, i)); }
        const unsigned fl = access::flags(u);
        s += "/h" + std::to_string((fl >> 5) & 1) + "p" + std::to_string((fl >> 6) & 1) + "q" + std::to_string((fl >> 9) & 1) + "f" + std::to_string((fl >> 10) & 1) + "o" + std::to_string((fl >> 11) & 1) + "t" + std::to_string((fl >> 13) & 7);
        s += "/" + std::to_string(access::seg(u)) + "/" + std::to_string(access::scheme_index(u)) + "/" + hx(access::norm(u));
    }
    return s;
}

// C05 probe battery: the object against a fresh parse of its own href
static std::string probe(const upa::url& u) {
    if (!u.is_valid()) return "probe=invalid";
    upa::url f;
    if (f.parse(u.href(), nullptr) != upa::validation_errc::ok) return file_exc(u) ? "probe=ok" : "probe=DIFF:reparse-fails";
    if (file_exc(u)) return "probe=ok";
    if (full_state(u) != full_state(f)) return "probe=DIFF:state";
    if (!(u == f) || std::hash<upa::url>{}(u) != std::hash<upa::url>{}(f)) return "probe=DIFF:eq-hash";
    if (!upa::equals(u, f, true) || u.serialize(true) != f.serialize(true)) return "probe=DIFF:serialize";
    // the defaulted arguments of the equivalence functions (exclude_fragment = false)
    if (!upa::equals(u, f) || u.serialize() != u.href() || f.serialize() != f.href()) return "probe=DIFF:equals-default";
    {
        upa::url g(f);
        g.hash("verif-other-fragment");
        if (g.pathname() == u.pathname() && g.search() == u.search()) {   // (an opaque path can lose trailing spaces when the fragment changes)
            if (!upa::equals(u, g, true)) return "probe=DIFF:equals-exclude-fragment";
            if (upa::equals(u, g) != (u.hash() == g.hash())) return "probe=DIFF:equals-with-fragment";
        }
    }
    for (int t = 0; t < upa::url::PART_COUNT; ++t) {
        const auto pt = static_cast<upa::url::PartType>(t);
        // is_empty(part) is exactly 'the view of the part is empty' (for every part, SCHEME included), on the object itself
        if (u.is_empty(pt) != u.get_part_view(pt).empty()) return "probe=DIFF:is_empty-vs-view" + std::to_string(t);
        if (u.is_null(pt) != f.is_null(pt) || u.is_empty(pt) != f.is_empty(pt) || u.get_part_view(pt) != f.get_part_view(pt))
            return "probe=DIFF:part" + std::to_string(t);
    }
    // getter consistency (C05, second sentence)
    {
        std::string host(u.hostname().data(), u.hostname().size());
        if (!u.is_null(upa::url::PORT)) { host += ':'; host.append(u.port().data(), u.port().size()); }
        if (u.is_null(upa::url::HOST)) host.clear();
        if (host != std::string(u.host().data(), u.host().size())) return "probe=DIFF:host-getter";
        std::string path(u.pathname().data(), u.pathname().size());
        if (!u.is_null(upa::url::QUERY)) { path += '?'; const auto q = u.get_part_view(upa::url::QUERY); path.append(q.data(), q.size()); }
        if (path != std::string(u.path().data(), u.path().size())) return "probe=DIFF:path-getter";
        std::string nofrag(u.href().data(), u.href().size());
        if (!u.is_null(upa::url::FRAGMENT)) nofrag.resize(nofrag.size() - u.get_part_view(upa::url::FRAGMENT).size() - 1);
        if (nofrag != std::string(u.serialize(true).data(), u.serialize(true).size())) return "probe=DIFF:exclude-fragment";
        if (u.port_int() != (u.port().empty() ? -1 : std::atoi(std::string(u.port().data(), u.port().size()).c_str()))) return "probe=DIFF:port_int";
    }
    // use as base
    static const char* rels[] = { "", ".", "..", "../..", "x", "/x", "//h", "?q", "#f", "x:y", "C|/", "\\\\x", "./y/../z", "?", "#", "/.//p", "..//" };
    for (const char* r : rels) {
        upa::url a, b;
        const auto ra = a.parse(r, &u);
        const auto rb = b.parse(r, &f);
        if ((ra == upa::validation_errc::ok) != (rb == upa::validation_errc::ok)) return std::string("probe=DIFF:base-ok:") + r;
        if (ra == upa::validation_errc::ok && full_state(a) != full_state(b)) return std::string("probe=DIFF:base:") + r;
    }
    // modify further
    struct S { const char* name; bool (*fn)(upa::url&, const char*); };
    static const S setters[] = {
        { "protocol", [](upa::url& x, const char* v) { return x.protocol(v); } },
        { "username", [](upa::url& x, const char* v) { return x.username(v); } },
        { "password", [](upa::url& x, const char* v) { return x.password(v); } },
        { "host", [](upa::url& x, const char* v) { return x.host(v); } },
        { "hostname", [](upa::url& x, const char* v) { return x.hostname(v); } },
        { "port", [](upa::url& x, const char* v) { return x.port(v); } },
        { "pathname", [](upa::url& x, const char* v) { return x.pathname(v); } },
        { "search", [](upa::url& x, const char* v) { return x.search(v); } },
        { "hash", [](upa::url& x, const char* v) { return x.hash(v); } },
    };
    static const char* vals[] = { "", "x", "https", "file", "h:81", "8080", "/a/../b//c", "..", "?k=v", "#z", "a b", "w:" };
    for (const auto& s : setters) {
        for (const char* v : vals) {
            upa::url a(u), b(f);
            const bool ra = s.fn(a, v), rb = s.fn(b, v);
            if (ra != rb || full_state(a) != full_state(b)) return std::string("probe=DIFF:set:") + s.name + ":" + v;
        }
    }
    return "probe=ok";
}

// ---------------------------------------------------------------------------------- operations
static std::vector<std::string> split(const std::string& line) {
    std::vector<std::string> t;
    std::istringstream is(line);
    std::string w;
    while (is >> w) t.push_back(w);
    return t;
}

struct base_ref { int kind; /*0 none,1 slot,2 string*/ int slot; std::string enc; std::vector<uint32_t> units; };
static base_ref parse_base(const std::string& a) {
    base_ref b{ 0, 0, "", {} };
    if (a == "-") return b;
    if (a[0] == 's') { b.kind = 1; b.slot = std::atoi(a.c_str() + 1); return b; }
    b.kind = 2;
    const auto c = a.find(':');
    b.enc = a.substr(1, c - 1);
    b.units = parse_units(a.substr(c + 1));
    return b;
}

static upa::file_path_format fmt_of(const std::string& s) {
    return s == "windows" ? upa::file_path_format::windows : upa::file_path_format::posix;
}

static const upa::code_point_set* set_of(const std::string& s) {
    if (s == "fragment") return &upa::fragment_no_encode_set;
    if (s == "query") return &upa::query_no_encode_set;
    if (s == "squery") return &upa::special_query_no_encode_set;
    if (s == "path") return &upa::path_no_encode_set;
    if (s == "rawpath") return &upa::raw_path_no_encode_set;
    if (s == "posixpath") return &upa::posix_path_no_encode_set;
    if (s == "userinfo") return &upa::userinfo_no_encode_set;
    if (s == "component") return &upa::component_no_encode_set;
    return nullptr;
}

static std::string opt_bytes(const std::string* s) { return s ? "1:" + hx(*s) : "0"; }

static uint8_t g_set_from = 0, g_set_to = 0, g_set_excl = 0;
static void init_user_set(upa::code_point_set& self) { self.include(g_set_from, g_set_to); self.exclude(g_set_excl); }

static std::string exec(const std::vector<std::string>& t, std::string& preds) {
    const std::string& op = t[0];
    if (op == "case") {
        for (auto& u : g_url) u = upa::url();
        for (auto& p : g_params) p = upa::url_search_params();
        return "case";
    }
    if (op == "parse" && t.size() == 5) {
        const int k = std::atoi(t[1].c_str());
        const auto units = parse_units(t[3]);
        const base_ref b = parse_base(t[4]);
        bool ok = false, cp = false, ct = false;
        std::string ctor_state;
        // "-" no base; "?" the step is not recorded (invalid base object / base string that does not parse)
        std::string base_raw = "-";
        if (b.kind == 1) base_raw = g_url[b.slot].is_valid() ? raw_state(g_url[b.slot]) : std::string("?");
        if (b.kind == 2) {
            upa::url bu;
            base_raw = with_arg(b.enc, b.units, [&](auto&& bs) { return bu.parse(bs, nullptr) == upa::validation_errc::ok; }) ? raw_state(bu) : std::string("?");
        }
        if (b.kind == 2) {
            ok = with_arg(t[2], units, [&](auto&& a) { return with_arg(b.enc, b.units, [&](auto&& bs) { return g_url[k].parse(a, bs) == upa::validation_errc::ok; }); });
            cp = with_arg(t[2], units, [&](auto&& a) { return with_arg(b.enc, b.units, [&](auto&& bs) { return upa::url::can_parse(a, bs); }); });
            try {
                with_arg(t[2], units, [&](auto&& a) { return with_arg(b.enc, b.units, [&](auto&& bs) { upa::url c(a, bs); ctor_state = full_state(c); return true; }); });
                ct = true;
            } catch (const upa::url_error&) { ct = false; }
        } else {
            const upa::url* base = b.kind == 1 ? &g_url[b.slot] : nullptr;
            upa::url base_copy;   // the base may be the target slot itself
            if (base) { base_copy = *base; base = &base_copy; }
            cp = with_arg(t[2], units, [&](auto&& a) { return upa::url::can_parse(a, base); });
            try {
                with_arg(t[2], units, [&](auto&& a) { upa::url c(a, base); ctor_state = full_state(c); return true; });
                ct = true;
            } catch (const upa::url_error&) { ct = false; }
            const upa::url* real_base = b.kind == 1 ? &g_url[b.slot] : nullptr;   // may be the target itself
            ok = with_arg(t[2], units, [&](auto&& a) { return g_url[k].parse(a, real_base) == upa::validation_errc::ok; });
        }
        // C09: parse, can_parse and the throwing constructor agree, objects equal
        preds += (ok == ct && (!ok || ctor_state == full_state(g_url[k]))) ? " ct=1" : " ct=0";
        // raw representation of the base before and of the result after: replayed on the operational parser model
        if (base_raw != "?")
            g_step = "parse - " + t[2] + " " + t[3] + " " + (ok ? "1" : "0") + " | " + base_raw + " | " + (ok ? raw_state(g_url[k]) : std::string("-"));
        return std::string("ok=") + (ok ? "1" : "0") + " cp=" + (cp ? "1" : "0") + " " + obj_line(g_url[k], preds);
    }
    // ---- self-referential arguments: the argument is a VIEW of the object's own storage
    if (op == "aparsebg" && t.size() == 3) {
        // BOTH the input and the base are the object itself: u.parse(u.<getter>(), &u)
        const int k = std::atoi(t[1].c_str());
        upa::url& u = g_url[k];
        if (!u.is_valid()) return obj_line(u, preds);
        const std::string& g = t[2];
        auto view = [&]() -> upa::string_view {
            if (g == "href") return u.href(); if (g == "protocol") return u.protocol(); if (g == "pathname") return u.pathname();
            if (g == "search") return u.search(); if (g == "hash") return u.hash(); if (g == "host") return u.host(); return u.path();
        };
        const std::string copy(view().data(), view().size());
        const upa::url base_copy(u);
        const bool cp = upa::url::can_parse(copy, &base_copy);
        bool ct = false; std::string ctor_state;
        try { upa::url c(copy, &base_copy); ctor_state = full_state(c); ct = true; } catch (const upa::url_error&) { ct = false; }
        const bool ok = u.parse(view(), &u) == upa::validation_errc::ok;
        preds += (ok == ct && (!ok || ctor_state == full_state(u))) ? " ct=1" : " ct=0";
        return std::string("ok=") + (ok ? "1" : "0") + " cp=" + (cp ? "1" : "0") + " " + obj_line(u, preds);
    }
    if (op == "aparsesp" && t.size() == 4) {
        // the input is a view of one of the URL's OWN search parameter values: u.parse(*u.search_params().get(name))
        const int k = std::atoi(t[1].c_str());
        upa::url& u = g_url[k];
        const std::string* v = u.is_valid() ? with_arg(t[2], parse_units(t[3]), [&](auto&& n) { return u.search_params().get(n); }) : nullptr;
        if (!v) return obj_line(u, preds);
        const std::string copy(*v);
        const bool cp = upa::url::can_parse(copy);
        bool ct = false; std::string ctor_state;
        try { upa::url c(copy); ctor_state = full_state(c); ct = true; } catch (const upa::url_error&) { ct = false; }
        const bool ok = u.parse(*v, nullptr) == upa::validation_errc::ok;
        preds += (ok == ct && (!ok || ctor_state == full_state(u))) ? " ct=1" : " ct=0";
        return std::string("ok=") + (ok ? "1" : "0") + " cp=" + (cp ? "1" : "0") + " " + obj_line(u, preds);
    }
    if ((op == "aset" && t.size() == 4) || (op == "aparse" && t.size() == 2) || (op == "aparseb" && t.size() == 4)) {
        const int k = std::atoi(t[1].c_str());
        upa::url& u = g_url[k];
        auto units_of = [](const std::string& v) { std::string r; static const char* d = "0123456789abcdef"; for (unsigned char c : v) { if (!r.empty()) r += ','; if (c >> 4) r += d[c >> 4]; r += d[c & 15]; } return r.empty() ? std::string("-") : r; };
        if (op == "aset") {
            if (!u.is_valid()) return obj_line(u, preds);
            const std::string& s = t[2];
            const std::string& g = t[3];
            auto view = [&]() -> upa::string_view {
                if (g == "href") return u.href(); if (g == "protocol") return u.protocol(); if (g == "username") return u.username();
                if (g == "password") return u.password(); if (g == "host") return u.host(); if (g == "hostname") return u.hostname();
                if (g == "port") return u.port(); if (g == "pathname") return u.pathname(); if (g == "search") return u.search();
                if (g == "hash") return u.hash(); return u.path();
            };
            const std::string val(view().data(), view().size());
            const std::string before = raw_state(u);
            const upa::string_view a = view();
            const bool ret = s == "href" ? u.href(a) : s == "protocol" ? u.protocol(a) : s == "username" ? u.username(a) : s == "password" ? u.password(a) :
                             s == "host" ? u.host(a) : s == "hostname" ? u.hostname(a) : s == "port" ? u.port(a) : s == "pathname" ? u.pathname(a) :
                             s == "search" ? u.search(a) : u.hash(a);
            if (s != "href") g_step = "set " + s + " 8 " + units_of(val) + " " + (ret ? "1" : "0") + " | " + before + " | " + raw_state(u);
            return std::string("ret=") + (ret ? "1" : "0") + " " + obj_line(u, preds);
        }
        bool ok = false, cp = false, ct = false;
        std::string ctor_state;
        if (op == "aparse") {
            if (!u.is_valid()) return obj_line(u, preds);
            const std::string copy(u.href().data(), u.href().size());
            cp = upa::url::can_parse(copy);
            try { upa::url c(copy); ctor_state = full_state(c); ct = true; } catch (const upa::url_error&) { ct = false; }
            ok = u.parse(u.href(), nullptr) == upa::validation_errc::ok;     // the input is the object's own serialization
        } else {
            const auto units = parse_units(t[3]);
            const upa::url base_copy(u);
            cp = with_arg(t[2], units, [&](auto&& a) { return upa::url::can_parse(a, &base_copy); });
            try {
                with_arg(t[2], units, [&](auto&& a) { upa::url c(a, &base_copy); ctor_state = full_state(c); return true; });
                ct = true;
            } catch (const upa::url_error&) { ct = false; }
            ok = with_arg(t[2], units, [&](auto&& a) { return u.parse(a, &u) == upa::validation_errc::ok; });   // the base is the target
        }
        preds += (ok == ct && (!ok || ctor_state == full_state(u))) ? " ct=1" : " ct=0";
        return std::string("ok=") + (ok ? "1" : "0") + " cp=" + (cp ? "1" : "0") + " " + obj_line(u, preds);
    }
    if (op == "set" && t.size() == 5) {
        const int k = std::atoi(t[1].c_str());
        const auto units = parse_units(t[4]);
        const std::string& s = t[2];
        upa::url& u = g_url[k];
        const bool alias = (g_line / 3) % 2;   // exercise the set_* aliases as well
        const bool step = u.is_valid() && s != "href";
        const std::string before = step ? raw_state(u) : std::string();
        const bool ret = with_arg(t[3], units, [&](auto&& a) {
            if (s == "href") return alias ? u.set_href(a) : u.href(a);
            if (s == "protocol") return alias ? u.set_protocol(a) : u.protocol(a);
            if (s == "username") return alias ? u.set_username(a) : u.username(a);
            if (s == "password") return alias ? u.set_password(a) : u.password(a);
            if (s == "host") return alias ? u.set_host(a) : u.host(a);
            if (s == "hostname") return alias ? u.set_hostname(a) : u.hostname(a);
            if (s == "port") return alias ? u.set_port(a) : u.port(a);
            if (s == "pathname") return alias ? u.set_pathname(a) : u.pathname(a);
            if (s == "search") return alias ? u.set_search(a) : u.search(a);
            return alias ? u.set_hash(a) : u.hash(a);
        });
        if (step) g_step = "set " + s + " " + t[3] + " " + t[4] + " " + (ret ? "1" : "0") + " | " + before + " | " + raw_state(u);
        return std::string("ret=") + (ret ? "1" : "0") + " " + obj_line(u, preds);
    }
    if (op == "dump" && t.size() == 2) {
        return obj_line(g_url[std::atoi(t[1].c_str())], preds);
    }
    if (op == "probe" && t.size() == 2) {
        return probe(g_url[std::atoi(t[1].c_str())]);
    }
    if (op == "obj" && t.size() == 4) {
        const int d = std::atoi(t[2].c_str()), s = std::atoi(t[3].c_str());
        const std::string& o = t[1];
        if (o == "clear") g_url[d].clear();
        else if (d == s) {
            // self operations: assignment, move assignment, safe_assign and swap of an object with itself leave it unchanged
            upa::url& x = g_url[d];
            upa::url& y = g_url[s];
            if (o == "copya") x = y;
            else if (o == "movea") x = std::move(y);
            else if (o == "swap") { using std::swap; swap(x, y); }
            else if (o == "safea") x.safe_assign(std::move(y));
        }
        else if (d != s) {
            if (o == "copya") g_url[d] = g_url[s];
            else if (o == "copyc") { upa::url c(g_url[s]); g_url[d].~url(); new (&g_url[d]) upa::url(c); }
            else if (o == "movea") g_url[d] = std::move(g_url[s]);
            else if (o == "movec") { g_url[d].~url(); new (&g_url[d]) upa::url(std::move(g_url[s])); }
            else if (o == "swap") { using std::swap; swap(g_url[d], g_url[s]); }
            else if (o == "safea") g_url[d].safe_assign(std::move(g_url[s]));
        }
        std::string p1, p2;
        std::string r = "d=" + obj_line(g_url[d], p1) + " s=" + obj_line(g_url[s], p2);
        preds += p1 + p2;
        return r;
    }
    if (op == "sp" && t.size() >= 3) {
        const int k = std::atoi(t[1].c_str());
        upa::url& u = g_url[k];
        const std::string& o = t[2];
        auto A = [&](int i) { return parse_units(t.size() > static_cast<std::size_t>(4 + 2 * i) ? t[4 + 2 * i] : std::string("-")); };
        auto E = [&](int i) { return t.size() > static_cast<std::size_t>(3 + 2 * i) ? t[3 + 2 * i] : std::string("8"); };
        std::string r = "-";
        auto& sp = u.search_params();
        const std::string before = u.is_valid() ? raw_state(u) : std::string();
        bool amut = false;
        if (o == "get") {}
        else if (o == "append") with_arg2(E(0), A(0), [&](auto&& n) { return with_arg2(E(1), A(1), [&](auto&& v) { sp.append(n, v); return true; }); });
        else if (o == "set") with_arg2(E(0), A(0), [&](auto&& n) { return with_arg2(E(1), A(1), [&](auto&& v) { sp.set(n, v); return true; }); });
        else if (o == "del") with_arg(E(0), A(0), [&](auto&& n) { sp.del(n); return true; });
        else if (o == "del2") with_arg2(E(0), A(0), [&](auto&& n) { return with_arg2(E(1), A(1), [&](auto&& v) { sp.del(n, v); return true; }); });
        else if (o == "remove") r = std::to_string(with_arg(E(0), A(0), [&](auto&& n) { return static_cast<unsigned long>(sp.remove(n)); }));
        else if (o == "remove2") r = std::to_string(with_arg2(E(0), A(0), [&](auto&& n) { return with_arg2(E(1), A(1), [&](auto&& v) { return static_cast<unsigned long>(sp.remove(n, v)); }); }));
        else if (o == "has") r = with_arg(E(0), A(0), [&](auto&& n) { return sp.has(n); }) ? "1" : "0";
        else if (o == "has2") r = with_arg2(E(0), A(0), [&](auto&& n) { return with_arg2(E(1), A(1), [&](auto&& v) { return sp.has(n, v); }); }) ? "1" : "0";
        else if (o == "getv") r = opt_bytes(with_arg(E(0), A(0), [&](auto&& n) { return sp.get(n); }));
        else if (o == "getall") {
            const auto l = with_arg(E(0), A(0), [&](auto&& n) { return sp.get_all(n); });
            r.clear();
            for (const auto& s : l) { if (!r.empty()) r += ','; r += hx(s); }
            if (l.empty()) r = "-";
        }
        else if (o == "sort") sp.sort();
        else if (o == "clear") sp.clear();
        else if (o == "aset2") { if (sp.empty()) r = "0"; else { sp.set(std::prev(sp.end(), sp.size() >= 2 ? 2 : 1)->first, sp.begin()->second); amut = true; } }
        else if (o == "aidx" && t.size() == 6) { if (alias_indexed(sp, t, 3, r)) amut = true; }
        else if (o == "selfsafea") { upa::url_search_params& q = sp; sp.safe_assign(std::move(q)); }   // the parameters moved into themselves: unchanged
        else if (o == "aparse") {
            // the argument is a view of one of the list's own values: sp.parse(*sp.get(name))
            const std::string* v = with_arg(E(0), A(0), [&](auto&& n) { return sp.get(n); });
            if (v) { sp.parse(*v); amut = true; } else r = "0";
        }
        else if (o == "parse") with_arg(E(0), A(0), [&](auto&& q) { sp.parse(q); return true; });
        else if (o == "size") r = std::to_string(sp.size());
        else if (o == "str") r = hx(sp.to_string());
        else if (o == "assign") sp = g_params[std::atoi(t[3].c_str())];
        else if (o == "safea") sp.safe_assign(std::move(g_params[std::atoi(t[3].c_str())]));
        else r = "?";
        const bool mutating = o == "append" || o == "set" || o == "del" || o == "del2" || o == "sort" || o == "clear" ||
                              o == "parse" || o == "assign" || o == "safea" || amut;
        if (mutating && u.is_valid()) {
            // C06: after an edit the URL's search is exactly the serialization of the list; query null iff list empty
            const std::string ser = sp.to_string();
            const std::string want = ser.empty() ? std::string() : "?" + ser;
            const bool good = std::string(u.search().data(), u.search().size()) == want && u.is_null(upa::url::QUERY) == sp.empty();
            preds += good ? " ser=1" : " ser=0";
        }
        // url_search_params::update(): the serialized list is written into the QUERY part in place ("remove" /
        // "remove2" update only when something was removed, the queries never do)
        if (u.is_valid() && (mutating || ((o == "remove" || o == "remove2") && r != "0")))
            g_step = "update - 8 " + hx(sp.to_string()) + " 1 | " + before + " | " + raw_state(u);
        else if (u.is_valid() && before != raw_state(u))
            g_step = "none - 8 - 1 | " + before + " | " + raw_state(u);
        if (!u.is_valid()) r = "?";   // results read from the params object of an invalid URL are not compared
        return "r=" + r + " " + obj_line(u, preds);
    }
    if (op == "psp" && t.size() >= 3) {
        const int k = std::atoi(t[1].c_str());
        upa::url_search_params& p = g_params[k];
        const std::string& o = t[2];
        auto A = [&](int i) { return parse_units(t.size() > static_cast<std::size_t>(4 + 2 * i) ? t[4 + 2 * i] : std::string("-")); };
        auto E = [&](int i) { return t.size() > static_cast<std::size_t>(3 + 2 * i) ? t[3 + 2 * i] : std::string("8"); };
        std::string r = "-";
        if (o == "new") p = upa::url_search_params();
        else if (o == "ctor") with_arg(E(0), A(0), [&](auto&& q) { p = upa::url_search_params(q); return true; });
        else if (o == "parse") with_arg(E(0), A(0), [&](auto&& q) { p.parse(q); return true; });
        else if (o == "append") with_arg2(E(0), A(0), [&](auto&& n) { return with_arg2(E(1), A(1), [&](auto&& v) { p.append(n, v); return true; }); });
        else if (o == "set") with_arg2(E(0), A(0), [&](auto&& n) { return with_arg2(E(1), A(1), [&](auto&& v) { p.set(n, v); return true; }); });
        else if (o == "del") with_arg(E(0), A(0), [&](auto&& n) { p.del(n); return true; });
        else if (o == "del2") with_arg2(E(0), A(0), [&](auto&& n) { return with_arg2(E(1), A(1), [&](auto&& v) { p.del(n, v); return true; }); });
        else if (o == "remove") r = std::to_string(with_arg(E(0), A(0), [&](auto&& n) { return static_cast<unsigned long>(p.remove(n)); }));
        else if (o == "remove2") r = std::to_string(with_arg2(E(0), A(0), [&](auto&& n) { return with_arg2(E(1), A(1), [&](auto&& v) { return static_cast<unsigned long>(p.remove(n, v)); }); }));
        else if (o == "removeif") r = std::to_string(static_cast<unsigned long>(p.remove_if(user_pred{t.size() > 3 ? t[3] : std::string("-"), static_cast<std::size_t>(std::strtoul(t.size() > 4 ? t[4].c_str() : "0", nullptr, 10))})));
        else if (o == "has") r = with_arg(E(0), A(0), [&](auto&& n) { return p.has(n); }) ? "1" : "0";
        else if (o == "has2") r = with_arg2(E(0), A(0), [&](auto&& n) { return with_arg2(E(1), A(1), [&](auto&& v) { return p.has(n, v); }); }) ? "1" : "0";
        else if (o == "getv") r = opt_bytes(with_arg(E(0), A(0), [&](auto&& n) { return p.get(n); }));
        else if (o == "getall") {
            const auto l = with_arg(E(0), A(0), [&](auto&& n) { return p.get_all(n); });
            r.clear();
            for (const auto& s : l) { if (!r.empty()) r += ','; r += hx(s); }
            if (l.empty()) r = "-";
        }
        else if (o == "sort") p.sort();
        else if (o == "clear") p.clear();
        else if (o == "aparse") {
            const std::string* v = with_arg(E(0), A(0), [&](auto&& n) { return p.get(n); });
            if (v) p.parse(*v); else r = "0";
        }
        else if (o == "aappend") { if (p.empty()) r = "0"; else p.append(p.begin()->first, p.begin()->second); }
        else if (o == "aset") { if (p.empty()) r = "0"; else p.set(p.begin()->first, std::prev(p.end())->second); }
        else if (o == "aset2") { if (p.empty()) r = "0"; else p.set(std::prev(p.end(), p.size() >= 2 ? 2 : 1)->first, p.begin()->second); }
        else if (o == "selfsafea") { upa::url_search_params& q = p; p = std::move(q); r = std::to_string(p.size()); }   // a standalone object moved into itself: unchanged
        else if (o == "aidx" && t.size() == 6) alias_indexed(p, t, 3, r);
        else if (o == "adel") { if (p.empty()) r = "0"; else p.del(std::prev(p.end(), p.size() >= 2 ? 2 : 1)->first); }
        else if (o == "adel2") { if (p.empty()) r = "0"; else p.del(std::prev(p.end())->first, std::prev(p.end())->second); }
        else if (o == "size") r = std::to_string(p.size());
        else if (o == "copy") p = g_params[std::atoi(t[3].c_str())];
        else if (o == "fromurl" && !g_url[std::atoi(t[3].c_str())].is_valid()) r = "?";   // params of an invalid URL are not observed
        else if (o == "fromurl") { upa::url_search_params c(g_url[std::atoi(t[3].c_str())].search_params()); p = c; if (access::owner(c) != nullptr) preds += " det=0"; else preds += " det=1";
            // the copy-constructed object itself is edited and dropped: a detached copy changes neither the URL nor p
            c.append("copy", "edited"); c.sort(); }
        else r = "?";
        if (access::owner(p) != nullptr) preds += " det=0";
        return "r=" + r + " sp=" + pairs_str(p) + " so=" + (access::is_sorted(p) ? "1" : "0") + " str=" + hx(p.to_string());
    }
    // ---- leaf operations
    if (op == "ipv4" && t.size() == 2) {
        const auto units = parse_units(t[1]);
        std::string r;
        auto run = [&](auto ch) {
            using C = decltype(ch);
            std::unique_ptr<C[]> b(new C[units.size() ? units.size() : 1]);
            for (std::size_t i = 0; i < units.size(); ++i) b[i] = static_cast<C>(units[i]);
            uint32_t v = 0;
            const auto res = upa::ipv4_parse(b.get(), b.get() + units.size(), v);
            return res == upa::validation_errc::ok ? std::to_string(v) : std::string("F");
        };
        // units above 0xFF exist only in the wide runs (a narrowing cast would change the text)
        uint32_t mx = 0; for (auto u : units) if (u > mx) mx = u;
        r = run(char32_t());
        if (mx <= 0xFFFF && run(char16_t()) != r) return "WIDTH-DIFF";
        if (mx <= 0xFF && run(char()) != r) return "WIDTH-DIFF";
        return r;
    }
    if (op == "ends" && t.size() == 2) {
        const auto units = parse_units(t[1]);
        std::unique_ptr<char[]> b(new char[units.size() ? units.size() : 1]);
        for (std::size_t i = 0; i < units.size(); ++i) b[i] = static_cast<char>(units[i]);
        std::unique_ptr<char32_t[]> w(new char32_t[units.size() ? units.size() : 1]);
        for (std::size_t i = 0; i < units.size(); ++i) w[i] = static_cast<char32_t>(units[i]);
        uint32_t mx = 0; for (auto u : units) if (u > mx) mx = u;
        const bool c = upa::hostname_ends_in_a_number(w.get(), w.get() + units.size());
        if (mx <= 0xFF && upa::hostname_ends_in_a_number(b.get(), b.get() + units.size()) != c) return "WIDTH-DIFF";
        return c ? "1" : "0";
    }
    if (op == "ipv4ser" && t.size() == 2) {
        std::string out;
        upa::ipv4_serialize(static_cast<uint32_t>(std::strtoul(t[1].c_str(), nullptr, 10)), out);
        return hx(out);
    }
    if (op == "ipv6" && t.size() == 2) {
        const auto units = parse_units(t[1]);
        auto run = [&](auto ch) {
            using C = decltype(ch);
            std::unique_ptr<C[]> b(new C[units.size() ? units.size() : 1]);
            for (std::size_t i = 0; i < units.size(); ++i) b[i] = static_cast<C>(units[i]);
            uint16_t a[8];
            const auto res = upa::ipv6_parse(b.get(), b.get() + units.size(), a);
            if (res != upa::validation_errc::ok) return std::string("F");
            std::string s;
            for (int i = 0; i < 8; ++i) { if (i) s += ','; s += std::to_string(a[i]); }
            return s;
        };
        uint32_t mx = 0; for (auto u : units) if (u > mx) mx = u;
        const std::string r = run(char32_t());
        if (mx <= 0xFFFF && run(char16_t()) != r) return "WIDTH-DIFF";
        if (mx <= 0xFF && run(char()) != r) return "WIDTH-DIFF";
        return r;
    }
    if (op == "ipv6ser" && t.size() == 2) {
        const auto v = parse_units(t[1]);
        uint16_t a[8] = {};
        for (std::size_t i = 0; i < 8 && i < v.size(); ++i) a[i] = static_cast<uint16_t>(v[i]);
        std::string out;
        upa::ipv6_serialize(a, out);
        return hx(out);
    }
    if (op == "utf" && t.size() == 3) {
        // encoding conversion as every consumer sees it: percent_encode with a set that contains every
        // ASCII code point would hide nothing, but the simplest total observer is url_search_params'
        // make_string for wide input and check_fix_utf8 (through the form parser) for bytes
        const auto units = parse_units(t[2]);
        if (t[1] == "8") {
            std::string s;
            for (auto u : units) s.push_back(static_cast<char>(u));
            upa::url_utf::check_fix_utf8(s);
            return hx(s);
        }
        if (t[1] == "16") {
            std::unique_ptr<char16_t[]> b(new char16_t[units.size() ? units.size() : 1]);
            for (std::size_t i = 0; i < units.size(); ++i) b[i] = static_cast<char16_t>(units[i]);
            return hx(upa::url_utf::to_utf8_string(b.get(), b.get() + units.size()));
        }
        std::unique_ptr<char32_t[]> b(new char32_t[units.size() ? units.size() : 1]);
        for (std::size_t i = 0; i < units.size(); ++i) b[i] = static_cast<char32_t>(units[i]);
        return hx(upa::url_utf::to_utf8_string(b.get(), b.get() + units.size()));
    }
    if (op == "penc" && t.size() == 4) {
        const auto* set = set_of(t[1]);
        if (!set) return "?";
        const auto units = parse_units(t[3]);
        if (t[1] == "component" && (g_line % 2))
            return hx(with_arg(t[2], units, [&](auto&& a) { return upa::encode_url_component(a); }));
        return hx(with_arg(t[2], units, [&](auto&& a) { return upa::percent_encode(a, *set); }));
    }
    if (op == "pencset" && t.size() == 6) {
        // a user-built no-encode set, made at run time through the public constructor: include(from, to), exclude(excl)
        g_set_from = static_cast<uint8_t>(std::strtoul(t[1].c_str(), nullptr, 16));
        g_set_to = static_cast<uint8_t>(std::strtoul(t[2].c_str(), nullptr, 16));
        g_set_excl = static_cast<uint8_t>(std::strtoul(t[3].c_str(), nullptr, 16));
        const upa::code_point_set set(&init_user_set);
        const auto units = parse_units(t[5]);
        return hx(with_arg(t[4], units, [&](auto&& a) { return upa::percent_encode(a, set); }));
    }
    if (op == "buf" && t.size() == 3) return upa_verif_buf::op_buf(t[1], t[2], static_cast<std::string(*)(const char*, std::size_t)>(hx));
    if (op == "sv" && t.size() == 4) {
        // the BUNDLED view, whatever the language mode of this build
        std::string a, b;
        for (auto u : parse_units(t[1])) a.push_back(static_cast<char>(u));
        for (auto u : parse_units(t[2])) b.push_back(static_cast<char>(u));
        return upa_verif_buf::op_sv<upa::str_view<char>>(a, b, t[3], static_cast<std::string(*)(const char*, std::size_t)>(hx));
    }
    if (op == "pdec" && t.size() == 3) {
        const auto units = parse_units(t[2]);
        return hx(with_arg(t[1], units, [&](auto&& a) { return upa::percent_decode(a); }));
    }
    if (op == "host" && t.size() == 3) {
        const auto units = parse_units(t[2]);
        try {
            return with_arg(t[1], units, [&](auto&& a) {
                upa::url_host h(a);
                // special members of url_host: copies and moves carry type and text
                upa::url_host c(h);
                upa::url_host m(std::move(c));
                upa::url_host as("x"); as = h;
                upa::url_host am("y"); am = std::move(as);
                if (m.type() != h.type() || m.to_string() != h.to_string() || am.type() != h.type() || am.to_string() != h.to_string()) return std::string("WIDTH-DIFF url_host copy/move");
                return std::to_string(static_cast<int>(h.type())) + ":" + hx(h.to_string());
            });
        } catch (const upa::url_error&) { return "F"; }
    }
    if (op == "idnahyp" && t.size() == 3) return "hyp=1";   // evaluated on the model side (IDNA oracle) only
    if (op == "cmp" && t.size() == 3) {
        const auto a = parse_units(t[1]), b = parse_units(t[2]);
        std::unique_ptr<char[]> pa(new char[a.size() ? a.size() : 1]), pb(new char[b.size() ? b.size() : 1]);
        for (std::size_t i = 0; i < a.size(); ++i) pa[i] = static_cast<char>(a[i]);
        for (std::size_t i = 0; i < b.size(); ++i) pb[i] = static_cast<char>(b[i]);
        const int r = upa::url_utf::compare_by_code_units(pa.get(), pa.get() + a.size(), pb.get(), pb.get() + b.size());
        return r < 0 ? "-1" : r > 0 ? "1" : "0";
    }
    if (op == "frompath" && t.size() == 4) {
        const auto units = parse_units(t[3]);
        try {
            const upa::url u = with_arg(t[2], units, [&](auto&& a) { return upa::url_from_file_path(a, fmt_of(t[1])); });
            return dump(u);
        } catch (const upa::url_error&) { return "I"; }
    }
    if (op == "rt" && t.size() == 4) {
        // C17: path -> URL -> path -> URL -> path, with the property's predicates evaluated here
        const auto units = parse_units(t[3]);
        const auto fmt = fmt_of(t[1]);
        const bool windows = t[1] == "windows";
        std::string orig;   // the path as UTF-8 (only meaningful when well-formed)
        bool wf = true;
        if (t[2] == "8") { for (auto u : units) orig.push_back(static_cast<char>(u)); std::string f = orig; upa::url_utf::check_fix_utf8(f); wf = f == orig; }
        else if (t[2] == "16") { std::u16string w; for (auto u : units) w.push_back(static_cast<char16_t>(u)); orig = upa::url_utf::to_utf8_string(w.data(), w.data() + w.size()); for (std::size_t i = 0; i < w.size(); ++i) { if (w[i] >= 0xD800 && w[i] <= 0xDFFF) { if (w[i] <= 0xDBFF && i + 1 < w.size() && w[i+1] >= 0xDC00 && w[i+1] <= 0xDFFF) ++i; else wf = false; } } }
        else { std::u32string w; for (auto u : units) { w.push_back(static_cast<char32_t>(u)); if ((u >= 0xD800 && u <= 0xDFFF) || u > 0x10FFFF) wf = false; } orig = upa::url_utf::to_utf8_string(w.data(), w.data() + w.size()); }
        auto shape_ok = [&](const std::string& p) {
            if (p.find('\0') != std::string::npos) return false;
            if (!windows) return !p.empty() && p[0] == '/';
            if (p.find('/') != std::string::npos) return false;
            if (p.size() >= 3 && ((p[0] | 0x20) >= 'a' && (p[0] | 0x20) <= 'z') && p[1] == ':' && p[2] == '\\') return true;   // drive-absolute
            if (p.size() >= 5 && p[0] == '\\' && p[1] == '\\' && p[2] != '\\') {
                if ((p[2] == '.' || p[2] == '?') && p[3] == '\\') return false;   // Win32 namespaces
                return true;   // UNC
            }
            return false;
        };
        std::string out;
        try {
            const upa::url u1 = with_arg(t[2], units, [&](auto&& a) { return upa::url_from_file_path(a, fmt); });
            out = "u1=" + hx(u1.href());
            // injection safety
            bool inj = u1.is_null(upa::url::QUERY) && u1.is_null(upa::url::FRAGMENT) && u1.is_file_scheme() && u1.username().empty() && u1.port().empty();
            preds += inj ? " inj=1" : " inj=0";
            std::string p1;
            // "for every accepted path the round trip reaches a fixed point after one step": the URL just
            // produced must convert back
            try { p1 = upa::path_from_file_url(u1, fmt); } catch (const upa::url_error&) { preds += " fix=0"; return out + " p1=F"; }
            out += " p1=" + hx(p1);
            preds += shape_ok(p1) ? " shape=1" : " shape=0";
            if (!windows && wf) {
                // POSIX paths without '.' segments come back unchanged
                bool dotseg = false;
                std::size_t i = 0;
                while (i <= orig.size()) { std::size_t j = orig.find('/', i); if (j == std::string::npos) j = orig.size(); if (orig.substr(i, j - i) == ".") dotseg = true; i = j + 1; }
                if (!dotseg) preds += p1 == orig ? " rt=1" : " rt=0";
            }
            upa::url u2;
            try { u2 = upa::url_from_file_path(p1, fmt); } catch (const upa::url_error&) { preds += " fix=0"; return out + " u2=F"; }
            out += " u2=" + hx(u2.href());
            std::string p2;
            try { p2 = upa::path_from_file_url(u2, fmt); } catch (const upa::url_error&) { preds += " fix=0"; return out + " p2=F"; }
            out += " p2=" + hx(p2);
            preds += p2 == p1 ? " fix=1" : " fix=0";
            return out;
        } catch (const upa::url_error&) { return "F"; }
    }
    if (op == "topath" && t.size() == 3) {
        const upa::url& u = g_url[std::atoi(t[2].c_str())];
        if (!u.is_valid()) return "0";
        try {
            const std::string p = upa::path_from_file_url(u, fmt_of(t[1]));
            {
                const bool windows = t[1] == "windows";
                bool ok = p.find('\0') == std::string::npos;
                if (!windows) ok = ok && !p.empty() && p[0] == '/';
                else {
                    ok = ok && p.find('/') == std::string::npos;
                    const bool drive = p.size() >= 3 && ((p[0] | 0x20) >= 'a' && (p[0] | 0x20) <= 'z') && p[1] == ':' && p[2] == '\\';
                    const bool unc = p.size() >= 5 && p[0] == '\\' && p[1] == '\\' && p[2] != '\\' && !((p[2] == '.' || p[2] == '?') && p[3] == '\\');
                    ok = ok && (drive || unc);
                }
                preds += ok ? " shape=1" : " shape=0";
            }
            return "1:" + hx(p);
        } catch (const upa::url_error&) { return "0"; }
    }
    if (op == "member" && t.size() == 3) {
        const uint32_t c = static_cast<uint32_t>(std::strtoul(t[2].c_str(), nullptr, 16));
        const auto* set = set_of(t[1]);
        auto q = [&](auto fn8, auto fn16, auto fn32) {
            // query through every character width; all must agree for c < 256, wide only otherwise
            const bool w32 = fn32(static_cast<char32_t>(c));
            if (c < 0x10000) { if (fn16(static_cast<char16_t>(c)) != w32) return std::string("WIDTH-DIFF"); }
            if (c < 0x100) { if (fn8(static_cast<unsigned char>(c)) != w32) return std::string("WIDTH-DIFF"); }
            return std::string(w32 ? "1" : "0");
        };
        if (set) return q([&](unsigned char x) { return upa::detail::is_char_in_set(x, *set); },
                          [&](char16_t x) { return upa::detail::is_char_in_set(x, *set); },
                          [&](char32_t x) { return upa::detail::is_char_in_set(x, *set); });
#define CLS(name, fn) if (t[1] == name) return q([](unsigned char x) { return upa::detail::fn(x); }, [](char16_t x) { return upa::detail::fn(x); }, [](char32_t x) { return upa::detail::fn(x); });
        CLS("fhost", is_forbidden_host_char)
        CLS("fdomain", is_forbidden_domain_char)
        CLS("hex", is_hex_char)
        CLS("ipv4char", is_ipv4_char)
        CLS("scheme", is_scheme_char)
        CLS("asciidomain", is_ascii_domain_char)
        CLS("digit", is_ascii_digit)
        CLS("alpha", is_ascii_alpha)
#undef CLS
        if (t[1] == "encbyte") {
            std::string out;
            const char ch = static_cast<char>(c);
            upa::url_search_params::urlencode(out, upa::string_view(&ch, 1));
            if (out.size() == 1) return std::to_string(static_cast<unsigned char>(out[0]));
            // must be %XX upper-case of the byte
            static const char* d = "0123456789ABCDEF";
            if (out.size() == 3 && out[0] == '%' && out[1] == d[(c >> 4) & 15] && out[2] == d[c & 15]) return "37";
            return "BAD";
        }
        return "?";
    }
    return "?op";
}

int main(int argc, char** argv) {
    std::ios::sync_with_stdio(false);
    static const char* bases[] = {
        "http://example.org/foo/bar?q#f", "https://user:pw@h:8080/a/b/", "file:///C:/dir/file", "file://host/share/x",
        "a://h/p/q?r", "a:/p/q", "a:opaque?x", "a:/.//p", "ws://h/", "ftp://h/x/y"
    };
    for (const char* b : bases) g_bases.emplace_back(b);
    (void)argc; (void)argv;
    std::string line;
    while (std::getline(std::cin, line)) {
        ++g_line;
        alarm(30);   // watchdog: a hang kills the process, the orchestrator sees the truncated transcript
        const auto t = split(line);
        std::string out, preds;
        g_step.clear();
        if (t.empty()) out = "?op";
        else {
            try {
                out = exec(t, preds);
            } catch (const upa::url_error& e) {
                out = std::string("EXC:url_error");
            } catch (const std::exception& e) {
                out = std::string("EXC:") + typeid(e).name();
            }
        }
        std::cout << out;
        if (!preds.empty()) std::cout << " @@" << preds;
        if (!g_step.empty()) std::cout << " %%" << g_step;
        std::cout << '\n';
        std::cout.flush();
    }
    return 0;
}
