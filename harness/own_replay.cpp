
#include "upa/url.h"
#include <iostream>
#include <sstream>
#include <map>
#include <set>
#include <cstdio>
#include <vector>
#include <string>
namespace upa_verif {
struct access {
    static bool has_params(const upa::url& u) { return static_cast<bool>(u.search_params_ptr_); }
    static const upa::url_search_params* params(const upa::url& u) { return u.search_params_ptr_.operator->(); }
    static bool is_sorted(const upa::url_search_params& p) { return p.is_sorted_; }
    static const upa::url* owner(const upa::url_search_params& p) { return p.url_ptr_; }
};
}
using upa_verif::access;
using usp = upa::url_search_params;
static std::map<long, upa::url*> U;
static std::map<long, usp*> P;
static int hv(char c) { return c <= '9' ? c - '0' : c - 'a' + 10; }
static std::string tok(const std::string& s) { if (s == "-") return std::string(); std::string r; for (size_t i = 0; i + 1 < s.size(); i += 2) r += char(hv(s[i]) * 16 + hv(s[i+1])); return r; }
static std::string idU(const upa::url* u) { for (auto& kv : U) if (kv.second == u) return std::to_string(kv.first); return u ? "?" : "-"; }
static std::string idP(const usp* p) { for (auto& kv : P) if (kv.second == p) return std::to_string(kv.first); return p ? "?" : "-"; }
static std::vector<std::string> dump() {
    std::vector<std::string> out;
    for (auto& kv : U) {
        upa::url& u = *kv.second;
        std::string href = u.is_valid() ? std::string(u.href()) : std::string("-");
        if (href.empty()) href = "-";
        out.push_back("S U " + std::to_string(kv.first) + " " + href + " " + (access::has_params(u) ? idP(access::params(u)) : "-"));
    }
    for (auto& kv : P) {
        usp& p = *kv.second;
        std::string l = p.to_string(); if (l.empty()) l = "-";
        out.push_back("S P " + std::to_string(kv.first) + " " + idU(access::owner(p)) + " " + (access::is_sorted(p) ? "1" : "0") + " " + l);
    }
    return out;
}
// where a sanitizer abort happened: the number of the operation being executed (1-based), for the history to replay
static long g_opno = 0;
extern "C" void __sanitizer_set_death_callback(void (*)(void));
static void on_death() { std::fprintf(stderr, "\nDEATH-AT-OP %ld\n", g_opno); std::fflush(stderr); }
int main() {
    __sanitizer_set_death_callback(on_death);
    std::string line; long nops = 0, nbad = 0, nhidden = 0; std::string curop;
    std::set<long> mine;   // params objects this harness allocated itself (owned ones belong to their url)
    std::vector<std::string> expect; std::vector<long> newu, newp, delu, delp;
    upa::url* createdU = nullptr; usp* createdP = nullptr; bool createdMine = false;
    while (std::getline(std::cin, line)) {
        if (line == "RESET") {
            // owned params die with their urls; the harness deletes exactly what it allocated itself
            for (auto& kv : P) if (mine.count(kv.first)) delete kv.second;
            for (auto& kv : U) delete kv.second;
            U.clear(); P.clear(); mine.clear(); continue;
        }
        std::istringstream is(line); std::string w; is >> w;
        if (w == "OP") {
            curop = line; ++nops; g_opno = nops; expect.clear(); newu.clear(); newp.clear(); delu.clear(); delp.clear(); createdU = nullptr; createdP = nullptr; createdMine = true;
            std::string op; is >> op;
            auto rdU = [&]() { long i; is >> i; return U.at(i); };
            auto rdP = [&]() { long i; is >> i; return P.at(i); };
            if (op == "newUrl") createdU = new upa::url();
            else if (op == "newParams") { std::vector<std::pair<std::string,std::string>> v; std::string a, b; while (is >> a >> b) v.emplace_back(tok(a), tok(b)); createdP = new usp(v); }
            else if (op == "urlSearchParams") { auto u = rdU(); createdP = &u->search_params(); createdMine = false; }
            else if (op == "urlCopyConstruct") { auto s = rdU(); createdU = new upa::url(*s); }
            else if (op == "urlCopyAssign") { auto d = rdU(); auto s = rdU(); *d = *s; }
            else if (op == "urlMoveConstruct") { auto s = rdU(); createdU = new upa::url(std::move(*s)); }
            else if (op == "urlMoveAssign") { auto d = rdU(); auto s = rdU(); *d = std::move(*s); }
            else if (op == "urlSafeAssign") { auto d = rdU(); auto s = rdU(); d->safe_assign(std::move(*s)); }
            else if (op == "urlSwap") { auto a = rdU(); auto b = rdU(); a->swap(*b); }
            else if (op == "urlClear") { rdU()->clear(); }
            else if (op == "urlParse") { auto u = rdU(); std::string s, b; is >> s >> b; if (b == "-") u->parse(tok(s)); else u->parse(tok(s), *U.at(std::stol(b))); }
            else if (op == "urlSet") { auto u = rdU(); std::string st, s; is >> st >> s; s = tok(s);
                if (st=="href") u->href(s); else if (st=="protocol") u->protocol(s); else if (st=="username") u->username(s); else if (st=="password") u->password(s);
                else if (st=="host") u->host(s); else if (st=="hostname") u->hostname(s); else if (st=="port") u->port(s); else if (st=="pathname") u->pathname(s);
                else if (st=="search") u->search(s); else if (st=="hash") u->hash(s); }
            else if (op == "urlSearchParamsRvalue") { auto u = rdU(); createdP = new usp(std::move(*u).search_params()); }
            else if (op == "destroyUrl") { long i; is >> i; delete U.at(i); U.erase(i); }
            else if (op == "paramsCopyConstruct") { auto p = rdP(); createdP = new usp(*p); }
            else if (op == "paramsCopyAssign") { auto d = rdP(); auto s = rdP(); *d = *s; }
            else if (op == "paramsMoveConstruct") { auto p = rdP(); createdP = new usp(std::move(*p)); }
            else if (op == "paramsMoveAssign") { auto d = rdP(); auto s = rdP(); *d = std::move(*s); }
            else if (op == "paramsSafeAssign") { auto d = rdP(); auto s = rdP(); d->safe_assign(std::move(*s)); }
            else if (op == "paramsSwap") { auto a = rdP(); auto b = rdP(); a->swap(*b); }
            else if (op == "destroyParams") { long i; is >> i; delete P.at(i); P.erase(i); mine.erase(i); }
            else if (op == "paramsMutate") { auto p = rdP(); std::string m, a, b; is >> m;
                if (m=="append") { is >> a >> b; p->append(tok(a), tok(b)); } else if (m=="set") { is >> a >> b; p->set(tok(a), tok(b)); }
                else if (m=="del") { is >> a; p->del(tok(a)); } else if (m=="remove") { is >> a; p->remove(tok(a)); }
                else if (m=="del2") { is >> a >> b; p->del(tok(a), tok(b)); } else if (m=="remove2") { is >> a >> b; p->remove(tok(a), tok(b)); }
                else if (m=="sort") p->sort(); else if (m=="clear") p->clear(); else if (m=="parse") { is >> a; p->parse(tok(a)); }
                else { std::cout << "UNKNOWN MUT " << line << "\n"; } }
            else std::cout << "UNKNOWN OP " << line << "\n";
        } else if (w == "NEWU") { long i; is >> i; U[i] = createdU; }
        else if (w == "NEWP") { long i; is >> i; P[i] = createdP; if (createdMine) mine.insert(i); }
        else if (w == "DELU") { long i; is >> i; U.erase(i); }
        else if (w == "DELP") { long i; is >> i; P.erase(i); mine.erase(i); }
        else if (w == "S") expect.push_back(line);
        else if (w == "E") {
            auto got = dump();
            if (got != expect) {
                // the cached sorted flag of a params object is hidden state: when nothing else differs, the pointer graph
                // and every public observable agree and only the correspondence of the flag is broken
                auto strip = [](std::vector<std::string> v) {
                    for (auto& l : v) if (l.compare(0, 4, "S P ") == 0) {
                        std::istringstream is(l); std::string a, b, id, owner, sorted, rest; is >> a >> b >> id >> owner >> sorted; std::getline(is, rest);
                        l = a + " " + b + " " + id + " " + owner + " ?" + rest;
                    }
                    return v;
                };
                const bool hidden_only = strip(got) == strip(expect);
                if (hidden_only) ++nhidden; else ++nbad;
                if ((hidden_only ? nhidden : nbad) <= 8) {
                    std::cout << (hidden_only ? "HIDDEN-MISMATCH after " : "MISMATCH after ") << curop << "\n  model:\n";
                    for (auto& l : expect) std::cout << "    " << l << "\n";
                    std::cout << "  c++:\n";
                    for (auto& l : got) std::cout << "    " << l << "\n";
                }
            }
        }
    }
    // free what the last history left alive (as RESET does), so that LeakSanitizer reports only what the library leaks
    for (auto& kv : P) if (mine.count(kv.first)) delete kv.second;
    for (auto& kv : U) delete kv.second;
    U.clear(); P.clear(); mine.clear();
    std::cout << "ops=" << nops << " mismatching states=" << nbad << " hidden-only=" << nhidden << "\n";
    return nbad ? 1 : 0;
}
