// C18 translation-validation driver: the same operation-file protocol as driver.cpp, restricted to the
// public observables (no hooks, no hidden state, no predicates), written in plain C++11 so that it
// builds in every supported configuration: -std=c++11/14/17/20 x NDEBUG on/off x -O0/-O2 x
// {include/+src/, freshly generated single_include/upa/url.h + url.cpp}.  Its transcript must be
// byte-identical to the Lean model's public view for every configuration.
#ifdef UPA_VERIF_AMALGAMATED
# include "url.h"
#else
# include "upa/url.h"
# include "upa/url_host.h"
# include "upa/url_ip.h"
# include "upa/url_percent_encode.h"
# include "upa/url_search_params.h"
#endif
#include "buf_ops.h"
#include <cstdio>
#include <cstdlib>
#include <cstring>
#include <iostream>
#include <sstream>
#include <string>
#include <vector>

static std::string hx(const char* p, std::size_t n) {
    if (n == 0) return "-";
    static const char* d = "0123456789abcdef";
    std::string s;
    for (std::size_t i = 0; i < n; ++i) { unsigned char c = static_cast<unsigned char>(p[i]); s += d[c >> 4]; s += d[c & 15]; }
    return s;
}
static std::string hx(const std::string& s) { return hx(s.data(), s.size()); }
static std::string hx(upa::string_view s) { return hx(s.data(), s.size()); }

// `aidx <what> <i> <j>`: the name argument is a VIEW of the i-th pair's name and the value argument a view of the j-th
// pair's value of the list that is being edited (indices modulo the size): every mutator / query, every position
template <class P>
static bool alias_indexed(P& p, const std::vector<std::string>& t, std::size_t at, std::string& r) {
    if (p.empty()) { r = "0"; return false; }
    const std::size_t n = p.size();
    typename P::const_iterator itn = std::next(p.begin(), static_cast<long>(static_cast<std::size_t>(std::atoi(t[at + 1].c_str())) % n));
    typename P::const_iterator itv = std::next(p.begin(), static_cast<long>(static_cast<std::size_t>(std::atoi(t[at + 2].c_str())) % n));
    const std::string& what = t[at];
    const std::string& nm = itn->first; const std::string& vl = itv->second;
    if (what == "del") p.del(nm);
    else if (what == "del2") p.del(nm, vl);
    else if (what == "remove") r = std::to_string(static_cast<unsigned long>(p.remove(nm)));
    else if (what == "remove2") r = std::to_string(static_cast<unsigned long>(p.remove(nm, vl)));
    else if (what == "set") p.set(nm, vl);
    else if (what == "append") p.append(nm, vl);
    else if (what == "has2") r = p.has(nm, vl) ? "1" : "0";
    else r = "?";
    return what != "has2";
}

static std::vector<unsigned long> parse_units(const std::string& s) {
    std::vector<unsigned long> v;
    if (s == "-") return v;
    std::size_t i = 0;
    while (i <= s.size()) {
        std::size_t j = s.find(',', i);
        if (j == std::string::npos) j = s.size();
        v.push_back(std::strtoul(s.substr(i, j - i).c_str(), nullptr, 16));
        i = j + 1;
    }
    return v;
}
template <class S>
static S mk(const std::vector<unsigned long>& u) {
    S s;
    for (std::size_t i = 0; i < u.size(); ++i) s.push_back(static_cast<typename S::value_type>(u[i]));
    return s;
}
// evaluates EXPR with `a` bound to the argument as std::string / std::u16string / std::u32string
#define WITH(enc, units, EXPR) \
    do { if ((enc) == "16") { const std::u16string a = mk<std::u16string>(units); EXPR; } \
         else if ((enc) == "32") { const std::u32string a = mk<std::u32string>(units); EXPR; } \
         else { const std::string a = mk<std::string>(units); EXPR; } } while (0)
#define WITH2(enc2, units2, EXPR) \
    do { if ((enc2) == "16") { const std::u16string b = mk<std::u16string>(units2); EXPR; } \
         else if ((enc2) == "32") { const std::u32string b = mk<std::u32string>(units2); EXPR; } \
         else { const std::string b = mk<std::string>(units2); EXPR; } } while (0)

#ifndef UPA_VERIF_TLS
# define UPA_VERIF_TLS
#endif
static UPA_VERIF_TLS upa::url g_url[4];
static UPA_VERIF_TLS upa::url_search_params g_params[4];

static std::string public_dump(const upa::url& u) {
    if (!u.is_valid()) return "I";
    std::string s = "V href=" + hx(u.href());
    s += " origin=" + hx(u.origin());
    s += " protocol=" + hx(u.protocol());
    s += " username=" + hx(u.username());
    s += " password=" + hx(u.password());
    s += " host=" + hx(u.host());
    s += " hostname=" + hx(u.hostname());
    s += " port=" + hx(u.port());
    s += " pathname=" + hx(u.pathname());
    s += " search=" + hx(u.search());
    s += " hash=" + hx(u.hash());
    s += " path=" + hx(u.path());
    s += " nulls=";
    s += u.is_null(upa::url::HOST) ? '1' : '0';
    s += u.is_null(upa::url::PORT) ? '1' : '0';
    s += u.is_null(upa::url::QUERY) ? '1' : '0';
    s += u.is_null(upa::url::FRAGMENT) ? '1' : '0';
    s += " ht=" + std::to_string(static_cast<int>(u.host_type()));
    s += " op=";
    s += u.has_opaque_path() ? '1' : '0';
    s += " pi=" + std::to_string(u.port_int()) + " rpi=" + std::to_string(u.real_port_int());
    s += " sf=";
    s += u.is_special_scheme() ? '1' : '0';
    s += u.is_file_scheme() ? '1' : '0';
    s += u.is_http_scheme() ? '1' : '0';
    s += u.has_credentials() ? '1' : '0';
    if (u.to_string() != std::string(u.href().data(), u.href().size()) || u.get_href() != u.href() || u.get_pathname() != u.pathname() || u.get_search() != u.search() || u.get_hash() != u.hash() || u.get_host() != u.host() || u.get_hostname() != u.hostname() || u.get_port() != u.port() || u.get_protocol() != u.protocol() || u.get_username() != u.username() || u.get_password() != u.password() || u.get_path() != u.path() || u.empty()) s += " ALIAS-DIFF";
    return s;
}
static std::string pairs_str(const upa::url_search_params& p) {
    if (p.empty()) return "-";
    std::string s;
    bool first = true;
    for (auto it = p.begin(); it != p.end(); ++it) {
        if (!first) s += ',';
        first = false;
        s += hx(it->first) + ":" + hx(it->second);
    }
    return s;
}
static std::vector<std::string> split(const std::string& line) {
    std::vector<std::string> t;
    std::istringstream is(line);
    std::string w;
    while (is >> w) t.push_back(w);
    return t;
}
static const upa::code_point_set* set_of(const std::string& s) {
    if (s == "fragment") return &upa::fragment_no_encode_set;
    if (s == "query") return &upa::query_no_encode_set;
    if (s == "squery") return &upa::special_query_no_encode_set;
    if (s == "path") return &upa::path_no_encode_set;
    if (s == "rawpath") return &upa::raw_path_no_encode_set;
    if (s == "posixpath") return &upa::posix_path_no_encode_set;
    if (s == "userinfo") return &upa::userinfo_no_encode_set;
    if (s == "component") return &upa::component_no_encode_set;
    return nullptr;
}
static std::string opt_bytes(const std::string* s) { return s ? "1:" + hx(*s) : "0"; }
struct user_pred {
    std::string kind; std::size_t k;
    user_pred(const std::string& kind_, std::size_t k_) : kind(kind_), k(k_) {}
    bool operator()(const upa::url_search_params::value_type& x) const {
        if (kind == "vlen") return x.second.size() == k;
        if (kind == "nlenle") return x.first.size() <= k;
        if (kind == "vfirst") return !x.second.empty() && static_cast<unsigned char>(x.second[0]) == k;
        if (kind == "nlast") return !x.first.empty() && static_cast<unsigned char>(x.first[x.first.size() - 1]) == k;
        return false;
    }
};

static std::string exec(const std::vector<std::string>& t) {
    const std::string& op = t[0];
    if (op == "case") {
        for (int i = 0; i < 4; ++i) { g_url[i] = upa::url(); g_params[i] = upa::url_search_params(); }
        return "case";
    }
    if (op == "parse" && t.size() == 5) {
        const int k = std::atoi(t[1].c_str());
        const std::vector<unsigned long> units = parse_units(t[3]);
        bool ok = false;
        if (t[4] == "-") { WITH(t[2], units, ok = g_url[k].parse(a, nullptr) == upa::validation_errc::ok); }
        else if (t[4][0] == 's') {
            const upa::url* const base = &g_url[std::atoi(t[4].c_str() + 1)];   // may be the target itself
            WITH(t[2], units, ok = g_url[k].parse(a, base) == upa::validation_errc::ok);
        } else {
            const std::size_t c = t[4].find(':');
            const std::string benc = t[4].substr(1, c - 1);
            const std::vector<unsigned long> bunits = parse_units(t[4].substr(c + 1));
            WITH(t[2], units, WITH2(benc, bunits, ok = g_url[k].parse(a, b) == upa::validation_errc::ok));
        }
        return std::string("ok=") + (ok ? "1" : "0") + " " + public_dump(g_url[k]);
    }
    // ---- self-referential arguments (views of the object's own storage), as in driver.cpp
    if (op == "aset" && t.size() == 4) {
        upa::url& u = g_url[std::atoi(t[1].c_str())];
        if (!u.is_valid()) return public_dump(u);
        const std::string& s = t[2];
        const std::string& g = t[3];
        const upa::string_view a = g == "href" ? u.href() : g == "protocol" ? u.protocol() : g == "username" ? u.username() : g == "password" ? u.password() :
            g == "host" ? u.host() : g == "hostname" ? u.hostname() : g == "port" ? u.port() : g == "pathname" ? u.pathname() : g == "search" ? u.search() :
            g == "hash" ? u.hash() : u.path();
        const bool ret = s == "href" ? u.href(a) : s == "protocol" ? u.protocol(a) : s == "username" ? u.username(a) : s == "password" ? u.password(a) :
            s == "host" ? u.host(a) : s == "hostname" ? u.hostname(a) : s == "port" ? u.port(a) : s == "pathname" ? u.pathname(a) :
            s == "search" ? u.search(a) : u.hash(a);
        return std::string("ret=") + (ret ? "1" : "0") + " " + public_dump(u);
    }
    if (op == "aparsebg" && t.size() == 3) {
        upa::url& u = g_url[std::atoi(t[1].c_str())];
        if (!u.is_valid()) return public_dump(u);
        const std::string& g = t[2];
        const upa::string_view a = g == "href" ? u.href() : g == "protocol" ? u.protocol() : g == "pathname" ? u.pathname() : g == "search" ? u.search() :
            g == "hash" ? u.hash() : g == "host" ? u.host() : u.path();
        const bool ok = u.parse(a, &u) == upa::validation_errc::ok;
        return std::string("ok=") + (ok ? "1" : "0") + " " + public_dump(u);
    }
    if (op == "aparsesp" && t.size() == 4) {
        upa::url& u = g_url[std::atoi(t[1].c_str())];
        const std::string* v = nullptr;
        if (u.is_valid()) { const std::vector<unsigned long> units = parse_units(t[3]); WITH(t[2], units, v = u.search_params().get(a)); }
        if (!v) return public_dump(u);
        const bool ok = u.parse(*v, nullptr) == upa::validation_errc::ok;
        return std::string("ok=") + (ok ? "1" : "0") + " " + public_dump(u);
    }
    if (op == "aparse" && t.size() == 2) {
        upa::url& u = g_url[std::atoi(t[1].c_str())];
        if (!u.is_valid()) return public_dump(u);
        const bool ok = u.parse(u.href(), nullptr) == upa::validation_errc::ok;
        return std::string("ok=") + (ok ? "1" : "0") + " " + public_dump(u);
    }
    if (op == "aparseb" && t.size() == 4) {
        upa::url& u = g_url[std::atoi(t[1].c_str())];
        const std::vector<unsigned long> units = parse_units(t[3]);
        bool ok = false;
        WITH(t[2], units, ok = u.parse(a, &u) == upa::validation_errc::ok);
        return std::string("ok=") + (ok ? "1" : "0") + " " + public_dump(u);
    }
    if (op == "set" && t.size() == 5) {
        const int k = std::atoi(t[1].c_str());
        const std::vector<unsigned long> units = parse_units(t[4]);
        const std::string& s = t[2];
        upa::url& u = g_url[k];
        bool ret = false;
        if (s == "href") WITH(t[3], units, ret = u.href(a));
        else if (s == "protocol") WITH(t[3], units, ret = u.protocol(a));
        else if (s == "username") WITH(t[3], units, ret = u.username(a));
        else if (s == "password") WITH(t[3], units, ret = u.password(a));
        else if (s == "host") WITH(t[3], units, ret = u.host(a));
        else if (s == "hostname") WITH(t[3], units, ret = u.hostname(a));
        else if (s == "port") WITH(t[3], units, ret = u.port(a));
        else if (s == "pathname") WITH(t[3], units, ret = u.pathname(a));
        else if (s == "search") WITH(t[3], units, ret = u.search(a));
        else WITH(t[3], units, ret = u.hash(a));
        return std::string("ret=") + (ret ? "1" : "0") + " " + public_dump(u);
    }
    if (op == "dump" && t.size() == 2) return public_dump(g_url[std::atoi(t[1].c_str())]);
    if (op == "probe") return "probe";
    if ((op == "psp" || op == "sp") && t.size() >= 3) {
        const int k = std::atoi(t[1].c_str());
        upa::url_search_params& p = op == "sp" ? g_url[k].search_params() : g_params[k];
        const std::string& o = t[2];
        const std::string e0 = t.size() > 3 ? t[3] : "8", e1 = t.size() > 5 ? t[5] : "8";
        const std::vector<unsigned long> a0 = parse_units(t.size() > 4 ? t[4] : "-"), a1 = parse_units(t.size() > 6 ? t[6] : "-");
        std::string r = "-";
        if (o == "new") p = upa::url_search_params();
        else if (o == "get") {}
        else if (o == "ctor") WITH(e0, a0, p = upa::url_search_params(a));
        else if (o == "parse") WITH(e0, a0, p.parse(a));
        else if (o == "append") WITH(e0, a0, WITH2(e1, a1, p.append(a, b)));
        else if (o == "set") WITH(e0, a0, WITH2(e1, a1, p.set(a, b)));
        else if (o == "del") WITH(e0, a0, p.del(a));
        else if (o == "del2") WITH(e0, a0, WITH2(e1, a1, p.del(a, b)));
        else if (o == "remove") WITH(e0, a0, r = std::to_string(static_cast<unsigned long>(p.remove(a))));
        else if (o == "remove2") WITH(e0, a0, WITH2(e1, a1, r = std::to_string(static_cast<unsigned long>(p.remove(a, b)))));
        else if (o == "removeif") r = std::to_string(static_cast<unsigned long>(p.remove_if(user_pred(t.size() > 3 ? t[3] : std::string("-"), static_cast<std::size_t>(std::strtoul(t.size() > 4 ? t[4].c_str() : "0", nullptr, 10))))));
        else if (o == "has") WITH(e0, a0, r = p.has(a) ? "1" : "0");
        else if (o == "has2") WITH(e0, a0, WITH2(e1, a1, r = p.has(a, b) ? "1" : "0"));
        else if (o == "getv") WITH(e0, a0, r = opt_bytes(p.get(a)));
        else if (o == "getall") {
            std::list<std::string> l;
            WITH(e0, a0, l = p.get_all(a));
            r.clear();
            for (auto it = l.begin(); it != l.end(); ++it) { if (!r.empty()) r += ','; r += hx(*it); }
            if (l.empty()) r = "-";
        }
        else if (o == "sort") p.sort();
        else if (o == "clear") p.clear();
        else if (o == "selfsafea") { if (op == "sp") { upa::url_search_params& q = p; p.safe_assign(std::move(q)); } else { upa::url_search_params& q = p; p = std::move(q); r = std::to_string(p.size()); } }
        else if (o == "aparse") { const std::string* v = nullptr; WITH(e0, a0, v = p.get(a)); if (v) p.parse(*v); else r = "0"; }
        else if (o == "aappend") { if (p.empty()) r = "0"; else p.append(p.begin()->first, p.begin()->second); }
        else if (o == "aset") { if (p.empty()) r = "0"; else p.set(p.begin()->first, std::prev(p.end())->second); }
        else if (o == "aset2") { if (p.empty()) r = "0"; else p.set(std::prev(p.end(), p.size() >= 2 ? 2 : 1)->first, p.begin()->second); }
        else if (o == "aidx" && t.size() == 6) alias_indexed(p, t, 3, r);
        else if (o == "adel") { if (p.empty()) r = "0"; else p.del(std::prev(p.end(), p.size() >= 2 ? 2 : 1)->first); }
        else if (o == "adel2") { if (p.empty()) r = "0"; else p.del(std::prev(p.end())->first, std::prev(p.end())->second); }
        else if (o == "size") r = std::to_string(p.size());
        else if (o == "str") r = op == "sp" ? hx(p.to_string()) : std::string("?");   // psp: driver.cpp has no "str" (str= is part of every psp answer)
        else if (o == "copy") p = g_params[std::atoi(t[3].c_str())];
        else if (o == "assign") p = g_params[std::atoi(t[3].c_str())];
        else if (o == "safea") p.safe_assign(std::move(g_params[std::atoi(t[3].c_str())]));
        else if (o == "fromurl" && !g_url[std::atoi(t[3].c_str())].is_valid()) r = "?";
        else if (o == "fromurl") { upa::url_search_params c(g_url[std::atoi(t[3].c_str())].search_params()); p = c; c.append("copy", "edited"); c.sort(); }
        else r = "?";
        if (op == "sp" && !g_url[k].is_valid()) r = "?";
        if (op == "sp") return "r=" + r + " " + public_dump(g_url[k]) + (g_url[k].is_valid() ? " sp=" + pairs_str(p) : std::string(" sp=?"));
        return "r=" + r + " sp=" + pairs_str(p) + " str=" + hx(p.to_string());
    }
    if (op == "obj" && t.size() == 4) {
        const int d = std::atoi(t[2].c_str()), s = std::atoi(t[3].c_str());
        const std::string& o = t[1];
        if (o == "clear") g_url[d].clear();
        else if (d == s) {
            upa::url& x = g_url[d];
            upa::url& y = g_url[s];
            if (o == "copya") x = y;
            else if (o == "movea") x = std::move(y);
            else if (o == "swap") { using std::swap; swap(x, y); }
            else if (o == "safea") x.safe_assign(std::move(y));
        }
        else if (d != s) {
            if (o == "copya" || o == "copyc") g_url[d] = g_url[s];
            else if (o == "movea" || o == "movec") g_url[d] = std::move(g_url[s]);
            else if (o == "swap") { using std::swap; swap(g_url[d], g_url[s]); }
            else if (o == "safea") g_url[d].safe_assign(std::move(g_url[s]));
        }
        return "d=" + public_dump(g_url[d]) + " s=" + public_dump(g_url[s]);
    }
    // ---- file path conversions (C17's API, compared across configurations by C18)
    if (op == "frompath" && t.size() == 4) {
        const std::vector<unsigned long> units = parse_units(t[3]);
        const upa::file_path_format fmt = t[1] == "windows" ? upa::file_path_format::windows : upa::file_path_format::posix;
        try {
            upa::url u;
            WITH(t[2], units, u = upa::url_from_file_path(a, fmt));
            return public_dump(u);
        } catch (const upa::url_error&) { return "I"; }
    }
    if (op == "topath" && t.size() == 3) {
        const upa::url& u = g_url[std::atoi(t[2].c_str())];
        if (!u.is_valid()) return "0";
        try {
            return "1:" + hx(upa::path_from_file_url(u, t[1] == "windows" ? upa::file_path_format::windows : upa::file_path_format::posix));
        } catch (const upa::url_error&) { return "0"; }
    }
    if (op == "ipv4" && t.size() == 2) {
        const std::u32string s = mk<std::u32string>(parse_units(t[1]));
        uint32_t v = 0;
        return upa::ipv4_parse(s.data(), s.data() + s.size(), v) == upa::validation_errc::ok ? std::to_string(v) : std::string("F");
    }
    if (op == "ends" && t.size() == 2) {
        const std::u32string s = mk<std::u32string>(parse_units(t[1]));
        return upa::hostname_ends_in_a_number(s.data(), s.data() + s.size()) ? "1" : "0";
    }
    if (op == "ipv4ser" && t.size() == 2) { std::string out; upa::ipv4_serialize(static_cast<uint32_t>(std::strtoul(t[1].c_str(), nullptr, 10)), out); return hx(out); }
    if (op == "ipv6" && t.size() == 2) {
        const std::u32string s = mk<std::u32string>(parse_units(t[1]));
        uint16_t a[8];
        if (upa::ipv6_parse(s.data(), s.data() + s.size(), a) != upa::validation_errc::ok) return "F";
        std::string r;
        for (int i = 0; i < 8; ++i) { if (i) r += ','; r += std::to_string(a[i]); }
        return r;
    }
    if (op == "ipv6ser" && t.size() == 2) {
        const std::vector<unsigned long> v = parse_units(t[1]);
        uint16_t a[8] = {};
        for (std::size_t i = 0; i < 8 && i < v.size(); ++i) a[i] = static_cast<uint16_t>(v[i]);
        std::string out; upa::ipv6_serialize(a, out); return hx(out);
    }
    if (op == "penc" && t.size() == 4) {
        const upa::code_point_set* set = set_of(t[1]);
        if (!set) return "?";
        std::string r;
        WITH(t[2], parse_units(t[3]), r = upa::percent_encode(a, *set));
        return hx(r);
    }
    if (op == "buf" && t.size() == 3) return upa_verif_buf::op_buf(t[1], t[2], static_cast<std::string(*)(const char*, std::size_t)>(hx));
    if (op == "sv" && t.size() == 4) {
        // the view this configuration uses: bundled str_view (C++11/14) or std::string_view (C++17/20)
        std::string a, b;
        { const std::vector<unsigned long> ua = parse_units(t[1]); for (std::size_t i = 0; i < ua.size(); ++i) a.push_back(static_cast<char>(ua[i])); }
        { const std::vector<unsigned long> ub = parse_units(t[2]); for (std::size_t i = 0; i < ub.size(); ++i) b.push_back(static_cast<char>(ub[i])); }
        return upa_verif_buf::op_sv<upa::string_view>(a, b, t[3], static_cast<std::string(*)(const char*, std::size_t)>(hx));
    }
    if (op == "pdec" && t.size() == 3) { std::string r; WITH(t[1], parse_units(t[2]), r = upa::percent_decode(a)); return hx(r); }
    if (op == "host" && t.size() == 3) {
        try {
            std::string r;
            WITH(t[1], parse_units(t[2]), { upa::url_host h(a); r = std::to_string(static_cast<int>(h.type())) + ":" + hx(h.to_string()); });
            return r;
        } catch (const upa::url_error&) { return "F"; }
    }
    if (op == "member" && t.size() == 3) {
        const unsigned long c = std::strtoul(t[2].c_str(), nullptr, 16);
        const upa::code_point_set* set = set_of(t[1]);
        const char32_t w = static_cast<char32_t>(c);
        if (set) return upa::detail::is_char_in_set(w, *set) ? "1" : "0";
        if (t[1] == "fhost") return upa::detail::is_forbidden_host_char(w) ? "1" : "0";
        if (t[1] == "fdomain") return upa::detail::is_forbidden_domain_char(w) ? "1" : "0";
        if (t[1] == "hex") return upa::detail::is_hex_char(w) ? "1" : "0";
        if (t[1] == "ipv4char") return upa::detail::is_ipv4_char(w) ? "1" : "0";
        if (t[1] == "scheme") return upa::detail::is_scheme_char(w) ? "1" : "0";
        if (t[1] == "asciidomain") return upa::detail::is_ascii_domain_char(w) ? "1" : "0";
        if (t[1] == "digit") return upa::detail::is_ascii_digit(w) ? "1" : "0";
        if (t[1] == "alpha") return upa::detail::is_ascii_alpha(w) ? "1" : "0";
        if (t[1] == "encbyte") {
            std::string out; const char ch = static_cast<char>(c);
            upa::url_search_params::urlencode(out, upa::string_view(&ch, 1));
            return out.size() == 1 ? std::to_string(static_cast<unsigned char>(out[0])) : std::string("37");
        }
        return "?";
    }
    return "skip";
}

#ifndef UPA_VERIF_NO_MAIN
// ---- C18: observations made DURING STATIC INITIALISATION.  This translation unit comes first on the link line, so the
// object below (defined last in it) is constructed before any namespace-scope object of the library's own translation
// units: whatever the library initialises dynamically in SOME configuration (a table filled by a constructor, a
// constant computed by a non-constexpr function) is still zero here.  The same script is run again from main() and the
// two transcripts must be identical: a program with a namespace-scope upa::url sees the same library as one that
// parses in main(), in every language mode.
static std::string early_units(const std::string& bytes) {
    if (bytes.empty()) return "-";
    static const char* d = "0123456789abcdef";
    std::string s;
    for (std::size_t i = 0; i < bytes.size(); ++i) { unsigned char c = static_cast<unsigned char>(bytes[i]); if (i) s += ','; if (c >> 4) s += d[c >> 4]; s += d[c & 15]; }
    return s;
}
static std::string early_line(const std::string& fmt, const std::string& a = std::string(), const std::string& b = std::string()) {
    std::string r;
    for (std::size_t i = 0; i < fmt.size(); ++i) { if (fmt[i] == '$') r += early_units(a); else if (fmt[i] == '&') r += early_units(b); else r += fmt[i]; }
    return r;
}
static std::string early_script() {
    std::vector<std::string> L;
    L.push_back("case");
    const char* urls[] = { "HTTP://Example.COM:80/a/../b?q#f", "https://EX%41MPLE.org:443/%7Ex/./y", "ws://H:80/x y", "wss://h:443/?a b", "ftp://u:p@H:21/a;type=i",
        "file:///C|/dir/../x", "file://LocalHost/etc", "foo://H:80/a/../b", "foo:opaque path ?q#f", "http://0x7f.1/", "http://[1:0:0:2::3]:81/", "http://b\xC3\xBC" "cher.example/\xF0\x9F\x98\x80?\xF0\x9F\x98\x80#\xC3\xA4",
        "http://xn--bcher-kva.example./", "http://a b/", "http:/\\h\\p", "  \tjavascript:alert(1)  ", "blob:https://example.org:443/uuid", "http://h/%2e%2E/%2e/x", "http://1.2.3.4.5/", "http://256.1/" };
    for (std::size_t i = 0; i < sizeof(urls) / sizeof(urls[0]); ++i) {
        L.push_back(early_line("parse 0 8 $ -", urls[i]));
        L.push_back(early_line("parse 1 8 $ s0", "../c?d#e"));
        L.push_back("dump 1");
    }
    L.push_back(early_line("parse 0 8 $ -", "http://example.org/p?a=1&b=2#f"));
    const char* sets[][2] = { {"protocol", "WSS"}, {"host", "H\xC3\x84.example:443"}, {"port", "80"}, {"pathname", "/a b/\xF0\x9F\x98\x80/../c"}, {"search", "?x y=\xF0\x9F\x98\x80&'"},
        {"hash", "#\xC3\xA4 `"}, {"username", "u:@/"}, {"password", "p w"}, {"hostname", "0x10.0.0.1"}, {"href", "FILE:///c:/x"}, {"protocol", "http"} };
    for (std::size_t i = 0; i < sizeof(sets) / sizeof(sets[0]); ++i) L.push_back(early_line(std::string("set 0 ") + sets[i][0] + " 8 $", sets[i][1]));
    L.push_back(early_line("parse 0 8 $ -", "http://h/?b=2&a=1"));
    L.push_back("sp 0 get");
    L.push_back(early_line("sp 0 append 8 $ 8 &", "\xF0\x9F\x98\x80 k", "\xEF\xBC\xA1~*-._ +%&=\x7F\x80\xFF"));
    L.push_back("sp 0 sort");
    L.push_back("dump 0");
    std::string all; for (int c = 1; c < 256; ++c) all += static_cast<char>(c);
    L.push_back(early_line("psp 0 ctor 8 $", "a=" + all.substr(0, 0x25) + all.substr(0x26, 0x5A)));
    L.push_back(early_line("psp 0 append 8 $ 8 &", "n", all));
    L.push_back("psp 0 str");
    const char* encsets[] = { "fragment", "query", "squery", "path", "rawpath", "posixpath", "userinfo", "component" };
    for (std::size_t i = 0; i < sizeof(encsets) / sizeof(encsets[0]); ++i) L.push_back(early_line(std::string("penc ") + encsets[i] + " 8 $", all));
    L.push_back(early_line("pdec 8 $", "%41%zz%C3%A4%FF%"));
    const char* members[] = { "fragment", "query", "squery", "path", "rawpath", "posixpath", "userinfo", "component", "fhost", "fdomain", "hex", "ipv4char", "scheme", "asciidomain", "digit", "alpha", "encbyte" };
    for (std::size_t i = 0; i < sizeof(members) / sizeof(members[0]); ++i)
        for (int c = 0; c < 256; c += 1) { char b[8]; std::snprintf(b, sizeof b, "%x", c); L.push_back(std::string("member ") + members[i] + " " + b); }
    L.push_back(early_line("ipv4 $", "0x7f.0.0.1")); L.push_back(early_line("ipv4 $", "1.2.3.256"));
    L.push_back(early_line("ipv6 $", "1:2::3:4.5.6.7")); L.push_back("ipv6ser 1,0,0,0,2,0,0,3"); L.push_back("ipv4ser 2130706433");
    L.push_back(early_line("host 8 $", "EX\xC3\x84MPLE.com")); L.push_back(early_line("host 8 $", "[::1.2.3.4]")); L.push_back(early_line("host 8 $", "a%00b"));
    L.push_back(early_line("frompath posix 8 $", "/a b/%41/\xC3\xA4?#")); L.push_back(early_line("frompath windows 8 $", "\\\\srv\\share\\x|y"));
    L.push_back(early_line("parse 0 8 $ -", "file:///C:/a%20b/x")); L.push_back("topath windows 0"); L.push_back("topath posix 0");
    std::string out;
    for (std::size_t i = 0; i < L.size(); ++i) {
        std::string r;
        try { r = exec(split(L[i])); }
        catch (const upa::url_error&) { r = "EXC:url_error"; }
        catch (const std::exception& e) { r = std::string("EXC:") + typeid(e).name(); }
        out += L[i] + " => " + r + "\n";
    }
    exec(split("case"));
    return out;
}
struct EarlyObs { std::string text; EarlyObs() : text(early_script()) {} };
static EarlyObs g_early;   // LAST namespace-scope object of the first translation unit on the link line

int main(int argc, char** argv) {
    std::ios::sync_with_stdio(false);
    if (argc > 1 && std::string(argv[1]) == "--early-dump") { std::cout << g_early.text; return 0; }
    if (argc > 1 && std::string(argv[1]) == "--early") {
        const std::string late = early_script();
        std::size_t n = 0, i = 0, j = 0; int bad = 0;
        while (i < late.size() || j < g_early.text.size()) {
            std::size_t e1 = late.find('\n', i), e2 = g_early.text.find('\n', j);
            if (e1 == std::string::npos) e1 = late.size();
            if (e2 == std::string::npos) e2 = g_early.text.size();
            const std::string a = late.substr(i, e1 - i), b = g_early.text.substr(j, e2 - j);
            ++n;
            if (a != b && bad++ < 3) std::cout << "EARLY-DIFF from main(): " << a.substr(0, 400) << "\n           static init: " << b.substr(0, 400) << "\n";
            i = e1 + 1; j = e2 + 1;
        }
        std::cout << "early operations=" << n << " differing=" << bad << "\n";
        return bad ? 1 : 0;
    }
    std::string line;
    while (std::getline(std::cin, line)) {
        const std::vector<std::string> t = split(line);
        std::string out;
        if (t.empty()) out = "skip";
        else {
            try { out = exec(t); }
            catch (const upa::url_error&) { out = "EXC:url_error"; }
            catch (const std::exception& e) { out = std::string("EXC:") + typeid(e).name(); }
        }
        std::cout << out << '\n';
    }
    return 0;
}
#endif
