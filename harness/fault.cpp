// C20 harness (fault enumeration): for each operation of a representative set and each n = 1, 2, ...
// the run in which the n-th `operator new` allocation INSIDE the operation fails, until the operation
// completes untouched.  Checked under ASan/LSan: exception class, no leak, href / safe_assign
// all-or-nothing (target bit-identical to its snapshot: public + hidden state + params list), every
// object involved still destroyable, copyable, assignable and re-parsable with correct results.
// Allocations inside ICU are not injected (ICU does not use the global operator new).
// Output: one line per (operation, n); a line starting with FAULT-VIOLATION is a property violation.
#include "upa/url.h"
#include "upa/url_host.h"
#include "upa/url_percent_encode.h"
#include "upa/url_search_params.h"

#include <cstdio>
#include <cstdlib>
#include <functional>
#include <iostream>
#include <new>
#include <sstream>
#include <string>
#include <vector>

namespace upa_verif {
struct access {
    static const std::string& norm(const upa::url& u) { return u.norm_url_; }
    static std::size_t part_end(const upa::url& u, int i) { return u.part_end_[i]; }
    static unsigned flags(const upa::url& u) { return u.flags_; }
    static std::size_t seg(const upa::url& u) { return u.path_segment_count_; }
    static const void* scheme(const upa::url& u) { return u.scheme_inf_; }
    static int scheme_index(const upa::url& u) { return u.scheme_inf_ ? static_cast<int>(u.scheme_inf_ - upa::url::kSchemes) : -1; }
    static bool has_params(const upa::url& u) { return static_cast<bool>(u.search_params_ptr_); }
    static const upa::url_search_params& params(const upa::url& u) { return *u.search_params_ptr_; }
    static bool is_sorted(const upa::url_search_params& p) { return p.is_sorted_; }
    static const upa::url* owner(const upa::url_search_params& p) { return p.url_ptr_; }
};
}
using upa_verif::access;

// ---- allocation failure injection
static long g_countdown = -1;      // < 0: disabled; otherwise the number of allocations still allowed
static long g_allocs = 0;          // allocations seen while enabled
static bool g_fired = false;

static void* alloc_or_fail(std::size_t n) {
    if (g_countdown >= 0) {
        ++g_allocs;
        if (g_countdown == 0) { g_fired = true; g_countdown = -1; throw std::bad_alloc(); }
        --g_countdown;
    }
    void* p = std::malloc(n ? n : 1);
    if (!p) throw std::bad_alloc();
    return p;
}
void* operator new(std::size_t n) { return alloc_or_fail(n); }
void* operator new[](std::size_t n) { return alloc_or_fail(n); }
void operator delete(void* p) noexcept { std::free(p); }
void operator delete[](void* p) noexcept { std::free(p); }
void operator delete(void* p, std::size_t) noexcept { std::free(p); }
void operator delete[](void* p, std::size_t) noexcept { std::free(p); }

struct Window {
    explicit Window(long n) { g_allocs = 0; g_fired = false; g_countdown = n; }
    ~Window() { g_countdown = -1; }
};

// ---- state snapshots (taken outside the fault window)
static std::string snap(const upa::url& u) {
    std::ostringstream s;
    s << access::norm(u) << '|';
    for (int i = 0; i < upa::url::PART_COUNT; ++i) s << access::part_end(u, i) << ',';
    s << '|' << access::flags(u) << '|' << access::seg(u) << '|' << access::scheme(u) << '|';
    if (access::has_params(u)) {
        const auto& p = access::params(u);
        s << "sp" << access::is_sorted(p) << (access::owner(p) == &u ? "own" : "FOREIGN");
        for (const auto& nv : p) s << '[' << nv.first << '=' << nv.second << ']';
    } else s << "nosp";
    return s.str();
}

// "no memory is corrupted": whatever a non-atomic operation managed to do before the failure, the stored
// representation must be well formed (offsets ascending and inside the string, zeros only for never-started
// trailing parts) and every getter must return a view inside the serialization
static std::string consistent(const upa::url& u) {
    const std::string& norm = access::norm(u);
    const std::size_t n = norm.size();
    std::size_t prev = 0;
    bool zeros = false;
    for (int i = 0; i < upa::url::PART_COUNT; ++i) {
        const std::size_t e = access::part_end(u, i);
        if (e == 0 && (i > 0 || n == 0)) { zeros = true; continue; }
        if (zeros && e != 0) return "offset table: part " + std::to_string(i) + " started after a never-started part";
        if (e < prev) return "offset table: part " + std::to_string(i) + " ends at " + std::to_string(e) + " before its predecessor " + std::to_string(prev);
        if (e > n) return "offset table: part " + std::to_string(i) + " ends at " + std::to_string(e) + " beyond the string (" + std::to_string(n) + ")";
        prev = e;
    }
    const upa::string_view views[] = { u.href(), u.protocol(), u.username(), u.password(), u.host(), u.hostname(), u.port(), u.path(), u.pathname(), u.search(), u.hash() };
    int k = 0;
    for (const auto& v : views) {
        // sizes are compared, not pointer sums (a wrapped-around size must not wrap the test as well)
        if (v.size() && (v.size() > n || v.data() < norm.data() || static_cast<std::size_t>(v.data() - norm.data()) > n - v.size())) return "getter " + std::to_string(k) + " returns a view outside the serialization (size " + std::to_string(v.size()) + ")";
        ++k;
    }
    return "";
}

// every object must remain usable with correct results
static std::string usable(upa::url& u) {
    try {
        upa::url c(u);                       // copy
        upa::url d; d = u;                   // assign from
        if (c.href() != u.href() || d.href() != u.href()) return "copy differs";
        upa::url e("http://e/");
        u = e;                               // assign to
        if (u.href() != upa::string_view("http://e/", 9)) return "assign-to wrong";
        if (u.parse("https://re.parse/a/../b?x#y", nullptr) != upa::validation_errc::ok) return "re-parse fails";
        if (u.href() != upa::string_view("https://re.parse/b?x#y", 22) || u.pathname() != upa::string_view("/b", 2) || access::seg(u) != 1) return "re-parse wrong";
        if (access::has_params(u)) {
            const auto& p = access::params(u);
            if (p.size() != 1 || p.begin()->first != "x" || access::owner(p) != &u) return "params after re-parse wrong";
        }
        u.clear();
        if (u.is_valid() || !u.empty()) return "clear wrong";
    } catch (const std::exception& e) {
        return std::string("exception while checking usability: ") + e.what();
    }
    return "";
}

struct Op {
    std::string name;
    bool atomic;                                   // href / safe_assign: all-or-nothing
    std::function<void(upa::url&, upa::url&)> prepare;   // outside the window
    std::function<void(upa::url&, upa::url&)> run;       // inside the window
};

int main(int argc, char** argv) {
    const int level = argc > 1 ? std::atoi(argv[1]) : 0;   // 0 quick, 1 thorough (more arguments per operation)
    std::vector<std::string> urls = { "http://user:pw@example.org:8080/a/b/c?q=1&r=2#frag", "non-spec:opaque path  ", "file:///C:/dir/file", "https://xn--bcher-kva.de/%7Efoo/../bar?x#y" };
    std::vector<std::string> longs = { std::string("http://h/") + std::string(100, 'p') + "?" + std::string(100, 'q') + "#" + std::string(100, 'f'), std::string("https://") + std::string(80, 'h') + ".example/" };
    if (level) { urls.push_back("ws://[1:2:3:4:5:6:7:8]:81/p?a=b&c=d&e=f"); urls.push_back("blob:https://h:8/" + std::string(64, 'x')); urls.push_back("a:/.//p?" + std::string(40, 'k') + "=v"); }
    std::vector<Op> ops;
    auto both = [&](const std::string& a, const std::string& b, bool spa, bool spb) {
        return [=](upa::url& x, upa::url& y) { x.parse(a, nullptr); y.parse(b, nullptr); if (spa) x.search_params(); if (spb) y.search_params(); };
    };
    for (const auto& a : urls) for (const auto& l : longs) {
        for (int spa = 0; spa < 2; ++spa) {
            ops.push_back({ "href(" + l.substr(0, 24) + "...) on " + a.substr(0, 20) + (spa ? " +sp" : ""), true, both(a, l, spa != 0, false), [=](upa::url& x, upa::url&) { x.href(l); } });
            for (int spb = 0; spb < 2; ++spb)
                ops.push_back({ std::string("safe_assign") + (spa ? " dst+sp" : "") + (spb ? " src+sp" : "") + " " + a.substr(0, 16) + " <- " + l.substr(0, 16), true, both(a, l, spa != 0, spb != 0), [](upa::url& x, upa::url& y) { x.safe_assign(std::move(y)); } });
        }
        // the target is EMPTY (never parsed / failed parse / cleared) but owns a params object that still holds a list:
        // all-or-nothing includes that list
        ops.push_back({ "href(" + l.substr(0, 24) + "...) on an empty url with a stale params list", true,
            [=](upa::url& x, upa::url& y) { y.parse(l, nullptr); x.search_params().append("stale", std::string(30, 's')); x.search_params().append("k", "v"); },
            [=](upa::url& x, upa::url&) { x.href(l); } });
        ops.push_back({ "href(" + l.substr(0, 24) + "...) after a failed parse, params object present", true,
            [=](upa::url& x, upa::url& y) { y.parse(l, nullptr); x.parse(a, nullptr); x.search_params(); x.parse("http://a b/", nullptr); },
            [=](upa::url& x, upa::url&) { x.href(l); } });
        ops.push_back({ "safe_assign into an empty url with a stale params list <- " + l.substr(0, 16), true,
            [=](upa::url& x, upa::url& y) { y.parse(l, nullptr); x.search_params().append("stale", std::string(30, 's')); },
            [](upa::url& x, upa::url& y) { x.safe_assign(std::move(y)); } });
        ops.push_back({ "parse(" + l.substr(0, 24) + "...) into " + a.substr(0, 20), false, both(a, l, true, false), [=](upa::url& x, upa::url&) { x.parse(l, nullptr); } });
        ops.push_back({ "parse relative against " + a.substr(0, 20), false, both(l, a, false, false), [=](upa::url& x, upa::url& y) { x.parse(std::string("../") + std::string(60, 'r') + "?" + std::string(60, 's'), &y); } });
        ops.push_back({ "copy assign " + a.substr(0, 16), false, both(a, l, true, true), [](upa::url& x, upa::url& y) { x = y; } });
        ops.push_back({ "copy construct+swap " + a.substr(0, 16), false, both(a, l, true, false), [](upa::url& x, upa::url& y) { upa::url c(y); using std::swap; swap(x, c); } });
        ops.push_back({ "move assign " + a.substr(0, 16), false, both(a, l, true, true), [](upa::url& x, upa::url& y) { x = std::move(y); } });
        ops.push_back({ "swap " + a.substr(0, 16), false, both(a, l, true, false), [](upa::url& x, upa::url& y) { using std::swap; swap(x, y); } });
    }
    const std::string big(120, 'v');
    for (const auto& a : urls) {
        ops.push_back({ "protocol on " + a.substr(0, 20), false, both(a, a, false, false), [](upa::url& x, upa::url&) { x.protocol("https"); x.protocol("wss"); } });
        ops.push_back({ "username on " + a.substr(0, 20), false, both(a, a, false, false), [=](upa::url& x, upa::url&) { x.username(big); } });
        ops.push_back({ "password on " + a.substr(0, 20), false, both(a, a, false, false), [=](upa::url& x, upa::url&) { x.password(big + "\xC3\xA4"); } });
        ops.push_back({ "host on " + a.substr(0, 20), false, both(a, a, true, false), [=](upa::url& x, upa::url&) { x.host(big + ".b\xC3\xBC" "cher.example:81"); } });
        ops.push_back({ "hostname on " + a.substr(0, 20), false, both(a, a, false, false), [=](upa::url& x, upa::url&) { x.hostname("[1::2]"); x.hostname(big); } });
        ops.push_back({ "port on " + a.substr(0, 20), false, both(a, a, false, false), [](upa::url& x, upa::url&) { x.port("65535"); x.port(""); } });
        ops.push_back({ "pathname on " + a.substr(0, 20), false, both(a, a, true, false), [=](upa::url& x, upa::url&) { x.pathname("/" + big + "/../" + big + "/./x y"); } });
        ops.push_back({ "search on " + a.substr(0, 20), false, both(a, a, true, false), [=](upa::url& x, upa::url&) { x.search("?" + big + "=1&b=2&" + big + "=3"); } });
        ops.push_back({ "hash on " + a.substr(0, 20), false, both(a, a, false, false), [=](upa::url& x, upa::url&) { x.hash(big + " `"); x.hash(""); } });
        ops.push_back({ "search_params() first use " + a.substr(0, 20), false, both(a, a, false, false), [](upa::url& x, upa::url&) { x.search_params(); } });
        ops.push_back({ "sp append/set/sort/del " + a.substr(0, 20), false, both(a, a, true, false), [=](upa::url& x, upa::url&) { auto& p = x.search_params(); p.append(big, u"\u00e4" + std::u16string(40, u'w')); p.set("q", big); p.sort(); p.del("r"); p.parse("z=1&y=2"); } });
        ops.push_back({ "sp assign " + a.substr(0, 20), false, both(a, a, true, false), [=](upa::url& x, upa::url&) { upa::url_search_params q("a=1&" + big + "=2"); x.search_params() = q; x.search_params().safe_assign(std::move(q)); } });
        ops.push_back({ "origin " + a.substr(0, 20), false, both(a, a, false, false), [](upa::url& x, upa::url&) { (void)x.origin(); } });
        ops.push_back({ "path_from_file_url " + a.substr(0, 20), false, both(a, a, false, false), [](upa::url& x, upa::url&) { try { (void)upa::path_from_file_url(x, upa::file_path_format::windows); } catch (const upa::url_error&) {} } });
    }
    for (const std::string a : { "http://example.org/", "non-spec://h/p?q#f", "https://h:8/p" }) {
        ops.push_back({ "username on credential-less " + a, false, both(a, a, false, false), [=](upa::url& x, upa::url&) { x.username(big); } });
        ops.push_back({ "password on credential-less " + a, false, both(a, a, true, false), [=](upa::url& x, upa::url&) { x.password(big); } });
        ops.push_back({ "port on port-less " + a, false, both(a, a, false, false), [=](upa::url& x, upa::url&) { x.port("12345"); } });
    }
    for (const std::string a : { "foo:/p", "foo:/.//p?q", "foo:/a/b#f" }) {
        ops.push_back({ "host on host-less " + a, false, both(a, a, false, false), [=](upa::url& x, upa::url&) { x.host(big); } });
        ops.push_back({ "pathname //x on host-less " + a, false, both(a, a, false, false), [=](upa::url& x, upa::url&) { x.pathname("//" + big); } });
    }
    ops.push_back({ "url_host", false, both("a:b", "a:b", false, false), [=](upa::url&, upa::url&) { try { upa::url_host h(big + ".b\xC3\xBC" "cher.de"); (void)h.to_string(); } catch (const upa::url_error&) {} } });
    ops.push_back({ "percent_encode/decode", false, both("a:b", "a:b", false, false), [=](upa::url&, upa::url&) { (void)upa::percent_decode(upa::percent_encode(big + " \xC3\xA4%", upa::component_no_encode_set)); (void)upa::encode_url_component(u"\u00e4 b"); } });
    ops.push_back({ "url_from_file_path", false, both("a:b", "a:b", false, false), [=](upa::url&, upa::url&) { try { (void)upa::url_from_file_path("/" + big + "/x y", upa::file_path_format::posix); (void)upa::url_from_file_path("C:\\" + big, upa::file_path_format::windows); } catch (const upa::url_error&) {} } });
    ops.push_back({ "throwing ctor with string base", false, both("a:b", "a:b", false, false), [=](upa::url&, upa::url&) { try { upa::url u("../" + big, "http://h/" + big + "/"); (void)u; } catch (const upa::url_error&) {} } });
    for (const std::string inp : { std::string("web+application:data"), std::string("view-source-xx:///p"), std::string(1100, 'a') + "\t:x", std::string("http://") + std::string(1100, 'h') + ".example/" })
        ops.push_back({ "can_parse(" + inp.substr(0, 24) + ")", false, both("a:b", "a:b", false, false), [=](upa::url&, upa::url&) { (void)upa::url::can_parse(inp); (void)upa::url::can_parse(inp, "view-source-long-scheme://h/"); } });
    ops.push_back({ "can_parse", false, both("a:b", "a:b", false, false), [=](upa::url&, upa::url&) { (void)upa::url::can_parse("http://" + big + ".b\xC3\xBC.de/", "http://h/"); } });
    ops.push_back({ "standalone params", false, both("a:b", "a:b", false, false), [=](upa::url&, upa::url&) { upa::url_search_params p("b=2&a=1&" + big + "=3"); p.append("k", big); p.sort(); upa::url_search_params q(p); q = p; (void)q.to_string(); (void)p.get_all("a"); } });

    // ---- single setter calls whose post-failure state is replayed on the exception-aware operational model
    // (Impl/SetRepExc.lean `failStates`): the raw representation after EVERY injected failure is printed
    struct SetCase { std::string url, setter, value; };
    std::vector<SetCase> set_cases;
    {
        const std::vector<std::string> surls = { "http://example.org/", "https://u:p@h:81/a/b?q#f", "foo:/p", "foo:/.//p?q", "foo://h", "foo://h#f", "file:///C:/x", "non-spec:opaque  ?q", "http://h/?a=1#frag" };
        const std::string l40(40, 'v'), l64(64, 'w');
        const std::vector<std::pair<std::string, std::string>> calls = {
            { "username", l64 }, { "password", l40 }, { "host", l40 + ".example" }, { "host", "h:8080" }, { "hostname", "" }, { "port", "12345" }, { "port", "" },
            { "pathname", "//" + l40 }, { "pathname", "/" + l40 + "/../" + l40 }, { "search", l64 }, { "search", "" }, { "hash", l64 }, { "hash", "" }, { "protocol", "wss" }, { "protocol", "foo-bar-baz-" + l40 } };
        for (const auto& u : surls) for (const auto& c : calls) set_cases.push_back({ u, c.first, c.second });
        if (!level) { std::vector<SetCase> q; for (std::size_t i = 0; i < set_cases.size(); i += 2) q.push_back(set_cases[i]); set_cases.swap(q); }
    }
    auto raw_state = [](const upa::url& u) {
        static const char* d = "0123456789abcdef";
        std::string s;
        for (unsigned char c : access::norm(u)) { s += d[c >> 4]; s += d[c & 15]; }
        if (s.empty()) s = "-";
        s += " ";
        for (int i = 0; i < upa::url::PART_COUNT; ++i) { if (i) s += ','; s += std::to_string(access::part_end(u, i)); }
        s += " " + std::to_string(access::flags(u)) + " " + std::to_string(access::seg(u)) + " " + std::to_string(access::scheme_index(u));
        return s;
    };
    auto units_of = [](const std::string& v) { std::string r; static const char* d = "0123456789abcdef"; for (unsigned char c : v) { if (!r.empty()) r += ','; if (c >> 4) r += d[c >> 4]; r += d[c & 15]; } return r.empty() ? std::string("-") : r; };
    long fail_states = 0;
    std::size_t sci = 0;
    for (const auto& sc : set_cases) {
        // every other case works on a COPY of the parsed url: its string has no reserve (capacity == size), so the edit
        // itself must allocate and the failure lands after the first in-place writes, not before them
        const bool on_copy = (sci++ % 2) == 1;
        for (long n = 0; n < 400; ++n) {
            upa::url parsed;
            parsed.parse(sc.url, nullptr);
            upa::url* x = on_copy ? new upa::url(parsed) : new upa::url(std::move(parsed));
            const std::string before = raw_state(*x);
            bool threw = false;
            {
                Window w(n);
                try {
                    if (sc.setter == "username") x->username(sc.value); else if (sc.setter == "password") x->password(sc.value); else if (sc.setter == "host") x->host(sc.value);
                    else if (sc.setter == "hostname") x->hostname(sc.value); else if (sc.setter == "port") x->port(sc.value); else if (sc.setter == "pathname") x->pathname(sc.value);
                    else if (sc.setter == "search") x->search(sc.value); else if (sc.setter == "hash") x->hash(sc.value); else x->protocol(sc.value);
                } catch (const std::bad_alloc&) { threw = true; } catch (const std::length_error&) { threw = true; }
            }
            const bool fired = g_fired;
            if (threw) { const std::string c0 = consistent(*x); if (!c0.empty()) std::cout << "FAULT-VIOLATION op=set [" << sc.setter << " on " << sc.url << "] n=" << n << " outcome=bad_alloc: target corrupted: " << c0 << "\n"; }
            if (threw) { ++fail_states; std::cout << "FAILSTATE set " << sc.setter << " 8 " << units_of(sc.value) << " " << n << " | " << before << " | " << raw_state(*x) << "\n"; }
            delete x;
            if (!fired) break;
        }
    }
    std::cout << "FAILSTATES " << fail_states << "\n";

    // ---- F19: a parse that fails at ANY allocation (the rebuild of the search parameters included) leaves either the
    // url untouched-and-consistent or EMPTY; a VALID url must list exactly the pairs of its query.
    // ---- F20: after a failed copy assignment of a parameter list, sort() must still sort.
    long extra_violations = 0, extra_points = 0;
    {
        const std::string big(40, 'z');
        const std::vector<std::pair<std::string, std::string>> pcases = {
            { "http://old.example/?a=1", "http://new.example/?first=1&second=" + big },
            { "http://old.example/?a=1&b=2", "https://n/?" + big + "=" + big + "&k=v&" + big + "2=3" },
            { "", "http://new.example/?x=" + big + "&y=2" },
            { "foo:/p?q", "foo://h/?a=" + big } };
        for (const auto& pc : pcases) {
            for (long n = 0; n < 400; ++n) {
                upa::url* x = new upa::url();
                if (!pc.first.empty()) x->parse(pc.first, nullptr);
                (void)x->search_params();                       // the params object exists
                if (pc.first.empty()) x->search_params().append("stale", "1");
                bool threw = false;
                { Window w(n); try { x->parse(pc.second, nullptr); } catch (const std::bad_alloc&) { threw = true; } catch (const std::length_error&) { threw = true; } }
                const bool fired = g_fired;
                ++extra_points;
                std::string problem;
                if (x->is_valid()) {
                    upa::url_search_params expect(x->search());
                    auto& got = x->search_params();
                    auto i1 = expect.begin(); auto i2 = got.begin();
                    bool same = expect.size() == got.size();
                    for (; same && i1 != expect.end(); ++i1, ++i2) same = i1->first == i2->first && i1->second == i2->second;
                    if (!same) problem = "valid url whose parameter list is not the list of its query (" + std::string(x->search()) + " vs " + got.to_string() + ")";
                } else if (!x->empty()) problem = "invalid url that is not empty";
                if (threw && x->is_valid() && std::string(x->href()) != pc.first) problem = problem.empty() ? std::string("parse threw but the url is valid with a new value") : problem;
                if (!problem.empty()) { ++extra_violations; std::cout << "FAULT-VIOLATION op=parse-lockstep [" << pc.first << " <- " << pc.second.substr(0, 40) << "] n=" << n << " outcome=" << (threw ? "bad_alloc" : "completed") << ": " << problem << "\n"; }
                delete x;
                if (!fired) break;
            }
        }
        const std::vector<std::pair<std::string, std::string>> ccases = {
            { "a=1&b=2&c=3", big + "=1&" + std::string(40, 'y') + "=2&" + std::string(40, 'x') + "=3" },
            { "k=1&l=2", "zz" + big + "=1&b=2&" + big + "=3&a=4" } };
        for (const auto& cc : ccases) {
            for (int owned = 0; owned < 2; ++owned) for (long n = 0; n < 400; ++n) {
                upa::url holder; holder.parse("http://h/?" + cc.first, nullptr);
                upa::url_search_params standalone(cc.first);
                upa::url_search_params& dst = owned ? holder.search_params() : standalone;
                dst.sort();                                    // flagged sorted
                const upa::url_search_params src(cc.second);
                bool threw = false;
                { Window w(n); try { dst = src; } catch (const std::bad_alloc&) { threw = true; } catch (const std::length_error&) { threw = true; } }
                const bool fired = g_fired;
                ++extra_points;
                dst.sort();
                std::string prev; bool first = true, sorted = true;
                for (const auto& kv : dst) { if (!first && kv.first < prev) sorted = false; prev = kv.first; first = false; }
                if (!sorted) { ++extra_violations; std::cout << "FAULT-VIOLATION op=sort-after-failed-copy [" << cc.first << " = " << cc.second.substr(0, 30) << (owned ? " owned" : " standalone") << "] n=" << n << " outcome=" << (threw ? "bad_alloc" : "completed") << ": sort() left the list unsorted: " << dst.to_string() << "\n"; }
                if (!fired) break;
            }
        }
        std::cout << "EXTRA failure_points=" << extra_points << " violations=" << extra_violations << "\n";
    }

    long violations = 0, points = 0;
    for (std::size_t oi = 0; oi < ops.size(); ++oi) {
        const Op& op = ops[oi];
        for (long n = 0; n < 4000; ++n) {
            upa::url* x = new upa::url();
            upa::url* y = new upa::url();
            op.prepare(*x, *y);
            const std::string before = snap(*x);
            std::string outcome;
            bool threw = false;
            {
                Window w(n);
                try { op.run(*x, *y); outcome = "completed"; }
                catch (const std::bad_alloc&) { threw = true; outcome = "bad_alloc"; }
                catch (const std::length_error&) { threw = true; outcome = "length_error"; }
                catch (const std::exception& e) { threw = true; outcome = std::string("FOREIGN ") + typeid(e).name(); }
            }
            const bool fired = g_fired;
            ++points;
            std::string problem;
            if (outcome.compare(0, 7, "FOREIGN") == 0) problem = "exception class " + outcome;
            if (threw && !fired) problem = "exception without injected failure: " + outcome;
            if (problem.empty() && threw && op.atomic && snap(*x) != before) problem = "target changed although the operation did not complete";
            if (problem.empty() && x->is_valid() && access::has_params(*x) && access::owner(access::params(*x)) != x) problem = "params owner wrong";
            if (problem.empty()) { const std::string c1 = consistent(*x); if (!c1.empty()) problem = "target corrupted: " + c1; }
            if (problem.empty()) { const std::string c2 = consistent(*y); if (!c2.empty()) problem = "source corrupted: " + c2; }
            if (problem.empty()) { const std::string u1 = usable(*x); if (!u1.empty()) problem = "target unusable: " + u1; }
            if (problem.empty()) { const std::string u2 = usable(*y); if (!u2.empty()) problem = "source unusable: " + u2; }
            delete x; delete y;
            if (!problem.empty()) {
                ++violations;
                std::cout << "FAULT-VIOLATION op=" << oi << " [" << op.name << "] n=" << n << " outcome=" << outcome << ": " << problem << "\n";
            } else if (level > 1) {
                std::cout << "point op=" << oi << " n=" << n << " " << outcome << "\n";
            }
            if (!fired) break;   // the operation completed without reaching the n-th allocation
        }
    }
    std::cout << "SUMMARY operations=" << ops.size() << " failure_points=" << points << " violations=" << violations << "\n";
    return 0;   // leaks are reported by LSan at exit (non-zero exit code)
}
