// Observes how the current src/url_idna.cpp drives ICU (linked against the shimmed object):
//   options <word>           the options passed to uidna_openUTS46
//   fatal <mask>             the UIDNAInfo.errors bits that make domain_to_ascii fail
//   empty_fatal <0/1>        an empty result is a failure
//   overflow_retry <0/1> <calls>   U_BUFFER_OVERFLOW_ERROR is retried with the reported length and succeeds
#include "upa/url_idna.h"
#include "upa/buffer.h"
#include <unicode/uidna.h>
#include <cstdio>
#include <cstring>

static uint32_t g_options = 0;
static uint32_t g_inject_errors = 0;
static int g_mode = 0;   // 0 normal "ab", 1 empty output, 2 overflow first
static int g_calls = 0;

extern "C" UIDNA* upa_shim_openUTS46(uint32_t options, UErrorCode* err) {
    g_options = options;
    return uidna_openUTS46(options, err);
}
extern "C" int32_t upa_shim_nameToASCII(const UIDNA*, const UChar*, int32_t, UChar* dest, int32_t capacity, UIDNAInfo* info, UErrorCode* err) {
    ++g_calls;
    info->errors = g_inject_errors;
    if (g_mode == 1) return 0;
    if (g_mode == 2) {
        const int32_t need = 5000;
        if (capacity < need) { *err = U_BUFFER_OVERFLOW_ERROR; return need; }
        for (int32_t i = 0; i < need; ++i) dest[i] = 'a';
        return need;
    }
    if (capacity >= 2) { dest[0] = 'a'; dest[1] = 'b'; }
    return 2;
}

int main() {
    const char16_t src[] = u"ab";
    {
        upa::simple_buffer<char16_t> out;
        upa::domain_to_ascii(src, 2, out);
        std::printf("options %u\n", g_options);
    }
    uint32_t fatal = 0;
    for (int bit = 0; bit < 32; ++bit) {
        g_inject_errors = 1u << bit;
        upa::simple_buffer<char16_t> out;
        if (upa::domain_to_ascii(src, 2, out) != upa::validation_errc::ok) fatal |= 1u << bit;
    }
    g_inject_errors = 0;
    std::printf("fatal %u\n", fatal);
    {
        g_mode = 1;
        upa::simple_buffer<char16_t> out;
        std::printf("empty_fatal %d\n", upa::domain_to_ascii(src, 2, out) != upa::validation_errc::ok ? 1 : 0);
    }
    {
        g_mode = 2; g_calls = 0;
        upa::simple_buffer<char16_t> out;
        const bool ok = upa::domain_to_ascii(src, 2, out) == upa::validation_errc::ok && out.size() == 5000;
        std::printf("overflow_retry %d %d\n", ok ? 1 : 0, g_calls);
    }
    std::printf("icu_ignored_expected %u\n", (unsigned)(UIDNA_ERROR_EMPTY_LABEL | UIDNA_ERROR_LABEL_TOO_LONG | UIDNA_ERROR_DOMAIN_NAME_TOO_LONG | UIDNA_ERROR_LEADING_HYPHEN | UIDNA_ERROR_TRAILING_HYPHEN | UIDNA_ERROR_HYPHEN_3_4));
    std::printf("icu_options_expected %u\n", (unsigned)(UIDNA_CHECK_BIDI | UIDNA_CHECK_CONTEXTJ | UIDNA_NONTRANSITIONAL_TO_ASCII | UIDNA_NONTRANSITIONAL_TO_UNICODE));
    return 0;
}
