// Operations `buf` and `sv` of the line protocol: the real upa::simple_buffer<char, N> and the string view the
// configuration uses (upa::string_view: the bundled upa::str_view in C++11/14 builds, std::string_view from C++17 on),
// executed as the formal models Upa/Impl/SimpleBuffer.lean (`runBufLine`) and Upa/Impl/StrView.lean (`runSvLine`)
// execute them.  C++11; included by driver.cpp and cfg_driver.cpp (both define hx(const char*, size_t)).
//
//   buf <N> <op;op;...>   N in {0,1,2,4,16,1024}; ops: i<dec> (first only: construct with initial capacity), p<2 hex> push_back,
//                         a<hex> append, r<dec> resize + zero-fill of the newly exposed cells through data(), v<dec> reserve,
//                         c clear, k pop_back (skipped when empty)
//                         -> "buf" then " <size>/<capacity>" per op, then " data=<hex|->"
//   sv <hexA|-> <hexB|-> <k>
//                         -> "sv cmp=<-1|0|1> eq=<0|1> pre=<hex|->" suf=<hex|->"  (a after remove_prefix / remove_suffix of min(k, size))
#ifndef UPA_VERIF_BUF_OPS_H
#define UPA_VERIF_BUF_OPS_H
// (the amalgamated single header already contains both; it is included by the driver before this file)
#ifndef UPA_VERIF_AMALGAMATED
# include "upa/buffer.h"
# include "upa/str_view.h"
#endif
#include <cstdlib>
#include <cstring>
#include <new>
#include <stdexcept>
#include <string>
#include <vector>

namespace upa_verif_buf {

inline std::vector<std::string> split_semi(const std::string& s) {
    std::vector<std::string> r; std::string cur;
    for (std::size_t i = 0; i <= s.size(); ++i) {
        if (i == s.size() || s[i] == ';') { if (!cur.empty()) r.push_back(cur); cur.clear(); }
        else cur.push_back(s[i]);
    }
    return r;
}
inline int hexv(char c) { return c <= '9' ? c - '0' : (c | 0x20) - 'a' + 10; }
inline std::string hexbytes(const std::string& s) {
    std::string r;
    for (std::size_t i = 0; i + 1 < s.size(); i += 2) r.push_back(static_cast<char>(hexv(s[i]) * 16 + hexv(s[i + 1])));
    return r;
}
inline std::string sizecap(std::size_t n, std::size_t c) { return " " + std::to_string(n) + "/" + std::to_string(c); }

template <std::size_t N>
std::string run_buf(const std::vector<std::string>& toks, std::string (*hexfn)(const char*, std::size_t)) {
    std::string out = "buf";
    std::size_t first = 0;
    std::size_t init_cap = 0; bool have_init = false;
    if (!toks.empty() && toks[0][0] == 'i') { init_cap = std::strtoull(toks[0].c_str() + 1, nullptr, 10); have_init = true; first = 1; }
    // the two constructors are different code paths; the object lives in a union-free way: build one of two locals
    struct Runner {
        static void go(upa::simple_buffer<char, N>& b, const std::vector<std::string>& toks, std::size_t first, std::string& out) {
            for (std::size_t i = first; i < toks.size(); ++i) {
                const std::string& t = toks[i];
                try {
                    switch (t[0]) {
                    case 'p': b.push_back(static_cast<char>(hexv(t[1]) * 16 + hexv(t[2]))); break;
                    case 'a': { const std::string bytes = hexbytes(t.substr(1)); b.append(bytes.data(), bytes.data() + bytes.size()); break; }
                    case 'r': { const std::size_t n = std::strtoull(t.c_str() + 1, nullptr, 10); const std::size_t old = b.size();
                                b.resize(n); if (n > old) std::memset(b.data() + old, 0, n - old); break; }
                    case 'v': b.reserve(std::strtoull(t.c_str() + 1, nullptr, 10)); break;
                    case 'c': b.clear(); break;
                    case 'k': if (!b.empty()) b.pop_back(); break;
                    default: break;
                    }
                    out += sizecap(b.size(), b.capacity());
                } catch (const std::length_error&) { out += " !length_error"; }
                  catch (const std::bad_alloc&) { out += " !bad_alloc"; }
            }
        }
    };
    if (have_init) {
        upa::simple_buffer<char, N> b(init_cap);
        out += sizecap(b.size(), b.capacity());
        Runner::go(b, toks, first, out);
        out += " data=" + hexfn(b.data(), b.size());
    } else {
        upa::simple_buffer<char, N> b;
        Runner::go(b, toks, first, out);
        out += " data=" + hexfn(b.data(), b.size());
    }
    return out;
}

inline std::string op_buf(const std::string& n, const std::string& ops, std::string (*hexfn)(const char*, std::size_t)) {
    const std::vector<std::string> toks = split_semi(ops == "-" ? std::string() : ops);
    const unsigned long N = std::strtoul(n.c_str(), nullptr, 10);
    switch (N) {
    case 0: return run_buf<0>(toks, hexfn);
    case 1: return run_buf<1>(toks, hexfn);
    case 2: return run_buf<2>(toks, hexfn);
    case 4: return run_buf<4>(toks, hexfn);
    case 16: return run_buf<16>(toks, hexfn);
    case 1024: return run_buf<1024>(toks, hexfn);
    default: return "BAD";
    }
}

// View = the view type under test (the bundled upa::str_view<char> in the main harness whatever the language mode;
// upa::string_view — whichever the configuration selects — in the configuration driver)
template <class View>
std::string op_sv(const std::string& a, const std::string& b, const std::string& ks, std::string (*hexfn)(const char*, std::size_t)) {
    const View va(a.data(), a.size());
    const View vb(b.data(), b.size());
    const int c = va.compare(vb);
    const std::size_t k0 = std::strtoull(ks.c_str(), nullptr, 10);
    const std::size_t k = k0 < va.size() ? k0 : va.size();
    View p = va; p.remove_prefix(k);
    View s = va; s.remove_suffix(k);
    return std::string("sv cmp=") + (c < 0 ? "-1" : c > 0 ? "1" : "0") + " eq=" + ((va == vb) ? "1" : "0") +
        " pre=" + hexfn(p.data(), p.size()) + " suf=" + hexfn(s.data(), s.size());
}

} // namespace upa_verif_buf
#endif
