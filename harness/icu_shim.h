/* Force-included in front of src/url_idna.cpp (gen_idna): renames the two ICU entry points the library
   uses to recording / error-injecting wrappers, so that the options word and the fatal-error mask the
   CURRENT tree really passes can be observed by running it. */
#include <unicode/uidna.h>
#ifdef __cplusplus
extern "C" {
#endif
UIDNA* upa_shim_openUTS46(uint32_t options, UErrorCode* err);
int32_t upa_shim_nameToASCII(const UIDNA* idna, const UChar* name, int32_t length, UChar* dest, int32_t capacity, UIDNAInfo* info, UErrorCode* err);
#ifdef __cplusplus
}
#endif
#undef uidna_openUTS46
#define uidna_openUTS46 upa_shim_openUTS46
#undef uidna_nameToASCII
#define uidna_nameToASCII upa_shim_nameToASCII
