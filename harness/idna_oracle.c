/* Independent IDNA oracle for the Lean driver: the URL Standard's "domain to ASCII" with beStrict =
   false, i.e. UTS #46 ToASCII with CheckBidi, CheckJoiners, non-transitional, UseSTD3ASCIIRules off,
   CheckHyphens off, VerifyDnsLength off; an empty result is a failure.  It shares no code with
   /repo/src/url_idna.cpp.  Input: UTF-16LE code units; output: byte 1 + ASCII on success, byte 0. */
#include <lean/lean.h>
#include <unicode/uidna.h>
#include <stdlib.h>
#include <string.h>
LEAN_EXPORT lean_obj_res upa_idna_oracle(b_lean_obj_arg inp) {
  static UIDNA* u = NULL;
  UErrorCode err = U_ZERO_ERROR;
  if (!u) u = uidna_openUTS46(UIDNA_CHECK_BIDI | UIDNA_CHECK_CONTEXTJ | UIDNA_NONTRANSITIONAL_TO_ASCII | UIDNA_NONTRANSITIONAL_TO_UNICODE, &err);
  size_t n = lean_sarray_size(inp) / 2;
  const uint8_t* p = lean_sarray_cptr(inp);
  UChar* src = (UChar*)malloc((n + 1) * sizeof(UChar));
  for (size_t i = 0; i < n; i++) src[i] = (UChar)(p[2 * i] | (p[2 * i + 1] << 8));
  int32_t cap = (int32_t)(n * 8 + 64);
  UChar* dst = (UChar*)malloc(cap * sizeof(UChar));
  UIDNAInfo info = UIDNA_INFO_INITIALIZER;
  err = U_ZERO_ERROR;
  int32_t len = uidna_nameToASCII(u, src, (int32_t)n, dst, cap, &info, &err);
  /* errors the Standard ignores with beStrict = false (CheckHyphens = false, VerifyDnsLength = false) */
  uint32_t ignored = UIDNA_ERROR_EMPTY_LABEL | UIDNA_ERROR_LABEL_TOO_LONG | UIDNA_ERROR_DOMAIN_NAME_TOO_LONG |
                     UIDNA_ERROR_LEADING_HYPHEN | UIDNA_ERROR_TRAILING_HYPHEN | UIDNA_ERROR_HYPHEN_3_4;
  int ok = U_SUCCESS(err) && err != U_STRING_NOT_TERMINATED_WARNING + 1000 && (info.errors & ~ignored) == 0 && len > 0 && len <= cap;
  lean_obj_res r = lean_alloc_sarray(1, ok ? (size_t)len + 1 : 1, ok ? (size_t)len + 1 : 1);
  uint8_t* q = lean_sarray_cptr(r);
  q[0] = ok ? 1 : 0;
  if (ok) for (int32_t i = 0; i < len; i++) q[i + 1] = (uint8_t)dst[i];
  free(src); free(dst);
  return r;
}
