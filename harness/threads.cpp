// C19 harness: N threads, each running whole cases of the operation file on THREAD-PRIVATE objects
// (the state of cfg_driver.cpp made thread_local).  All threads are released by a barrier into their
// first IDNA conversion (cold start: the process has not touched ICU before), then run their share of
// the cases.  Output: the per-line answers in the original order; they must equal the sequential
// transcript.  Built with -fsanitize=thread: a data race makes the process exit with code 66.
#define UPA_VERIF_TLS thread_local
#define UPA_VERIF_NO_MAIN
#include "cfg_driver.cpp"
#include <atomic>
#include <thread>

int main(int argc, char** argv) {
    const int nthreads = argc > 1 ? std::atoi(argv[1]) : 8;
    const bool warm = argc > 2 && std::atoi(argv[2]) != 0;   // with a prior warm-up call on the main thread
    std::vector<std::string> lines;
    std::string line;
    while (std::getline(std::cin, line)) lines.push_back(line);
    // cases
    std::vector<std::pair<std::size_t, std::size_t> > cases;
    std::size_t start = 0;
    for (std::size_t i = 1; i <= lines.size(); ++i) {
        if (i == lines.size() || lines[i] == "case") { cases.push_back(std::make_pair(start, i)); start = i; }
    }
    std::vector<std::string> out(lines.size());
    if (warm) { try { upa::url_host h(std::string("b\xC3\xBC" "cher.de")); (void)h; } catch (...) {} }
    std::atomic<int> ready(0);
    std::atomic<bool> go(false);
    std::vector<std::thread> th;
    std::vector<std::string> first(nthreads);
    for (int t = 0; t < nthreads; ++t) {
        th.emplace_back([&, t]() {
            ready.fetch_add(1);
            while (!go.load(std::memory_order_acquire)) {}
            // first IDNA conversion of this thread, concurrent with all others
            try { upa::url_host h(std::string("b\xC3\xBC" "cher.de")); first[t] = h.to_string(); } catch (...) { first[t] = "EXC"; }
            for (std::size_t c = static_cast<std::size_t>(t); c < cases.size(); c += static_cast<std::size_t>(nthreads)) {
                for (std::size_t i = cases[c].first; i < cases[c].second; ++i) {
                    const std::vector<std::string> tk = split(lines[i]);
                    try { out[i] = tk.empty() ? std::string("skip") : exec(tk); }
                    catch (const upa::url_error&) { out[i] = "EXC:url_error"; }
                    catch (const std::exception& e) { out[i] = std::string("EXC:") + typeid(e).name(); }
                }
            }
        });
    }
    while (ready.load() < nthreads) {}
    go.store(true, std::memory_order_release);
    for (auto& x : th) x.join();
    for (int t = 0; t < nthreads; ++t) if (first[t] != "xn--bcher-kva.de") { std::cout << "FIRST-IDNA-WRONG thread " << t << " got " << first[t] << "\n"; }
    for (std::size_t i = 0; i < out.size(); ++i) std::cout << out[i] << '\n';
    return 0;
}
