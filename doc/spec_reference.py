# NOT part of the verification machinery. Design-phase artefact: an executable rendering of
# doc/SPEC-NOTES.md (URL Standard snapshot 2023-09-27) written to validate the notes against the
# library before they are transcribed into Lean (Upa/Spec). On three generated operation files
# (~106 000 parses with 12 fixed + generated bases and setter histories, well-formed UTF-8, hosts
# through ICU ToASCII via ctypes) it agreed with the unchanged library on every case; an injected
# error (default port not elided) produced 1 381 mismatches. Kept as the audit reference for Spec.
#
# Throwaway transcription of doc/SPEC-NOTES.md (URL Standard snapshot 2023-09-27) to validate the notes
import ctypes, sys
# ---------- ICU ToASCII oracle
_icu=ctypes.CDLL('libicuuc.so.72')
class UIDNAInfo(ctypes.Structure): _fields_=[('size',ctypes.c_int16),('isTD',ctypes.c_int8),('r3',ctypes.c_int8),('errors',ctypes.c_uint32),('r2',ctypes.c_int32),('r3b',ctypes.c_int32)]
_icu.uidna_openUTS46_72.restype=ctypes.c_void_p; _icu.uidna_openUTS46_72.argtypes=[ctypes.c_uint32,ctypes.POINTER(ctypes.c_int)]
_err=ctypes.c_int(0); _h=_icu.uidna_openUTS46_72(4|8|0x10|0x20,ctypes.byref(_err))
_icu.uidna_nameToASCII_72.restype=ctypes.c_int32
_icu.uidna_nameToASCII_72.argtypes=[ctypes.c_void_p,ctypes.c_void_p,ctypes.c_int32,ctypes.c_void_p,ctypes.c_int32,ctypes.POINTER(UIDNAInfo),ctypes.POINTER(ctypes.c_int)]
def to_ascii(s):  # s: str of scalar values
    u=s.encode('utf-16-le'); n=len(u)//2; buf=ctypes.create_string_buffer(2*(n*8+64)); info=UIDNAInfo(size=16); err=ctypes.c_int(0)
    r=_icu.uidna_nameToASCII_72(_h,u,n,buf,n*8+64,ctypes.byref(info),ctypes.byref(err))
    if err.value>0 or (info.errors & ~(1|2|4|8|0x10|0x20)): return None
    if r==0: return None
    return buf.raw[:2*r].decode('utf-16-le')
# ---------- sets
def c0(c): return c<=0x1F or c>0x7E
def s_frag(c): return c0(c) or c in (0x20,0x22,0x3C,0x3E,0x60)
def s_query(c): return c0(c) or c in (0x20,0x22,0x23,0x3C,0x3E)
def s_squery(c): return s_query(c) or c==0x27
def s_path(c): return s_query(c) or c in (0x3F,0x60,0x7B,0x7D)
def s_user(c): return s_path(c) or c in (0x2F,0x3A,0x3B,0x3D,0x40,0x5B,0x5C,0x5D,0x5E,0x7C)
def pe(c,inset):  # c: int scalar
    if not inset(c): return chr(c)
    return ''.join('%%%02X'%b for b in chr(c).encode('utf-8'))
def pes(s,inset): return ''.join(pe(ord(ch),inset) for ch in s)
FORB_HOST=set([0,9,0xA,0xD,0x20,0x23,0x2F,0x3A,0x3C,0x3E,0x3F,0x40,0x5B,0x5C,0x5D,0x5E,0x7C])
def forb_domain(c): return c in FORB_HOST or c<=0x1F or c==0x25 or c==0x7F
SPECIAL={'ftp':21,'file':None,'http':80,'https':443,'ws':80,'wss':443}
HEX='0123456789abcdefABCDEF'
def pct_decode(b):
    out=bytearray(); i=0
    while i<len(b):
        if b[i]==0x25 and i+2<len(b)+0 and i+2<=len(b)-1 and chr(b[i+1]) in HEX and chr(b[i+2]) in HEX: out.append(int(b[i+1:i+3],16)); i+=3
        else: out.append(b[i]); i+=1
    return bytes(out)
# ---------- IPv4 / IPv6
def ipv4_number(s):
    if s=='': return None
    R=10
    if len(s)>=2 and s[:2] in('0x','0X'): s=s[2:]; R=16
    elif len(s)>=2 and s[0]=='0': s=s[1:]; R=8
    if s=='': return 0
    digs={8:'01234567',10:'0123456789',16:HEX}[R]
    if any(ch not in digs for ch in s): return None
    return int(s,R)
def ends_in_number(s):
    parts=s.split('.')
    if parts[-1]=='':
        if len(parts)==1: return False
        parts.pop()
    last=parts[-1]
    if last!='' and all(ch in '0123456789' for ch in last): return True
    return ipv4_number(last) is not None
def ipv4_parse(s):
    parts=s.split('.')
    if parts[-1]=='' and len(parts)>1: parts.pop()
    if len(parts)>4: return None
    nums=[]
    for p in parts:
        n=ipv4_number(p)
        if n is None: return None
        nums.append(n)
    if any(n>255 for n in nums[:-1]): return None
    if nums[-1]>=256**(5-len(nums)): return None
    ip=nums[-1]
    for i,n in enumerate(nums[:-1]): ip+=n*256**(3-i)
    return ip
def ipv4_ser(n): return '.'.join(str((n>>sh)&255) for sh in (24,16,8,0))
def ipv6_parse(s):
    a=[0]*8; pi=0; comp=None; p=0; L=len(s)
    def c(): return s[p] if p<L else None
    if c()==':':
        if not s[p+1:p+2]==':': return None
        p+=2; pi+=1; comp=pi
    while c() is not None:
        if pi==8: return None
        if c()==':':
            if comp is not None: return None
            p+=1; pi+=1; comp=pi; continue
        value=length=0
        while length<4 and c() is not None and c() in HEX: value=value*16+int(c(),16); p+=1; length+=1
        if c()=='.':
            if length==0: return None
            p-=length
            if pi>6: return None
            seen=0
            while c() is not None:
                piece=None
                if seen>0:
                    if c()=='.' and seen<4: p+=1
                    else: return None
                if c() is None or c() not in '0123456789': return None
                while c() is not None and c() in '0123456789':
                    n=int(c())
                    if piece is None: piece=n
                    elif piece==0: return None
                    else: piece=piece*10+n
                    if piece>255: return None
                    p+=1
                a[pi]=a[pi]*0x100+piece; seen+=1
                if seen in(2,4): pi+=1
            if seen!=4: return None
            break
        elif c()==':':
            p+=1
            if c() is None: return None
        elif c() is not None: return None
        a[pi]=value; pi+=1
    if comp is not None:
        swaps=pi-comp; pi=7
        while pi!=0 and swaps>0: a[pi],a[comp+swaps-1]=a[comp+swaps-1],a[pi]; pi-=1; swaps-=1
    elif pi!=8: return None
    return a
def ipv6_ser(a):
    best=None; bl=0; i=0
    while i<8:
        if a[i]==0:
            j=i
            while j<8 and a[j]==0: j+=1
            if j-i>bl: bl=j-i; best=i
            i=j
        else: i+=1
    comp=best if bl>1 else None
    out=''; ignore0=False
    for i in range(8):
        if ignore0 and a[i]==0: continue
        elif ignore0: ignore0=False
        if comp==i: out+='::' if i==0 else ':'; ignore0=True; continue
        out+='%x'%a[i]
        if i!=7: out+=':'
    return out
# ---------- host: returns (kind, serialized) or None; kinds: 'domain','ipv4','ipv6','opaque','empty'
def host_parse(s,is_opaque):
    if s.startswith('['):
        if not s.endswith(']'): return None
        a=ipv6_parse(s[1:-1]); 
        return None if a is None else ('ipv6','['+ipv6_ser(a)+']')
    if is_opaque:
        if any(ord(ch) in FORB_HOST for ch in s): return None
        return ('opaque',pes(s,c0))
    assert s!=''
    domain=pct_decode(s.encode('utf-8')).decode('utf-8','replace')
    asc=to_ascii(domain)
    if asc is None: return None
    if any(forb_domain(ord(ch)) for ch in asc): return None
    if ends_in_number(asc):
        n=ipv4_parse(asc); return None if n is None else ('ipv4',ipv4_ser(n))
    return ('domain',asc)
# ---------- record
class URL:
    def __init__(s): s.scheme='';s.username='';s.password='';s.host=None;s.port=None;s.path=[];s.opaque=False;s.query=None;s.fragment=None
    def clone(s):
        u=URL(); u.__dict__.update(s.__dict__); u.path=list(s.path) if not s.opaque else s.path; return u
    def special(s): return s.scheme in SPECIAL
    def creds(s): return s.username!='' or s.password!=''
def wdl(s): return len(s)==2 and s[0].isascii() and s[0].isalpha() and s[1] in ':|'
def nwdl(s): return len(s)==2 and s[0].isascii() and s[0].isalpha() and s[1]==':'
def starts_wdl(s): return len(s)>=2 and wdl(s[:2]) and (len(s)==2 or s[2] in '/\\?#')
def shorten(u):
    if u.scheme=='file' and len(u.path)==1 and nwdl(u.path[0]): return
    if u.path: u.path.pop()
def single_dot(b): return b.lower() in ('.','%2e')
def double_dot(b): return b.lower() in ('..','.%2e','%2e.','%2e%2e')
def serialize(u,exclude_fragment=False):
    o=u.scheme+':'
    if u.host is not None:
        o+='//'
        if u.creds():
            o+=u.username
            if u.password!='': o+=':'+u.password
            o+='@'
        o+=u.host[1]
        if u.port is not None: o+=':'+str(u.port)
    if u.host is None and not u.opaque and len(u.path)>1 and u.path[0]=='': o+='/.'
    o+=path_ser(u)
    if u.query is not None: o+='?'+u.query
    if not exclude_fragment and u.fragment is not None: o+='#'+u.fragment
    return o
def path_ser(u): return u.path if u.opaque else ''.join('/'+seg for seg in u.path)
FAIL='FAIL'
def basic_parse(inp,base=None,url=None,override=None):
    if url is None:
        url=URL(); 
        while inp and ord(inp[0])<=0x20: inp=inp[1:]
        while inp and ord(inp[-1])<=0x20: inp=inp[:-1]
    inp=''.join(ch for ch in inp if ch not in '\t\n\r')
    state=override or 'scheme start'; buf=''; at=False; br=False; pw=False; p=0; L=len(inp)
    while True:
        c=inp[p] if p<L else None   # None = EOF
        rem=inp[p+1:]
        if state=='scheme start':
            if c is not None and c.isascii() and c.isalpha(): buf+=c.lower(); state='scheme'
            elif override is None: state='no scheme'; p-=1
            else: return FAIL
        elif state=='scheme':
            if c is not None and c.isascii() and (c.isalnum() or c in '+-.'): buf+=c.lower()
            elif c==':':
                if override:
                    if (url.scheme in SPECIAL)!=(buf in SPECIAL): return url
                    if (url.creds() or url.port is not None) and buf=='file': return url
                    if url.scheme=='file' and url.host==('empty',''): return url
                url.scheme=buf
                if override:
                    if url.port is not None and url.port==SPECIAL.get(url.scheme): url.port=None
                    return url
                buf=''
                if url.scheme=='file': state='file'
                elif url.special() and base is not None and base.scheme==url.scheme: state='special relative or authority'
                elif url.special(): state='special authority slashes'
                elif rem.startswith('/'): state='path or authority'; p+=1
                else: url.path=''; url.opaque=True; state='opaque path'
            elif override is None: buf=''; state='no scheme'; p=-1
            else: return FAIL
        elif state=='no scheme':
            if base is None or (base.opaque and c!='#'): return FAIL
            elif base.opaque and c=='#': url.scheme=base.scheme; url.path=base.path; url.opaque=True; url.query=base.query; url.fragment=''; state='fragment'
            elif base.scheme!='file': state='relative'; p-=1
            else: state='file'; p-=1
        elif state=='special relative or authority':
            if c=='/' and rem.startswith('/'): state='special authority ignore slashes'; p+=1
            else: state='relative'; p-=1
        elif state=='path or authority':
            if c=='/': state='authority'
            else: state='path'; p-=1
        elif state=='relative':
            url.scheme=base.scheme
            if c=='/': state='relative slash'
            elif url.special() and c=='\\': state='relative slash'
            else:
                url.username,url.password,url.host,url.port,url.path,url.opaque,url.query=base.username,base.password,base.host,base.port,list(base.path),base.opaque,base.query
                if c=='?': url.query=''; state='query'
                elif c=='#': url.fragment=''; state='fragment'
                elif c is not None: url.query=None; shorten(url); state='path'; p-=1
        elif state=='relative slash':
            if url.special() and c in ('/','\\'): state='special authority ignore slashes'
            elif c=='/': state='authority'
            else: url.username,url.password,url.host,url.port=base.username,base.password,base.host,base.port; state='path'; p-=1
        elif state=='special authority slashes':
            if c=='/' and rem.startswith('/'): state='special authority ignore slashes'; p+=1
            else: state='special authority ignore slashes'; p-=1
        elif state=='special authority ignore slashes':
            if c not in ('/','\\'): state='authority'; p-=1
        elif state=='authority':
            if c=='@':
                if at: buf='%40'+buf
                at=True
                for cp in buf:
                    if cp==':' and not pw: pw=True; continue
                    e=pe(ord(cp),s_user)
                    if pw: url.password+=e
                    else: url.username+=e
                buf=''
            elif c is None or c in '/?#' or (url.special() and c=='\\'):
                if at and buf=='': return FAIL
                p-=len(buf)+1; buf=''; state='host'
            else: buf+=c
        elif state in('host','hostname'):
            if override and url.scheme=='file': p-=1; state='file host'
            elif c==':' and not br:
                if buf=='': return FAIL
                if override=='hostname': return url
                h=host_parse(buf,not url.special())
                if h is None: return FAIL
                url.host=h; buf=''; state='port'
            elif c is None or c in '/?#' or (url.special() and c=='\\'):
                p-=1
                if url.special() and buf=='': return FAIL
                elif override and buf=='' and (url.creds() or url.port is not None): return url
                h=host_parse(buf,not url.special()) if buf!='' else ('empty','')
                if h is None: return FAIL
                url.host=h; buf=''; state='path start'
                if override: return url
            else:
                if c=='[': br=True
                if c==']': br=False
                buf+=c
        elif state=='port':
            if c is not None and c in '0123456789': buf+=c
            elif c is None or c in '/?#' or (url.special() and c=='\\') or override:
                if buf!='':
                    port=int(buf)
                    if port>65535: return FAIL
                    url.port=None if SPECIAL.get(url.scheme)==port and url.scheme in SPECIAL else port
                    buf=''
                if override: return url
                state='path start'; p-=1
            else: return FAIL
        elif state=='file':
            url.scheme='file'; url.host=('empty','')
            if c in ('/','\\'): state='file slash'
            elif base is not None and base.scheme=='file':
                url.host,url.path,url.opaque,url.query=base.host,list(base.path),base.opaque,base.query
                if c=='?': url.query=''; state='query'
                elif c=='#': url.fragment=''; state='fragment'
                elif c is not None:
                    url.query=None
                    if not starts_wdl(inp[p:]): shorten(url)
                    else: url.path=[]
                    state='path'; p-=1
            else: state='path'; p-=1
        elif state=='file slash':
            if c in ('/','\\'): state='file host'
            else:
                if base is not None and base.scheme=='file':
                    url.host=base.host
                    if not starts_wdl(inp[p:]) and base.path and nwdl(base.path[0]): url.path.append(base.path[0])
                state='path'; p-=1
        elif state=='file host':
            if c is None or c in '/\\?#':
                p-=1
                if not override and wdl(buf): state='path'
                elif buf=='':
                    url.host=('empty','')
                    if override: return url
                    state='path start'
                else:
                    h=host_parse(buf,False)
                    if h is None: return FAIL
                    if h==('domain','localhost'): h=('empty','')
                    url.host=h
                    if override: return url
                    buf=''; state='path start'
            else: buf+=c
        elif state=='path start':
            if url.special():
                state='path'
                if c not in ('/','\\'): p-=1
            elif not override and c=='?': url.query=''; state='query'
            elif not override and c=='#': url.fragment=''; state='fragment'
            elif c is not None:
                state='path'
                if c!='/': p-=1
            elif override and url.host is None: url.path.append('')
        elif state=='path':
            if c is None or c=='/' or (url.special() and c=='\\') or (not override and c in ('?','#')):
                sep = c=='/' or (url.special() and c=='\\')
                if double_dot(buf):
                    shorten(url)
                    if not sep: url.path.append('')
                elif single_dot(buf) and not sep: url.path.append('')
                elif not single_dot(buf):
                    if url.scheme=='file' and not url.path and wdl(buf): buf=buf[0]+':'
                    url.path.append(buf)
                buf=''
                if c=='?': url.query=''; state='query'
                if c=='#': url.fragment=''; state='fragment'
            else: buf+=pe(ord(c),s_path)
        elif state=='opaque path':
            if c=='?': url.query=''; state='query'
            elif c=='#': url.fragment=''; state='fragment'
            elif c is not None: url.path+=pe(ord(c),c0)
        elif state=='query':
            if (not override and c=='#') or c is None:
                url.query+=pes(buf,s_squery if url.special() else s_query); buf=''
                if c=='#': url.fragment=''; state='fragment'
            else: buf+=c
        elif state=='fragment':
            if c is not None: url.fragment+=pe(ord(c),s_frag)
        if p>=L: break   # "if after a run pointer points to EOF, go to next step"
        p+=1
    return url
# ---------- API
def origin(u):
    if u.scheme=='blob':
        pu=basic_parse(path_ser(u))
        if pu==FAIL: return 'null'
        if pu.scheme in('http','https'): return origin(pu)
        return 'null'
    if u.scheme in('ftp','http','https','ws','wss'): return u.scheme+'://'+u.host[1]+('' if u.port is None else ':'+str(u.port))
    return 'null'
def cannot_have(u): return u.host is None or u.host==('empty','') or u.scheme=='file'
def strip_spaces(u):
    if u.opaque and u.fragment is None and u.query is None: u.path=u.path.rstrip(' ')
def api_set(u,w,v):
    if w=='href':
        r=basic_parse(v); 
        return (r,True) if r!=FAIL else (u,False)
    u=u.clone()
    if w=='protocol': basic_parse(v+':',None,u,'scheme start')
    elif w=='username':
        if not cannot_have(u): u.username=pes(v,s_user)
    elif w=='password':
        if not cannot_have(u): u.password=pes(v,s_user)
    elif w=='host':
        if not u.opaque: basic_parse(v,None,u,'host')
    elif w=='hostname':
        if not u.opaque: basic_parse(v,None,u,'hostname')
    elif w=='port':
        if not cannot_have(u):
            if v=='': u.port=None
            else: basic_parse(v,None,u,'port')
    elif w=='pathname':
        if not u.opaque: u.path=[]; basic_parse(v,None,u,'path start')
    elif w=='search':
        if v=='': u.query=None; strip_spaces(u)
        else:
            if v[0]=='?': v=v[1:]
            u.query=''; basic_parse(v,None,u,'query')
    elif w=='hash':
        if v=='': u.fragment=None; strip_spaces(u)
        else:
            if v[0]=='#': v=v[1:]
            u.fragment=''; basic_parse(v,None,u,'fragment')
    return (u,None)
def hx(s): 
    b=s.encode('utf-8'); return b.hex() if b else '-'
HT={'empty':0,'opaque':1,'domain':2,'ipv4':3,'ipv6':4}
def dump(u):
    if u is None or u==FAIL: return 'INVALID'
    host='' if u.host is None else u.host[1]+('' if u.port is None else ':'+str(u.port))
    return 'href=%s orig=%s prot=%s user=%s pass=%s host=%s hostname=%s port=%s path=%s search=%s hash=%s nulls=%s%s%s%s ht=%d op=%d'%(hx(serialize(u)),hx(origin(u)),hx(u.scheme+':'),hx(u.username),hx(u.password),hx(host),hx('' if u.host is None else u.host[1]),hx('' if u.port is None else str(u.port)),hx(path_ser(u)),hx('' if not u.query else '?'+u.query),hx('' if not u.fragment else '#'+u.fragment),'n' if u.host is None else '-','n' if u.port is None else '-','n' if u.query is None else '-','n' if u.fragment is None else '-',0 if u.host is None else HT[u.host[0]],1 if u.opaque else 0)
