/-
  Design-phase calibration prototype (see DESIGN.md 2.1). NOT part of the Lean project that the checks
  build; kept because it compiles, contains no unfinished proof and shows the proof style that was measured.
-/
/-! Calibration: IPv4 number parser, code-shaped model vs Standard-shaped spec -/
namespace Calib

notation "CU" => Nat

def isDigit (c : CU) : Bool := 48 ≤ c && c ≤ 57
def isHex (c : CU) : Bool := isDigit c || (65 ≤ c && c ≤ 70) || (97 ≤ c && c ≤ 102)
def hexVal (c : CU) : Nat := if isDigit c then c - 48 else if c ≤ 70 then c - 55 else c - 87

/-- Standard: digit value in radix R, or none -/
def digitVal (R : Nat) (c : CU) : Option Nat :=
  if R = 16 then (if isHex c then some (hexVal c) else none)
  else if 48 ≤ c ∧ c < 48 + R then some (c - 48) else none

/-- Standard step 7/8: all radix-R digits → value -/
def specValue (R : Nat) : List CU → Nat → Option Nat
  | [], acc => some acc
  | c :: cs, acc => match digitVal R c with
    | some d => specValue R cs (acc * R + d)
    | none => none

/-- Standard IPv4 number parser: none = failure -/
def specNumber (inp : List CU) : Option Nat :=
  match inp with
  | [] => none
  | [c] => specValue 10 [c] 0   -- fewer than two code points: radix 10
  | 48 :: c1 :: rest =>
      if c1 = 88 ∨ c1 = 120 then
        (if rest = [] then some 0 else specValue 16 rest 0)
      else specValue 8 (c1 :: rest) 0
  | c0 :: c1 :: rest => specValue 10 (c0 :: c1 :: rest) 0

/-- code: skip leading zeros -/
def skipZeros : List CU → List CU
  | 48 :: cs => skipZeros cs
  | cs => cs

/-- code-shaped model of ipv4_parse_number with the 11-char cut-off and 2^32 check.
    Result: none = failure, some n = ok (n < 2^32) -/
def implNumber (inp : List CU) : Option Nat :=
  match inp with
  | [] => none
  | 48 :: [] => some 0
  | 48 :: c1 :: rest =>
      let (R, body) := if c1 = 88 ∨ c1 = 120 then (16, rest) else (8, c1 :: rest)
      let body := skipZeros body
      if body = [] then some 0
      else if body.length > 11 then none
      else match specValue R body 0 with
        | some v => if v > 4294967295 then none else some v
        | none => none
  | cs =>
      if cs.length > 11 then none
      else match specValue 10 cs 0 with
        | some v => if v > 4294967295 then none else some v
        | none => none

end Calib

namespace Calib

def clamp32 : Option Nat → Option Nat
  | some v => if v > 4294967295 then none else some v
  | none => none

theorem hexVal_lt {c} (h : isHex c = true) : hexVal c < 16 := by
  unfold hexVal; simp [isHex, isDigit] at h ⊢
  split <;> (try split) <;> omega

theorem hexVal_pos {c} (h : isHex c = true) (hc : c ≠ 48) : hexVal c ≠ 0 := by
  unfold hexVal; simp [isHex, isDigit] at h ⊢
  split <;> (try split) <;> omega

theorem digitVal_lt {R c d} (hR : R = 8 ∨ R = 10 ∨ R = 16) (h : digitVal R c = some d) : d < R := by
  unfold digitVal at h
  rcases hR with rfl | rfl | rfl <;> simp at h
  · omega
  · omega
  · obtain ⟨hh, rfl⟩ := h; exact hexVal_lt hh

theorem digitVal_pos {R c d} (hR : R = 8 ∨ R = 10 ∨ R = 16) (h : digitVal R c = some d) (hc : c ≠ 48) : d ≠ 0 := by
  unfold digitVal at h
  rcases hR with rfl | rfl | rfl <;> simp at h
  · omega
  · omega
  · obtain ⟨hh, rfl⟩ := h; exact hexVal_pos hh hc

theorem digitVal_zero {R} (hR : R = 8 ∨ R = 10 ∨ R = 16) : digitVal R 48 = some 0 := by
  rcases hR with rfl | rfl | rfl <;> simp [digitVal, isHex, isDigit, hexVal]

theorem specValue_skipZeros {R} (hR : R = 8 ∨ R = 10 ∨ R = 16) (cs : List CU) :
    specValue R (skipZeros cs) 0 = specValue R cs 0 := by
  fun_induction skipZeros cs with
  | case1 cs ih => rw [ih]; simp [specValue, digitVal_zero hR]
  | case2 cs h => rfl

theorem specValue_ge {R} (cs : List CU) (acc v : Nat) (h : specValue R cs acc = some v) :
    acc * R ^ cs.length ≤ v := by
  induction cs generalizing acc with
  | nil => simp [specValue] at h; simp [h]
  | cons c cs ih =>
    simp only [specValue] at h
    split at h
    · rename_i d hd
      have := ih _ h
      simp only [List.length_cons, Nat.pow_succ]
      calc acc * (R ^ cs.length * R) = (acc * R) * R ^ cs.length := by
              rw [Nat.mul_comm (R ^ cs.length) R, Nat.mul_assoc]
        _ ≤ (acc * R + d) * R ^ cs.length := Nat.mul_le_mul_right _ (Nat.le_add_right _ _)
        _ ≤ v := this
    · cases h

theorem long_numeral_big {R} (hR : R = 8 ∨ R = 10 ∨ R = 16) (c : CU) (cs : List CU) (v : Nat)
    (hc : c ≠ 48) (hlen : cs.length ≥ 11) (h : specValue R (c :: cs) 0 = some v) :
    v > 4294967295 := by
  simp only [specValue] at h
  split at h
  · rename_i d hd
    have hd0 : d ≠ 0 := digitVal_pos hR hd hc
    have hge := specValue_ge cs _ v h
    simp only [Nat.zero_mul, Nat.zero_add] at hge
    have h1 : 1 ≤ d := Nat.one_le_iff_ne_zero.mpr hd0
    have hR8 : 8 ≤ R := by rcases hR with rfl | rfl | rfl <;> omega
    have h8 : (8:Nat) ^ 11 ≤ R ^ cs.length :=
      calc (8:Nat)^11 ≤ R^11 := Nat.pow_le_pow_left hR8 11
        _ ≤ R ^ cs.length := Nat.pow_le_pow_right (by omega) hlen
    have : 8^11 ≤ d * R ^ cs.length :=
      calc 8^11 ≤ R ^ cs.length := h8
        _ = 1 * R ^ cs.length := by simp
        _ ≤ d * R ^ cs.length := Nat.mul_le_mul_right _ h1
    have e : (8:Nat)^11 = 8589934592 := by decide
    omega
  · cases h

end Calib
