/-
  Design-phase calibration prototype (see DESIGN.md 2.1). NOT part of the Lean project that the checks
  build; kept because it compiles, contains no unfinished proof and shows the proof style that was measured.
-/
/-- code-shaped: append_utf8 for the 2- and 3-byte cases -/
def enc8 (cp : Nat) : List Nat :=
  if cp ≤ 0x7f then [cp]
  else if cp ≤ 0x7ff then [(cp >>> 6) ||| 0xc0, (cp &&& 0x3f) ||| 0x80]
  else if cp ≤ 0xffff then [(cp >>> 12) ||| 0xe0, ((cp >>> 6) &&& 0x3f) ||| 0x80, (cp &&& 0x3f) ||| 0x80]
  else [(cp >>> 18) ||| 0xf0, ((cp >>> 12) &&& 0x3f) ||| 0x80, ((cp >>> 6) &&& 0x3f) ||| 0x80, (cp &&& 0x3f) ||| 0x80]

theorem or80 : ∀ x, x < 64 → x ||| 0x80 = x + 0x80 := by decide
theorem orC0 : ∀ x, x < 32 → x ||| 0xc0 = x + 0xc0 := by decide
theorem orE0 : ∀ x, x < 16 → x ||| 0xe0 = x + 0xe0 := by decide
theorem orF0 : ∀ x, x < 8 → x ||| 0xf0 = x + 0xf0 := by decide

theorem and3f (x : Nat) : x &&& 0x3f = x % 64 := by
  have : (0x3f : Nat) = 2^6 - 1 := by decide
  rw [this, Nat.and_two_pow_sub_one_eq_mod]
theorem shr6 (x : Nat) : x >>> 6 = x / 64 := by simp [Nat.shiftRight_eq_div_pow]
theorem shr12 (x : Nat) : x >>> 12 = x / 4096 := by simp [Nat.shiftRight_eq_div_pow]
theorem shr18 (x : Nat) : x >>> 18 = x / 262144 := by simp [Nat.shiftRight_eq_div_pow]

theorem enc8_arith (cp : Nat) (h : cp < 0x110000) : enc8 cp =
  if cp ≤ 0x7f then [cp]
  else if cp ≤ 0x7ff then [cp / 64 + 0xc0, cp % 64 + 0x80]
  else if cp ≤ 0xffff then [cp / 4096 + 0xe0, cp / 64 % 64 + 0x80, cp % 64 + 0x80]
  else [cp / 262144 + 0xf0, cp / 4096 % 64 + 0x80, cp / 64 % 64 + 0x80, cp % 64 + 0x80] := by
  unfold enc8
  simp only [and3f, shr6, shr12, shr18]
  split
  · rfl
  · split
    · rw [orC0 _ (by omega), or80 _ (by omega)]
    · split
      · rw [orE0 _ (by omega), or80 _ (by omega), or80 _ (by omega)]
      · rw [orF0 _ (by omega), or80 _ (by omega), or80 _ (by omega), or80 _ (by omega)]
#print axioms enc8_arith
