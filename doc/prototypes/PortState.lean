/-
  Design-phase calibration prototype (see DESIGN.md 2.1). NOT part of the Lean project that the checks
  build; kept because it compiles, contains no unfinished proof and shows the proof style that was measured.
-/
/-! Calibration slice A: port state — Standard-shaped vs code-shaped (url.h:1945-1990) -/
namespace Port

def isDigit (c : Nat) : Bool := 48 ≤ c && c ≤ 57
def isAuthEnd (special : Bool) (c : Nat) : Bool := c = 47 || c = 63 || c = 35 || (special && c = 92)

def decVal : List Nat → Nat → Nat
  | [], acc => acc
  | c :: cs, acc => decVal cs (acc * 10 + (c - 48))

/-- what the port state does to the URL: leave / set null / set value -/
inductive PortEff | unchanged | null | val (n : Nat)
deriving DecidableEq, Repr

inductive Res
  | fail
  | ret (e : PortEff)                    -- state override: return
  | toPathStart (e : PortEff) (rest : List Nat)
deriving DecidableEq, Repr

/-- Standard, port state step 2.1 -/
def specFinish (dflt : Option Nat) (override : Bool) (buf rest : List Nat) : Res :=
  let eff : Option PortEff :=
    if buf ≠ [] then
      let port := decVal buf 0
      if port > 65535 then none
      else some (if dflt = some port then .null else .val port)
    else some .unchanged
  match eff with
  | none => .fail
  | some e => if override then .ret e else .toPathStart e rest

/-- Standard, port state, one code point at a time with `buffer` -/
def specPort (special : Bool) (dflt : Option Nat) (override : Bool) : List Nat → List Nat → Res
  | buf, [] => specFinish dflt override buf []
  | buf, c :: rest =>
    if isDigit c then specPort special dflt override (buf ++ [c]) rest
    else if isAuthEnd special c || override then specFinish dflt override buf (c :: rest)
    else .fail

/-- code: skip the leading zeros except the last: find_if(pointer, end_of_digits - 1, c != '0') -/
def skipZerosKeepLast : List Nat → List Nat
  | [c] => [c]
  | 48 :: cs => skipZerosKeepLast cs
  | cs => cs

/-- code-shaped block -/
def implPort (special : Bool) (dflt : Option Nat) (override : Bool) (inp : List Nat) : Res :=
  let digits := inp.takeWhile isDigit
  let after := inp.dropWhile isDigit
  let isEnd := match after with
    | [] => true
    | c :: _ => isAuthEnd special c
  if isEnd || override then
    let eff : Option PortEff :=
      if digits ≠ [] then
        let d := skipZerosKeepLast digits
        if d.length > 5 then none
        else
          let port := decVal d 0
          if port > 65535 then none
          else some (if dflt = some port then .null else .val port)
      else some .unchanged
    match eff with
    | none => .fail
    | some e => if override then .ret e else .toPathStart e after
  else .fail

end Port

open Port

theorem specPort_scan (special dflt override) (buf inp : List Nat) :
    specPort special dflt override buf inp =
      (let digits := inp.takeWhile isDigit
       let after := inp.dropWhile isDigit
       match after with
       | [] => specFinish dflt override (buf ++ digits) []
       | c :: rest => if isAuthEnd special c || override then specFinish dflt override (buf ++ digits) (c :: rest) else .fail) := by
  induction inp generalizing buf with
  | nil => simp [specPort]
  | cons c rest ih =>
    by_cases hd : isDigit c = true
    · simp only [specPort, hd, ↓reduceIte, List.takeWhile_cons_of_pos, List.dropWhile_cons_of_pos]
      rw [ih]
      simp [List.append_assoc]
    · simp only [specPort, hd, List.takeWhile_cons_of_neg, List.dropWhile_cons_of_neg,
        Bool.false_eq_true, ↓reduceIte, List.append_nil, not_false_eq_true]

theorem decVal_append (a b : List Nat) (acc : Nat) : decVal (a ++ b) acc = decVal b (decVal a acc) := by
  induction a generalizing acc with
  | nil => rfl
  | cons c cs ih => simp [decVal, ih]

theorem decVal_zero_cons (cs : List Nat) : decVal (48 :: cs) 0 = decVal cs 0 := by simp [decVal]

theorem decVal_skip (ds : List Nat) : decVal (skipZerosKeepLast ds) 0 = decVal ds 0 := by
  fun_induction skipZerosKeepLast ds with
  | case1 c => rfl
  | case2 cs h ih => rw [ih, decVal_zero_cons]
  | case3 cs h1 h2 => rfl

theorem decVal_ge (cs : List Nat) (acc : Nat) : acc * 10 ^ cs.length ≤ decVal cs acc := by
  induction cs generalizing acc with
  | nil => simp [decVal]
  | cons c cs ih =>
    simp only [decVal, List.length_cons, Nat.pow_succ]
    calc acc * (10 ^ cs.length * 10) = (acc * 10) * 10 ^ cs.length := by
            rw [Nat.mul_comm (10 ^ cs.length) 10, Nat.mul_assoc]
      _ ≤ (acc * 10 + (c - 48)) * 10 ^ cs.length := Nat.mul_le_mul_right _ (Nat.le_add_right _ _)
      _ ≤ _ := ih _

/-- after skipping, more than five digits means more than 65535 -/
theorem skip_long_big (ds : List Nat) (hd : ∀ c ∈ ds, isDigit c = true)
    (hlen : (skipZerosKeepLast ds).length > 5) : decVal ds 0 > 65535 := by
  rw [← decVal_skip]
  have key : ∀ ds : List Nat, (∀ c ∈ ds, isDigit c = true) → (skipZerosKeepLast ds).length > 5 →
      ∃ c cs, skipZerosKeepLast ds = c :: cs ∧ c ≠ 48 ∧ isDigit c = true ∧ cs.length ≥ 5 := by
    intro ds
    fun_induction skipZerosKeepLast ds with
    | case1 c => intro _ h; simp at h
    | case2 cs h ih => intro hd hl; exact ih (fun c hc => hd c (List.mem_cons_of_mem _ hc)) hl
    | case3 cs h1 h2 =>
      intro hd hl
      cases cs with
      | nil => simp at hl
      | cons c cs =>
        refine ⟨c, cs, rfl, ?_, hd c (List.mem_cons_self), by simp at hl; omega⟩
        intro hc; subst hc; exact h2 cs rfl
  obtain ⟨c, cs, he, hc, hdig, hl⟩ := key ds hd hlen
  rw [he]
  simp only [decVal, Nat.zero_mul, Nat.zero_add]
  have h1 : 1 ≤ c - 48 := by
    simp [isDigit] at hdig; omega
  have := decVal_ge cs (c - 48)
  have h5 : (10:Nat)^5 ≤ 10 ^ cs.length := Nat.pow_le_pow_right (by omega) hl
  have : 10^5 ≤ (c - 48) * 10 ^ cs.length :=
    calc 10^5 ≤ 10 ^ cs.length := h5
      _ = 1 * 10 ^ cs.length := by simp
      _ ≤ (c-48) * 10 ^ cs.length := Nat.mul_le_mul_right _ h1
  have e : (10:Nat)^5 = 100000 := by decide
  omega

