/-
  Design-phase calibration prototype (see DESIGN.md 2.1). NOT part of the Lean project that the checks
  build; kept because it compiles, contains no unfinished proof and shows the proof style that was measured.
-/
/-! Calibration slice B: url_serializer::start_part / save_part on the offsets representation -/
namespace Ser

-- PartType
abbrev SCHEME : Nat := 0
abbrev SCHEME_SEP : Nat := 1
abbrev USERNAME : Nat := 2
abbrev PASSWORD : Nat := 3
abbrev HOST_START : Nat := 4
abbrev HOST : Nat := 5
abbrev PORT : Nat := 6
abbrev PATH_PREFIX : Nat := 7
abbrev PATH : Nat := 8
abbrev QUERY : Nat := 9
abbrev FRAGMENT : Nat := 10

structure St where
  norm : List Nat
  pe : List Nat          -- 11 entries
  flags : Nat
  lastPt : Nat
deriving Repr, DecidableEq

def St.get (s : St) (i : Nat) : Nat := s.pe.getD i 0
def St.set (s : St) (i v : Nat) : St := { s with pe := s.pe.set i v }

/-- fill_parts_offset(t1, t2, offset): for ind in [t1, t2) -/
def fillParts (s : St) (t1 t2 off : Nat) : St :=
  (List.range (t2 - t1)).foldl (fun s k => s.set (t1 + k) off) s

/-- url_serializer::start_part, url.h:2543-2594 (returns the state; the caller appends to norm) -/
def startPart (s : St) (newPt : Nat) : St :=
  let fillStart := s.lastPt + 1
  -- switch (last_pt_)
  let (s, fillStart, early) : St × Nat × Bool :=
    if s.lastPt = SCHEME then
      (if newPt ≤ HOST then { s with norm := s.norm ++ [47, 47] } else s, fillStart, false)
    else if s.lastPt = USERNAME then
      if newPt = PASSWORD then ({ s with norm := s.norm ++ [58] }, fillStart, false)
      else
        let s := s.set PASSWORD s.norm.length
        let s := if newPt = HOST then { s with norm := s.norm ++ [64] } else s
        (s, HOST_START, false)
    else if s.lastPt = PASSWORD then
      (if newPt = HOST then { s with norm := s.norm ++ [64] } else s, fillStart, false)
    else if s.lastPt = PATH then
      if newPt = PATH then (s, fillStart, true) else (s, fillStart, false)
    else (s, fillStart, false)
  if early then s else
  let s := fillParts s fillStart newPt s.norm.length
  let s :=
    if newPt = PORT then { s with norm := s.norm ++ [58] }
    else if newPt = QUERY then { s with norm := s.norm ++ [63] }
    else if newPt = FRAGMENT then { s with norm := s.norm ++ [35] }
    else s
  { s with lastPt := newPt }

def savePart (s : St) : St := s.set s.lastPt s.norm.length
def append (s : St) (bs : List Nat) : St := { s with norm := s.norm ++ bs }
def setFlag (s : St) (bit : Nat) : St := { s with flags := s.flags ||| (1 <<< bit) }

/-- the query block of url_parse: start_part(QUERY); append encoded; save_part(); set_flag(QUERY_FLAG) -/
def setQuery (s : St) (q : List Nat) : St :=
  setFlag (savePart (append (startPart s QUERY) q)) QUERY

/-- getters (url::get_part_view etc.) -/
def kPartStart (t : Nat) : Nat := if t = PASSWORD ∨ t = PORT ∨ t = QUERY ∨ t = FRAGMENT then 1 else 0
def slice (l : List Nat) (b e : Nat) : List Nat := (l.drop b).take (e - b)
def partView (s : St) (t : Nat) : List Nat :=
  if t = SCHEME then slice s.norm 0 (s.get SCHEME)
  else slice s.norm (s.get (t-1) + kPartStart t) (s.get t)
def isNull (s : St) (t : Nat) : Bool := (s.flags &&& (1 <<< t)) == 0

end Ser

open Ser

theorem fillParts_empty (s : St) (t off : Nat) : fillParts s t t off = s := by
  simp [fillParts]

theorem startPart_query_of_path (s : St) (h : s.lastPt = PATH) :
    startPart s QUERY = { s with norm := s.norm ++ [63], lastPt := QUERY } := by
  unfold startPart
  simp [h, PATH, QUERY, SCHEME, USERNAME, PASSWORD, PORT, FRAGMENT, fillParts]

theorem setQuery_norm (s : St) (q : List Nat) (h : s.lastPt = PATH) :
    (setQuery s q).norm = s.norm ++ 63 :: q := by
  simp [setQuery, startPart_query_of_path s h, append, savePart, setFlag, St.set]

theorem setQuery_pe (s : St) (q : List Nat) (h : s.lastPt = PATH) :
    (setQuery s q).pe = s.pe.set QUERY (s.norm.length + 1 + q.length) := by
  simp [setQuery, startPart_query_of_path s h, append, savePart, setFlag, St.set, Nat.add_assoc,
    Nat.add_comm q.length 1]

theorem get_set_ne (s : St) (i j v : Nat) (h : i ≠ j) : (s.set i v).get j = s.get j := by
  simp [St.get, St.set, List.getD_eq_getElem?_getD, List.getElem?_set_ne h]

theorem get_set_eq (s : St) (i v : Nat) (h : i < s.pe.length) : (s.set i v).get i = v := by
  simp [St.get, St.set, List.getD_eq_getElem?_getD, h]

theorem slice_append_left (l r : List Nat) (b e : Nat) (he : e ≤ l.length) :
    slice (l ++ r) b e = slice l b e := by
  unfold slice
  by_cases hb : b ≤ l.length
  · rw [List.drop_append_of_le_length hb, List.take_append_of_le_length]
    simp; omega
  · have : e - b = 0 := by omega
    simp [this]

theorem slice_suffix (l r : List Nat) : slice (l ++ r) l.length (l.length + r.length) = r := by
  simp [slice]

